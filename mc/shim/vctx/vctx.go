// Package context (import path …/verifshim/vctx) replaces "context" inside the
// instrumented copy of vaxis: deadlines are virtual timers of vtime.
package context

import (
	stdctx "context"
	"sync"

	vtime "git.sr.ht/~rockorager/vaxis/verifshim/vtime"
)

type (
	Context    = stdctx.Context
	CancelFunc = stdctx.CancelFunc
)

var (
	Canceled         = stdctx.Canceled
	DeadlineExceeded = stdctx.DeadlineExceeded
)

func Background() Context { return stdctx.Background() }
func TODO() Context       { return stdctx.TODO() }

func WithCancel(parent Context) (Context, CancelFunc) { return stdctx.WithCancel(parent) }

type deadlineCtx struct {
	Context
	mu  sync.Mutex
	err error
}

func (d *deadlineCtx) Err() error {
	d.mu.Lock()
	defer d.mu.Unlock()
	if d.err != nil {
		return d.err
	}
	return d.Context.Err()
}

// WithTimeout returns a context cancelled when the virtual timer fires.
func WithTimeout(parent Context, d vtime.Duration) (Context, CancelFunc) {
	inner, cancel := stdctx.WithCancel(parent)
	dc := &deadlineCtx{Context: inner}
	t := vtime.AfterFunc(d, func() {
		dc.mu.Lock()
		dc.err = stdctx.DeadlineExceeded
		dc.mu.Unlock()
		cancel()
	})
	return dc, func() {
		t.Stop()
		cancel()
	}
}
