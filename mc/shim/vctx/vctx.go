// Package context (import path …/verifshim/vctx) replaces "context" inside the
// instrumented copy of vaxis: deadlines are virtual timers of vtime, and the
// Done channel is closed through vsched so that the controlled scheduler knows
// about it (outside an execution vsched.Close is a plain close).
package context

import (
	stdctx "context"
	"sync"
	stdtime "time"

	"git.sr.ht/~rockorager/vaxis/verifshim/vsched"
	vtime "git.sr.ht/~rockorager/vaxis/verifshim/vtime"
)

type (
	Context    = stdctx.Context
	CancelFunc = stdctx.CancelFunc
)

var (
	Canceled         = stdctx.Canceled
	DeadlineExceeded = stdctx.DeadlineExceeded
)

func Background() Context { return stdctx.Background() }
func TODO() Context       { return stdctx.TODO() }

type vctx struct {
	parent Context
	done   chan struct{}
	mu     sync.Mutex
	err    error

	children []*vctx
}

func (c *vctx) Deadline() (stdtime.Time, bool) { return stdtime.Time{}, false }
func (c *vctx) Done() <-chan struct{}          { return c.done }
func (c *vctx) Value(key any) any              { return c.parent.Value(key) }
func (c *vctx) Err() error {
	c.mu.Lock()
	defer c.mu.Unlock()
	return c.err
}

func (c *vctx) cancel(err error) {
	c.mu.Lock()
	if c.err != nil {
		c.mu.Unlock()
		return
	}
	c.err = err
	kids := c.children
	c.mu.Unlock()
	vsched.Close(c.done)
	for _, k := range kids {
		k.cancel(err)
	}
}

func newCtx(parent Context) *vctx {
	c := &vctx{parent: parent, done: make(chan struct{})}
	if pd := parent.Done(); pd != nil {
		if parent.Err() != nil {
			c.cancel(parent.Err())
		} else if vsched.S == nil {
			// free-running only: under the scheduler the harness passes contexts of this package
			go func() {
				select {
				case <-pd:
					c.cancel(parent.Err())
				case <-c.done:
				}
			}()
		} else if p, ok := parent.(*vctx); ok {
			p.mu.Lock()
			p.children = append(p.children, c)
			p.mu.Unlock()
		}
	}
	return c
}

func WithCancel(parent Context) (Context, CancelFunc) {
	c := newCtx(parent)
	return c, func() { c.cancel(Canceled) }
}

// WithTimeout returns a context cancelled when the virtual timer fires.
func WithTimeout(parent Context, d vtime.Duration) (Context, CancelFunc) {
	c := newCtx(parent)
	t := vtime.AfterFunc(d, func() { c.cancel(DeadlineExceeded) })
	t.Tag = "context"
	return c, func() {
		t.Stop()
		c.cancel(Canceled)
	}
}
