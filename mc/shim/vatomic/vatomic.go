// Package atomic (import path …/verifshim/vatomic) replaces "sync/atomic" in
// sched mode: every access is a scheduling point.
package atomic

import (
	stdatomic "sync/atomic"

	"git.sr.ht/~rockorager/vaxis/verifshim/vsched"
)

func LoadInt32(addr *int32) int32 {
	vsched.Yield("atomic-load")
	vsched.AtomicLoad(addr)
	return stdatomic.LoadInt32(addr)
}

func StoreInt32(addr *int32, v int32) {
	vsched.Yield("atomic-store")
	vsched.AtomicStore(addr)
	stdatomic.StoreInt32(addr, v)
}

func AddInt32(addr *int32, d int32) int32 {
	vsched.Yield("atomic-add")
	vsched.AtomicLoad(addr)
	vsched.AtomicStore(addr)
	return stdatomic.AddInt32(addr, d)
}

func CompareAndSwapInt32(addr *int32, old, new int32) bool {
	vsched.Yield("atomic-cas")
	vsched.AtomicLoad(addr)
	vsched.AtomicStore(addr)
	return stdatomic.CompareAndSwapInt32(addr, old, new)
}
