// Package time (import path …/verifshim/vtime) replaces the standard "time"
// package inside the instrumented copy of vaxis. Timers never fire on their
// own: the harness (seq mode) or the controlled scheduler (sched mode) decides
// when one fires, so wall-clock load can never change an outcome.
package time

import (
	"sync"
	stdtime "time"
)

type (
	Duration = stdtime.Duration
	Time     = stdtime.Time
	Month    = stdtime.Month
	Weekday  = stdtime.Weekday
	Location = stdtime.Location
)

const (
	Nanosecond  = stdtime.Nanosecond
	Microsecond = stdtime.Microsecond
	Millisecond = stdtime.Millisecond
	Second      = stdtime.Second
	Minute      = stdtime.Minute
	Hour        = stdtime.Hour
	RFC3339     = stdtime.RFC3339
	Kitchen     = stdtime.Kitchen
)

// Backend lets the controlled scheduler take over timer handling.
type Backend interface {
	// Armed is called when a timer is (re)armed. The backend owns firing.
	Armed(t *Timer)
	// Stopped is called when an armed timer is stopped.
	Stopped(t *Timer)
	// Chan allocates the channel of a channel timer (so the scheduler knows it).
	Chan() chan Time
}

var (
	mu      sync.Mutex
	now     = stdtime.Unix(1_700_000_000, 0)
	pending []*Timer
	nextID  int
	backend Backend
)

// Timer mirrors time.Timer. Exactly one of fn / C is in use.
type Timer struct {
	C      <-chan Time
	c      chan Time
	fn     func()
	D      Duration
	ID     int
	armed  bool
	ticker bool
	Fired  int
	// Tag lets the creator say what the timer is for ("context": the deadline of a vctx context), so that a
	// harness's timing model can tell timers of equal duration apart
	Tag string
}

// SetBackend installs (or removes, with nil) the scheduler backend and resets
// all timer state.
func SetBackend(b Backend) {
	mu.Lock()
	backend = b
	pending = nil
	nextID = 0
	mu.Unlock()
}

// ResetClock forgets every pending timer (between sessions in one process).
func ResetClock() {
	mu.Lock()
	pending = nil
	nextID = 0
	mu.Unlock()
}

func arm(t *Timer) {
	mu.Lock()
	t.armed = true
	nextID++
	t.ID = nextID
	pending = append(pending, t)
	b := backend
	armedCond.Broadcast()
	mu.Unlock()
	if b != nil {
		b.Armed(t)
	}
}

func disarm(t *Timer) bool {
	mu.Lock()
	was := t.armed
	t.armed = false
	for i, p := range pending {
		if p == t {
			pending = append(pending[:i:i], pending[i+1:]...)
			break
		}
	}
	b := backend
	mu.Unlock()
	if was && b != nil {
		b.Stopped(t)
	}
	return was
}

func newChan() chan Time {
	mu.Lock()
	b := backend
	mu.Unlock()
	if b != nil {
		return b.Chan()
	}
	return make(chan Time, 1)
}

func AfterFunc(d Duration, f func()) *Timer {
	t := &Timer{fn: f, D: d}
	arm(t)
	return t
}

func NewTimer(d Duration) *Timer {
	c := newChan()
	t := &Timer{c: c, C: c, D: d}
	arm(t)
	return t
}

func After(d Duration) <-chan Time { return NewTimer(d).C }

func (t *Timer) Stop() bool { return disarm(t) }

func (t *Timer) Reset(d Duration) bool {
	was := disarm(t)
	t.D = d
	arm(t)
	return was
}

// Armed reports whether the timer is pending.
func (t *Timer) Armed() bool {
	mu.Lock()
	defer mu.Unlock()
	return t.armed
}

// IsTicker reports whether the timer re-arms itself.
func (t *Timer) IsTicker() bool { return t.ticker }

// IsFunc reports whether this is an AfterFunc timer.
func (t *Timer) IsFunc() bool { return t.fn != nil }

// Func returns the AfterFunc callback.
func (t *Timer) Func() func() { return t.fn }

// RawChan returns the send side of a channel timer.
func (t *Timer) RawChan() chan Time { return t.c }

type Ticker struct {
	C <-chan Time
	t *Timer
}

func NewTicker(d Duration) *Ticker {
	c := newChan()
	t := &Timer{c: c, C: c, D: d, ticker: true}
	arm(t)
	return &Ticker{C: c, t: t}
}

func (tk *Ticker) Stop()            { disarm(tk.t) }
func (tk *Ticker) Reset(d Duration) { tk.t.Reset(d) }

// Tick mirrors time.Tick.
func Tick(d Duration) <-chan Time { return NewTicker(d).C }

func Now() Time {
	mu.Lock()
	defer mu.Unlock()
	return now
}

func Since(t Time) Duration { return Now().Sub(t) }
func Until(t Time) Duration { return t.Sub(Now()) }

// Sleep advances the virtual clock; it never blocks.
func Sleep(d Duration) { Advance(d) }

func Advance(d Duration) {
	mu.Lock()
	now = now.Add(d)
	mu.Unlock()
}

func Unix(sec, nsec int64) Time { return stdtime.Unix(sec, nsec) }

var armedCond = sync.NewCond(&mu)

// LastID is the id of the most recently armed timer.
func LastID() int {
	mu.Lock()
	defer mu.Unlock()
	return nextID
}

// WaitArmed blocks until a timer with an id greater than after and duration d
// is armed (condition-based, no clock) and returns the newest such timer.
func WaitArmed(after int, d Duration) *Timer {
	mu.Lock()
	defer mu.Unlock()
	for {
		var found *Timer
		for _, t := range pending {
			if t.ID > after && t.D == d && t.armed {
				found = t
			}
		}
		if found != nil {
			return found
		}
		armedCond.Wait()
	}
}

// Consume marks an armed timer as fired (scheduler backend): a ticker stays armed.
func Consume(t *Timer) {
	mu.Lock()
	if !t.ticker {
		t.armed = false
		for i, p := range pending {
			if p == t {
				pending = append(pending[:i:i], pending[i+1:]...)
				break
			}
		}
	}
	t.Fired++
	now = now.Add(t.D)
	mu.Unlock()
}

// ---- harness side (seq mode) ------------------------------------------------

// Pending returns the armed timers in arming order.
func Pending() []*Timer {
	mu.Lock()
	defer mu.Unlock()
	return append([]*Timer(nil), pending...)
}

// Fire fires t if it is still armed: an AfterFunc callback runs in a new
// goroutine and the returned channel is closed when it has returned; a channel
// timer gets a value (non-blocking, like the runtime). A ticker stays armed.
func Fire(t *Timer) (done <-chan struct{}, fired bool) {
	mu.Lock()
	if !t.armed {
		mu.Unlock()
		return nil, false
	}
	if !t.ticker {
		t.armed = false
		for i, p := range pending {
			if p == t {
				pending = append(pending[:i:i], pending[i+1:]...)
				break
			}
		}
	}
	t.Fired++
	now = now.Add(t.D)
	n := now
	mu.Unlock()
	d := make(chan struct{})
	if t.fn != nil {
		go func() {
			defer close(d)
			t.fn()
		}()
		return d, true
	}
	select {
	case t.c <- n:
	default:
	}
	close(d)
	return d, true
}

// FireWhere fires every pending timer whose duration satisfies pred, in arming
// order, waiting for each callback; returns how many fired.
func FireWhere(pred func(d Duration, isFunc bool) bool) int {
	n := 0
	for _, t := range Pending() {
		if pred(t.D, t.fn != nil) {
			if done, ok := Fire(t); ok {
				<-done
				n++
			}
		}
	}
	return n
}
