// Package vsched is a cooperative scheduler for stateless model checking of
// the instrumented vaxis sources: every goroutine started by instrumented code
// is a thread that runs only while it holds the baton; every channel operation,
// mutex operation, atomic access, timer and harness-declared wait is a
// scheduling point. The harness enumerates schedules depth-first with a bound on
// the number of deviations (preemptions of a runnable thread, or environment
// events chosen while a thread could have run).
package vsched

import (
	"fmt"
	"reflect"
	"runtime"
	"sort"
	"strings"
	"sync"

	vtime "git.sr.ht/~rockorager/vaxis/verifshim/vtime"
)

type Kind int

const (
	Send Kind = iota
	Recv
)

type opKind int

const (
	opNone opKind = iota
	opStart
	opSend
	opRecv
	opSelect
	opLock
	opYield
	opWait
	opPost
)

type selCase struct {
	ch   reflect.Value
	kind Kind
}

type op struct {
	kind       opKind
	ch         reflect.Value
	cases      []selCase
	hasDefault bool
	mu         *Mutex
	cond       func() bool
	tag        string
}

type wakeMsg struct {
	kill   bool
	selIdx int
}

type Thread struct {
	ID      int
	Name    string
	wake    chan wakeMsg
	op      op
	done    bool
	Daemon  bool // may stay blocked at the end of an execution without being a deadlock
	rendez  bool // woken as the receiving side of an unbuffered hand-off
	vc      vclock
	lastRun int      // step at which the thread last held the baton
	stack   []string // tracked methods this thread is inside (outermost first)
}

// Env is an environment event (timer firing, signal, end of input ...).
type Env struct {
	ID      int
	Name    string
	Enabled func() bool
	Fire    func()
	Once    bool
	fired   bool
	timer   *vtime.Timer
}

// Point is one scheduling decision.
type Point struct {
	Enabled        []int // canonical order: running thread first if enabled, other threads ascending, then env events (negative ids)
	Chosen         int   // index into Enabled
	RunningEnabled bool
	Desc           string // only filled when Describe is set
	SelCase        bool   // which ready case of a select fires (not a thread choice)
	Fixed          bool   // outside the exploration window: no alternatives are explored here
}

type PanicInfo struct {
	Thread string
	Value  string
	Site   string
}

type Sched struct {
	mu       sync.Mutex
	threads  []*Thread
	envs     []*Env
	nextEnv  int
	cur      *Thread
	events   chan *Thread
	closed   map[uintptr]bool
	pendingR *Thread // rendezvous receiver that has not yet reached Post
	wg       sync.WaitGroup
	killing  bool

	prefix []int
	Trace  []Point
	Log    []string

	Panics    []PanicInfo
	Deadlock  string
	StepLimit int
	FastSteps int
	Exceeded  bool
	Diverged  string
	timers    map[*vtime.Timer]*Env
	// Closed reports every point as Fixed (set by the harness around set-up code whose
	// interleavings are not the subject: it then runs under the canonical schedule only).
	Closed bool
	// Races switches the happens-before race check on.
	Races      bool
	RacesFound []Race
	raceSeen   map[string]bool
	shadow     map[shadowKey]*shadow
	chans      map[uintptr]*chanClocks
	atomics    map[uintptr]vclock
	timerVC    map[*vtime.Timer]vclock
	envByID    map[int]*Env
	spawnVC    vclock // clock a thread started by the environment (timer callback) inherits
	// OnEnv is called just before an environment event takes place.
	OnEnv func(e *Env)
	// TimerGate decides whether a timer may fire now (harness timing constraints).
	TimerGate func(t *vtime.Timer) bool
}

// Describe makes every trace point carry a description (replays, violation reports).
var Describe bool

// AlwaysDescribe keeps descriptions on whatever Describe says (debugging).
var AlwaysDescribe bool

// S is the active scheduler (nil outside an execution).
var S *Sched

func chanID(v reflect.Value) uintptr { return v.Pointer() }

func (s *Sched) logf(format string, a ...any) {
	if len(s.Log) < 4000 {
		s.Log = append(s.Log, fmt.Sprintf(format, a...))
	}
}

// ---- thread side ----------------------------------------------------------------------------------

// fast reports whether the running thread may simply go on: outside the exploration
// window the canonical schedule keeps the running thread running while it is enabled,
// so the hand-shake with the controller (and the trace entry) can be skipped.
func (s *Sched) fast(t *Thread, o *op) (wakeMsg, bool) {
	if !s.Closed || s.pendingR != nil || s.FastSteps > 20*s.StepLimit {
		return wakeMsg{}, false
	}
	buffered := func(v reflect.Value) bool { return v.Cap() > 0 || s.closed[chanID(v)] }
	switch o.kind {
	case opYield:
		return wakeMsg{}, true
	case opLock:
		return wakeMsg{}, !o.mu.locked
	case opWait:
		return wakeMsg{}, o.cond()
	case opSend:
		return wakeMsg{}, buffered(o.ch) && s.chanReady(o.ch, Send, t)
	case opRecv:
		return wakeMsg{}, buffered(o.ch) && s.chanReady(o.ch, Recv, t)
	case opSelect:
		for i, c := range o.cases {
			if s.chanReady(c.ch, c.kind, t) {
				if !buffered(c.ch) {
					return wakeMsg{}, false
				}
				return wakeMsg{selIdx: i}, true
			}
		}
		if o.hasDefault {
			return wakeMsg{selIdx: -1}, true
		}
	}
	return wakeMsg{}, false
}

func (s *Sched) park(t *Thread, o op) wakeMsg {
	if m, ok := s.fast(t, &o); ok {
		s.FastSteps++
		s.syncEffect(t, &o, m.selIdx)
		return m
	}
	t.op = o
	s.events <- t
	m := <-t.wake
	if m.kill {
		runtime.Goexit()
	}
	return m
}

func current() *Thread {
	if S == nil {
		return nil
	}
	return S.cur
}

// Go starts f as a new thread.
func Go(f func()) { GoNamed("", f) }

func GoNamed(name string, f func()) *Thread {
	s := S
	if s == nil {
		go f()
		return nil
	}
	s.mu.Lock()
	t := &Thread{ID: len(s.threads), Name: name, wake: make(chan wakeMsg, 1)}
	if t.Name == "" {
		t.Name = fmt.Sprintf("t%d", t.ID)
	}
	t.op = op{kind: opStart}
	s.threads = append(s.threads, t)
	if s.spawnVC != nil {
		t.vc = s.spawnVC.copy()
	} else if p := s.cur; p != nil {
		t.vc = p.vc.copy()
		p.tick()
	}
	t.tick()
	s.mu.Unlock()
	s.wg.Add(1)
	go func() {
		defer s.wg.Done()
		m := <-t.wake
		if m.kill {
			return
		}
		defer func() {
			if e := recover(); e != nil {
				s.Panics = append(s.Panics, PanicInfo{Thread: t.Name, Value: fmt.Sprint(e), Site: panicSite()})
			}
			t.done = true
			t.op = op{}
			if !s.killing {
				s.events <- t
			}
		}()
		f()
	}()
	return t
}

func panicSite() string {
	pcs := make([]uintptr, 64)
	n := runtime.Callers(3, pcs)
	frames := runtime.CallersFrames(pcs[:n])
	for {
		fr, more := frames.Next()
		if strings.Contains(fr.Function, "rockorager/vaxis") && !strings.Contains(fr.Function, "verifshim") {
			fn := fr.Function
			if i := strings.LastIndex(fn, "/"); i >= 0 {
				fn = fn[i+1:]
			}
			return fn
		}
		if !more {
			return "unknown"
		}
	}
}

// Pre is called on the channel operand of a send or receive.
func Pre[C any](ch C, k Kind) C {
	s := S
	if s == nil || s.killing {
		return ch
	}
	t := s.cur
	o := op{kind: opSend, ch: reflect.ValueOf(ch)}
	if k == Recv {
		o.kind = opRecv
	}
	s.park(t, o)
	return ch
}

// Post is placed after a receive statement: the receiving side of an unbuffered
// hand-off parks here until it is scheduled again.
func Post() {
	s := S
	if s == nil || s.killing {
		return
	}
	if r := s.pendingR; r != nil {
		// only the rendezvous receiver can be here: the sender is either running
		// towards, or parked at, an operation other than Post
		m := func() wakeMsg {
			r.op = op{kind: opPost}
			s.events <- r
			return <-r.wake
		}()
		if m.kill {
			runtime.Goexit()
		}
	}
}

// Select parks until one of the cases is enabled (or default) and returns the chosen case index (-1 = default).
func Select(hasDefault bool, cases ...any) int {
	s := S
	if s == nil || s.killing {
		// outside an execution (teardown): take default if any, else first case
		if hasDefault {
			return -1
		}
		return 0
	}
	var sc []selCase
	for i := 0; i+1 < len(cases); i += 2 {
		sc = append(sc, selCase{ch: reflect.ValueOf(cases[i]), kind: cases[i+1].(Kind)})
	}
	m := s.park(s.cur, op{kind: opSelect, cases: sc, hasDefault: hasDefault})
	return m.selIdx
}

// Close closes a channel and records the closure.
func Close[C any](ch C) {
	s := S
	if s != nil && !s.killing {
		s.park(s.cur, op{kind: opYield, tag: "close"})
		s.closed[chanID(reflect.ValueOf(ch))] = true
		c := s.chanClk(reflect.ValueOf(ch))
		c.closeV = s.cur.vc.copy()
		s.cur.tick()
	}
	reflect.ValueOf(ch).Close()
}

// MarkClosed records a closure done by uninstrumented code.
func MarkClosed(ch any) {
	if S != nil {
		S.closed[chanID(reflect.ValueOf(ch))] = true
	}
}

// Yield is a plain scheduling point.
func Yield(tag string) {
	s := S
	if s == nil || s.killing {
		return
	}
	s.park(s.cur, op{kind: opYield, tag: tag})
}

// Wait parks until cond() holds (evaluated by the scheduler while everything is parked).
func Wait(tag string, cond func() bool) {
	s := S
	if s == nil || s.killing {
		return
	}
	s.park(s.cur, op{kind: opWait, cond: cond, tag: tag})
}

// Kind abstracts the thread's name: goroutines started by the library are "library-goroutine".
func (t *Thread) Kind() string {
	n := t.Name
	if len(n) > 1 && n[0] == 't' && n[1] >= '0' && n[1] <= '9' {
		return "library-goroutine"
	}
	if i := strings.Index(n, "("); i > 0 {
		return n[:i]
	}
	return n
}

// Enter / Leave keep the per-thread stack of tracked methods (instrumented sources:
// `defer vsched.Leave(vsched.Enter("Type.Method"))`).
func Enter(name string) int {
	s := S
	if s == nil || s.killing || s.cur == nil || s.pendingR != nil {
		return -1
	}
	t := s.cur
	t.stack = append(t.stack, name)
	return len(t.stack) - 1
}

func Leave(depth int) {
	s := S
	if depth < 0 || s == nil || s.killing || s.cur == nil {
		return
	}
	if t := s.cur; depth <= len(t.stack) {
		t.stack = t.stack[:depth]
	}
}

// OthersBlocked reports whether every thread except the named one is finished or
// parked on an operation that is not enabled (to be called from scheduler callbacks).
func OthersBlocked(except string) bool {
	s := S
	if s == nil {
		return false
	}
	for _, t := range s.threads {
		if t.Name != except && s.threadEnabled(t) {
			return false
		}
	}
	return true
}

// AnyBlockedSend reports whether some thread is parked on a channel send that cannot
// proceed (its consumer is slow): real time passes in such a state.
func AnyBlockedSend() bool {
	s := S
	if s == nil {
		return false
	}
	for _, t := range s.threads {
		if !t.done && t.op.kind == opSend && !s.threadEnabled(t) {
			return true
		}
	}
	return false
}

// LiveNamed counts the threads whose name starts with prefix and that have not finished.
func LiveNamed(prefix string) int {
	n := 0
	if S != nil {
		for _, t := range S.threads {
			if !t.done && strings.HasPrefix(t.Name, prefix) {
				n++
			}
		}
	}
	return n
}

// Window opens (true) or closes (false) the exploration window.
func Window(open bool) {
	if S != nil {
		S.Closed = !open
	}
}

// Logf appends to the execution's observation log.
func Logf(format string, a ...any) {
	if S != nil {
		S.logf(format, a...)
	}
}

// ---- mutex ------------------------------------------------------------------------------------------

type Mutex struct {
	locked bool
	vc     vclock
}

func (m *Mutex) Lock() {
	s := S
	if s == nil || s.killing {
		return
	}
	s.park(s.cur, op{kind: opLock, mu: m})
	m.locked = true
	s.cur.vc.join(m.vc)
}

func (m *Mutex) Unlock() {
	m.locked = false
	s := S
	if s == nil || s.killing {
		return
	}
	m.vc = s.cur.vc.copy()
	s.cur.tick()
	s.park(s.cur, op{kind: opYield, tag: "unlock"})
}

// ---- environment ---------------------------------------------------------------------------------------

// Timer returns the timer behind a timer event (nil for harness events).
func (e *Env) Timer() *vtime.Timer { return e.timer }

// AddEnv registers an environment event.
func AddEnv(name string, once bool, enabled func() bool, fire func()) *Env {
	s := S
	s.nextEnv++
	e := &Env{ID: -s.nextEnv, Name: name, Enabled: enabled, Fire: fire, Once: once}
	s.envs = append(s.envs, e)
	s.envByID[e.ID] = e
	return e
}

// vtime backend
type timerBackend struct{ s *Sched }

func (b timerBackend) Chan() chan vtime.Time { return make(chan vtime.Time, 1) }
func (b timerBackend) Armed(t *vtime.Timer) {
	s := b.s
	if s.killing {
		return
	}
	s.nextEnv++
	e := &Env{ID: -s.nextEnv, Name: fmt.Sprintf("timer(%v)", t.D), Once: !t.IsTicker(), timer: t}
	e.Enabled = func() bool { return t.Armed() && (s.TimerGate == nil || s.TimerGate(t)) }
	var armVC vclock
	if s.cur != nil {
		armVC = s.cur.vc.copy()
		s.cur.tick()
	}
	e.Fire = func() {
		if t.IsFunc() {
			fn := t.Func()
			vtime.Consume(t)
			s.spawnVC = armVC
			if s.spawnVC == nil {
				s.spawnVC = vclock{}
			}
			GoNamed(fmt.Sprintf("timer-callback(%v)", t.D), fn)
			s.spawnVC = nil
		} else {
			vtime.Consume(t)
			select {
			case t.RawChan() <- vtime.Now():
				c := s.chanClk(reflect.ValueOf(t.RawChan()))
				c.nsent++
				c.sends = append(c.sends, armVC.copy())
			default:
			}
		}
	}
	s.timers[t] = e
	s.envs = append(s.envs, e)
	s.envByID[e.ID] = e
}
func (b timerBackend) Stopped(t *vtime.Timer) {
	if e, ok := b.s.timers[t]; ok {
		e.fired = true
		delete(b.s.timers, t)
	}
}

// ---- enabledness ----------------------------------------------------------------------------------------

func (s *Sched) chanReady(v reflect.Value, k Kind, self *Thread) bool {
	id := chanID(v)
	if v.IsNil() {
		return false
	}
	if k == Recv {
		if v.Len() > 0 || s.closed[id] {
			return true
		}
		if v.Cap() == 0 {
			return s.partner(id, Send, self) != nil
		}
		return false
	}
	if s.closed[id] {
		return true // will panic: let it happen
	}
	if v.Cap() > 0 {
		return v.Len() < v.Cap()
	}
	return s.partner(id, Recv, self) != nil
}

// partner finds a parked thread with the complementary operation on an unbuffered channel.
func (s *Sched) partner(id uintptr, k Kind, self *Thread) *Thread {
	for _, t := range s.threads {
		if t == self || t.done {
			continue
		}
		switch t.op.kind {
		case opSend:
			if k == Send && chanID(t.op.ch) == id {
				return t
			}
		case opRecv:
			if k == Recv && chanID(t.op.ch) == id {
				return t
			}
		case opSelect:
			for _, c := range t.op.cases {
				if c.kind == k && !c.ch.IsNil() && chanID(c.ch) == id {
					return t
				}
			}
		}
	}
	return nil
}

func (s *Sched) enabledCases(t *Thread) []int {
	var out []int
	for i, c := range t.op.cases {
		if s.chanReady(c.ch, c.kind, t) {
			out = append(out, i)
		}
	}
	return out
}

func (s *Sched) threadEnabled(t *Thread) bool {
	if t.done {
		return false
	}
	switch t.op.kind {
	case opStart, opYield, opPost:
		return true
	case opSend:
		return s.chanReady(t.op.ch, Send, t)
	case opRecv:
		return s.chanReady(t.op.ch, Recv, t)
	case opSelect:
		return t.op.hasDefault || len(s.enabledCases(t)) > 0
	case opLock:
		return !t.op.mu.locked
	case opWait:
		return t.op.cond()
	}
	return false
}

func (s *Sched) describe(t *Thread) string {
	switch t.op.kind {
	case opStart:
		return t.Name + ":start"
	case opSend:
		return fmt.Sprintf("%s:send(cap %d len %d)", t.Name, t.op.ch.Cap(), t.op.ch.Len())
	case opRecv:
		return fmt.Sprintf("%s:recv(cap %d len %d)", t.Name, t.op.ch.Cap(), t.op.ch.Len())
	case opSelect:
		return fmt.Sprintf("%s:select(%d cases, default=%v)", t.Name, len(t.op.cases), t.op.hasDefault)
	case opLock:
		return t.Name + ":lock"
	case opYield:
		return t.Name + ":" + t.op.tag
	case opWait:
		return t.Name + ":wait(" + t.op.tag + ")"
	case opPost:
		return t.Name + ":after-recv"
	}
	if t.done {
		return t.Name + ":done"
	}
	return t.Name + ":?"
}

// ---- the controller -----------------------------------------------------------------------------------------

// Result of one execution.
type Result struct {
	Trace    []Point
	Log      []string
	Panics   []PanicInfo
	Deadlock string
	Exceeded bool
	Diverged string
	Races    []Race
	Blocked  []string // threads still blocked (not done) when the main thread returned
}

// Run executes main as thread 0 under the schedule prefix (choice indexes); beyond
// the prefix the canonical first choice is taken at every point.
func Run(prefix []int, stepLimit int, setup func(s *Sched), main func()) *Result {
	s := &Sched{events: make(chan *Thread, 4), closed: map[uintptr]bool{}, prefix: prefix, StepLimit: stepLimit, timers: map[*vtime.Timer]*Env{},
		envByID: map[int]*Env{}, raceSeen: map[string]bool{}, shadow: map[shadowKey]*shadow{}, chans: map[uintptr]*chanClocks{}, atomics: map[uintptr]vclock{}, timerVC: map[*vtime.Timer]vclock{}}
	vtime.SetBackend(timerBackend{s})
	S = s
	if setup != nil {
		setup(s)
	}
	mainT := GoNamed("main", main)
	s.cur = nil
	s.loop(mainT)
	// teardown
	s.killing = true
	res := &Result{Trace: s.Trace, Log: s.Log, Panics: s.Panics, Deadlock: s.Deadlock, Exceeded: s.Exceeded, Diverged: s.Diverged, Races: s.RacesFound}
	for _, t := range s.threads {
		if !t.done {
			if !t.Daemon && s.Deadlock == "" {
				res.Blocked = append(res.Blocked, s.describe(t))
			}
			t.wake <- wakeMsg{kill: true}
		}
	}
	s.wg.Wait()
	S = nil
	vtime.SetBackend(nil)
	return res
}

func (s *Sched) loop(mainT *Thread) {
	step := 0
	for {
		step++
		if step > s.StepLimit {
			s.Exceeded = true
			return
		}
		// enabled set, canonical order
		var en []int
		runningEnabled := false
		if s.cur != nil && !s.cur.done && s.threadEnabled(s.cur) {
			en = append(en, s.cur.ID)
			runningEnabled = true
		}
		first := len(en)
		for _, t := range s.threads {
			if t != s.cur && s.threadEnabled(t) {
				en = append(en, t.ID)
			}
		}
		if FairOrder {
			// least recently run first (ties: lower id)
			rest := en[first:]
			sort.SliceStable(rest, func(i, j int) bool { return s.threads[rest[i]].lastRun < s.threads[rest[j]].lastRun })
		}
		var envIDs []int
		for _, e := range s.envs {
			if !(e.Once && e.fired) && e.Enabled() {
				envIDs = append(envIDs, e.ID)
			}
		}
		// harness events (input, replies, signals) before timers, each in creation order
		sort.Slice(envIDs, func(i, j int) bool {
			ti, tj := s.envByID[envIDs[i]].timer != nil, s.envByID[envIDs[j]].timer != nil
			if ti != tj {
				return !ti
			}
			return envIDs[i] > envIDs[j]
		})
		en = append(en, envIDs...)
		if len(en) == 0 && mainT.done {
			return
		}
		if len(en) == 0 {
			var bl []string
			for _, t := range s.threads {
				if !t.done && !t.Daemon {
					bl = append(bl, s.describe(t))
				}
			}
			s.Deadlock = strings.Join(bl, "; ")
			return
		}
		idx := 0
		if n := len(s.Trace); n < len(s.prefix) {
			idx = s.prefix[n]
			if idx >= len(en) {
				s.Diverged = fmt.Sprintf("choice %d of point %d out of range (%d enabled)", idx, n, len(en))
				return
			}
		}
		id := en[idx]
		desc := ""
		if !Describe && !AlwaysDescribe {
		} else if id >= 0 {
			desc = s.describe(s.threads[id])
		} else {
			for _, e := range s.envs {
				if e.ID == id {
					desc = "env:" + e.Name
				}
			}
		}
		s.Trace = append(s.Trace, Point{Enabled: en, Chosen: idx, RunningEnabled: runningEnabled, Desc: desc, Fixed: s.Closed})
		if id < 0 {
			for _, e := range s.envs {
				if e.ID == id {
					e.fired = true
					if s.OnEnv != nil {
						s.OnEnv(e)
					}
					e.Fire()
				}
			}
			continue
		}
		t := s.threads[id]
		t.lastRun = step
		s.dispatch(t)
	}
}

// dispatch wakes t (and its partner for an unbuffered hand-off) and waits until the baton comes back.
func (s *Sched) dispatch(t *Thread) {
	msg := wakeMsg{}
	var partner *Thread
	var pch reflect.Value
	pk := Send
	switch t.op.kind {
	case opSelect:
		cs := s.enabledCases(t)
		if len(cs) == 0 {
			msg.selIdx = -1
		} else {
			// which enabled case fires is a further choice: take the next prefix entry if present
			ci := 0
			if n := len(s.Trace); n < len(s.prefix) && len(cs) > 1 {
				ci = s.prefix[n] % len(cs)
			}
			if len(cs) > 1 {
				s.Trace = append(s.Trace, Point{Enabled: cs, Chosen: ci, RunningEnabled: true, Desc: "select-case", SelCase: true, Fixed: s.Closed})
			}
			msg.selIdx = cs[ci]
			c := t.op.cases[msg.selIdx]
			if c.ch.Cap() == 0 && !s.closed[chanID(c.ch)] {
				pch, pk = c.ch, c.kind
			}
		}
	case opSend:
		if t.op.ch.Cap() == 0 && !s.closed[chanID(t.op.ch)] {
			pch, pk = t.op.ch, Send
		}
	case opRecv:
		if t.op.ch.Cap() == 0 && !s.closed[chanID(t.op.ch)] {
			pch, pk = t.op.ch, Recv
		}
	}
	if pch.IsValid() {
		// unbuffered hand-off: find the partner and release both
		want := Recv
		if pk == Recv {
			want = Send
		}
		partner = s.partner(chanID(pch), want, t)
		if partner == nil {
			s.Diverged = "unbuffered operation chosen without a partner"
			return
		}
		pm := wakeMsg{}
		if partner.op.kind == opSelect {
			for i, c := range partner.op.cases {
				if c.kind == want && !c.ch.IsNil() && chanID(c.ch) == chanID(pch) {
					pm.selIdx = i
					break
				}
			}
		}
		// the receiving side runs only up to Post; the sending side keeps the baton
		recvT, sendT := t, partner
		rm, sm := msg, pm
		if pk == Send {
			recvT, sendT = partner, t
			rm, sm = pm, msg
		}
		s.pendingR = recvT
		s.cur = sendT
		s.handoff(sendT, recvT)
		recvT.op, sendT.op = op{}, op{}
		recvT.wake <- rm
		sendT.wake <- sm
		// two events: the receiver's Post and the sender's next operation
		for i := 0; i < 2; i++ {
			<-s.events
		}
		s.pendingR = nil
		return
	}
	s.cur = t
	s.syncEffect(t, &t.op, msg.selIdx)
	t.op = op{}
	t.wake <- msg
	<-s.events
}

// ---- exploration ----------------------------------------------------------------------------------------------

// Deviations counts the cost of a trace prefix: a preemption (another thread chosen
// while the running one was enabled) or an environment event chosen while some
// thread was enabled.
func cost(p Point) int {
	if p.Chosen == 0 {
		return 0
	}
	if DeviationCost {
		return 1
	}
	if p.SelCase {
		return 0
	}
	id := p.Enabled[p.Chosen]
	if id < 0 {
		// environment event: free when nothing else could run
		for _, e := range p.Enabled {
			if e >= 0 {
				return 1
			}
		}
		return 0
	}
	if p.RunningEnabled {
		return 1
	}
	return 0
}

// FairOrder makes the canonical choice at a blocking point the least recently run
// enabled thread (round robin) instead of the lowest thread id.
var FairOrder bool

// DeviationCost selects the cost model. false (preemption bounding): only taking
// the processor from a runnable thread, or an environment event occurring while
// a thread could run, costs 1; which thread runs next at a blocking point is
// free. true (deviation bounding): every choice other than the canonical one
// (running thread, else lowest thread id, else first environment event) costs 1.
var DeviationCost bool

// Abort, set by a visit callback, ends the current Explore call (reported as capped): used once a
// scenario has produced enough counterexamples.
var Abort bool

// Explore enumerates all schedules with at most bound deviations, depth-first.
// exec runs one schedule; visit is called for each execution. Returns the number
// of executions. budget (0 = none) caps the number of executions. With nshards > 1
// the first-level subtrees are dealt round-robin: this call explores those with
// index % nshards == shard (the root execution belongs to shard 0).
func Explore(bound int, budget int64, shard, nshards int, exec func(prefix []int) *Result, visit func(prefix []int, r *Result)) (n int64, capped bool) {
	child := 0
	Abort = false
	var rec func(prefix []int, depth int)
	rec = func(prefix []int, depth int) {
		if (budget > 0 && n >= budget) || Abort {
			capped = true
			return
		}
		r := exec(prefix)
		if depth > 0 || shard == 0 || nshards <= 1 {
			n++
			visit(prefix, r)
		}
		if r.Diverged != "" {
			return
		}
		used := 0
		for i := 0; i < len(r.Trace); i++ {
			p := r.Trace[i]
			if i >= len(prefix) && !p.Fixed {
				for alt := 1; alt < len(p.Enabled); alt++ {
					q := p
					q.Chosen = alt
					if used+cost(q) > bound {
						continue
					}
					if depth == 0 && nshards > 1 {
						child++
						if child%nshards != shard {
							continue
						}
					}
					np := make([]int, 0, i+1)
					for _, tp := range r.Trace[:i] {
						np = append(np, tp.Chosen)
					}
					np = append(np, alt)
					rec(np, depth+1)
					if capped {
						return
					}
				}
			}
			used += cost(p)
		}
	}
	rec(nil, 0)
	return n, capped
}

// ---- happens-before race detection -------------------------------------------------------------------------------
//
// Every thread carries a vector clock. Synchronisation operations transfer
// clocks exactly as the Go memory model orders them: go statement -> start of
// the goroutine; k-th send on a channel -> k-th receive (both directions for an
// unbuffered channel; k-th receive -> (k+cap)-th send); close -> receive that
// observes it; Unlock -> next Lock; atomic store -> atomic load that follows;
// AfterFunc / NewTimer -> callback / receive from the timer channel. Acc (called
// by the instrumented sources before every statement that reads or writes a
// tracked field) reports a race when the previous conflicting access is not
// ordered before the current one.

type vclock []int32

func (v vclock) get(i int) int32 {
	if i < len(v) {
		return v[i]
	}
	return 0
}

func (v *vclock) join(o vclock) {
	for len(*v) < len(o) {
		*v = append(*v, 0)
	}
	for i, c := range o {
		if c > (*v)[i] {
			(*v)[i] = c
		}
	}
}

func (v vclock) copy() vclock { return append(vclock(nil), v...) }

func (t *Thread) tick() {
	for len(t.vc) <= t.ID {
		t.vc = append(t.vc, 0)
	}
	t.vc[t.ID]++
}

type chanClocks struct {
	sends  []vclock // clocks of the sends not yet received
	recvs  []vclock // clocks of completed receives (for the capacity edge)
	nsent  int
	closeV vclock
}

type shadowAccess struct {
	tid   int
	clk   int32
	site  string
	root  string // outermost tracked method the thread was inside
	who   string // kind of thread
	valid bool
}

type shadow struct {
	w     shadowAccess
	reads map[int]shadowAccess
}

// Race is one detected pair of unordered conflicting accesses.
type Race struct {
	Field        string
	A, B         string // "r|w function"
	RootA, RootB string // "outermost tracked method@kind of thread"
}

func (s *Sched) chanClk(v reflect.Value) *chanClocks {
	id := chanID(v)
	c := s.chans[id]
	if c == nil {
		c = &chanClocks{}
		s.chans[id] = c
	}
	return c
}

// afterSend / afterRecv are called when the scheduler lets a thread perform the operation.
func (s *Sched) afterSend(t *Thread, ch reflect.Value) {
	if s.closed[chanID(ch)] {
		return
	}
	c := s.chanClk(ch)
	if k := c.nsent - ch.Cap(); ch.Cap() > 0 && k >= 0 && k < len(c.recvs) {
		t.vc.join(c.recvs[k])
	}
	c.nsent++
	c.sends = append(c.sends, t.vc.copy())
	t.tick()
}

func (s *Sched) afterRecv(t *Thread, ch reflect.Value) {
	c := s.chanClk(ch)
	if len(c.sends) > 0 {
		t.vc.join(c.sends[0])
		c.sends = c.sends[1:]
		if ch.Cap() > 0 {
			c.recvs = append(c.recvs, t.vc.copy())
			t.tick()
		}
		return
	}
	if c.closeV != nil {
		t.vc.join(c.closeV)
	}
}

// handoff: unbuffered send/receive pair.
func (s *Sched) handoff(sender, receiver *Thread) {
	sv := sender.vc.copy()
	sender.vc.join(receiver.vc)
	receiver.vc.join(sv)
	sender.tick()
	receiver.tick()
}

func (s *Sched) syncEffect(t *Thread, o *op, selIdx int) {
	switch o.kind {
	case opSend:
		s.afterSend(t, o.ch)
	case opRecv:
		s.afterRecv(t, o.ch)
	case opSelect:
		if selIdx >= 0 && selIdx < len(o.cases) {
			c := o.cases[selIdx]
			if c.kind == Send {
				s.afterSend(t, c.ch)
			} else {
				s.afterRecv(t, c.ch)
			}
		}
	}
}

// Acc reports an access of the running thread to obj.field.
func Acc(obj any, field string, write bool, site string) {
	s := S
	if s == nil || s.killing || !s.Races {
		return
	}
	t := s.cur
	if t == nil || s.pendingR != nil {
		// between an unbuffered receive and Post two threads run; accesses there are not attributed
		return
	}
	key := shadowKey{reflect.ValueOf(obj).Pointer(), field}
	sh := s.shadow[key]
	if sh == nil {
		sh = &shadow{reads: map[int]shadowAccess{}}
		s.shadow[key] = sh
	}
	for len(t.vc) <= t.ID {
		t.vc = append(t.vc, 0)
	}
	if t.vc[t.ID] == 0 {
		t.vc[t.ID] = 1
	}
	now := t.vc[t.ID]
	// nothing new since this thread's last access of the same kind?
	if write {
		if sh.w.valid && sh.w.tid == t.ID && sh.w.clk == now && len(sh.reads) == 0 {
			return
		}
	} else if ra, ok := sh.reads[t.ID]; ok && ra.clk == now {
		return
	}
	me := shadowAccess{tid: t.ID, clk: now, site: site, root: site, who: t.Kind(), valid: true}
	if len(t.stack) > 0 {
		me.root = t.stack[0]
	}
	ordered := func(a shadowAccess) bool { return !a.valid || a.tid == t.ID || a.clk <= t.vc.get(a.tid) }
	report := func(a shadowAccess, akind string) {
		kind := "r"
		if write {
			kind = "w"
		}
		x, y := akind+" "+a.site, kind+" "+me.site
		rx, ry := a.root+"@"+a.who, me.root+"@"+me.who
		if rx > ry || (rx == ry && x > y) {
			x, y = y, x
			rx, ry = ry, rx
		}
		k := field + "|" + x + "|" + y + "|" + rx + "|" + ry
		if !s.raceSeen[k] {
			s.raceSeen[k] = true
			s.RacesFound = append(s.RacesFound, Race{Field: field, A: x, B: y, RootA: rx, RootB: ry})
		}
	}
	if !ordered(sh.w) {
		report(sh.w, "w")
	}
	if write {
		for _, ra := range sh.reads {
			if !ordered(ra) {
				report(ra, "r")
			}
		}
		sh.w = me
		for k := range sh.reads {
			delete(sh.reads, k)
		}
	} else {
		sh.reads[t.ID] = me
	}
}

type shadowKey struct {
	obj   uintptr
	field string
}

// AtomicStore / AtomicLoad give sync/atomic its ordering (called by the vatomic shim after its scheduling point).
func AtomicStore(addr any) {
	s := S
	if s == nil || s.killing || s.cur == nil {
		return
	}
	k := reflect.ValueOf(addr).Pointer()
	v := s.atomics[k]
	v.join(s.cur.vc)
	s.atomics[k] = v
	s.cur.tick()
}

func AtomicLoad(addr any) {
	s := S
	if s == nil || s.killing || s.cur == nil {
		return
	}
	s.cur.vc.join(s.atomics[reflect.ValueOf(addr).Pointer()])
}
