// Package vsched is a cooperative scheduler for stateless model checking of
// the instrumented vaxis sources: every goroutine started by instrumented code
// is a thread that runs only while it holds the baton; every channel operation,
// mutex operation, atomic access, timer and harness-declared wait is a
// scheduling point. The harness enumerates schedules depth-first with a bound on
// the number of deviations (preemptions of a runnable thread, or environment
// events chosen while a thread could have run).
package vsched

import (
	"fmt"
	"reflect"
	"runtime"
	"sort"
	"strings"
	"sync"

	vtime "git.sr.ht/~rockorager/vaxis/verifshim/vtime"
)

type Kind int

const (
	Send Kind = iota
	Recv
)

type opKind int

const (
	opNone opKind = iota
	opStart
	opSend
	opRecv
	opSelect
	opLock
	opYield
	opWait
	opPost
)

type selCase struct {
	ch   reflect.Value
	kind Kind
}

type op struct {
	kind       opKind
	ch         reflect.Value
	cases      []selCase
	hasDefault bool
	mu         *Mutex
	cond       func() bool
	tag        string
}

type wakeMsg struct {
	kill   bool
	selIdx int
}

type Thread struct {
	ID     int
	Name   string
	wake   chan wakeMsg
	op     op
	done   bool
	Daemon bool // may stay blocked at the end of an execution without being a deadlock
	rendez bool // woken as the receiving side of an unbuffered hand-off
}

// Env is an environment event (timer firing, signal, end of input ...).
type Env struct {
	ID      int
	Name    string
	Enabled func() bool
	Fire    func()
	Once    bool
	fired   bool
	timer   *vtime.Timer
}

// Point is one scheduling decision.
type Point struct {
	Enabled        []int // canonical order: running thread first if enabled, other threads ascending, then env events (negative ids)
	Chosen         int   // index into Enabled
	RunningEnabled bool
	Desc           string
}

type PanicInfo struct {
	Thread string
	Value  string
	Site   string
}

type Sched struct {
	mu       sync.Mutex
	threads  []*Thread
	envs     []*Env
	nextEnv  int
	cur      *Thread
	events   chan *Thread
	closed   map[uintptr]bool
	pendingR *Thread // rendezvous receiver that has not yet reached Post
	wg       sync.WaitGroup
	killing  bool

	prefix []int
	Trace  []Point
	Log    []string

	Panics    []PanicInfo
	Deadlock  string
	StepLimit int
	Exceeded  bool
	Diverged  string
	timers    map[*vtime.Timer]*Env
	// TimerGate decides whether a timer may fire now (harness timing constraints).
	TimerGate func(t *vtime.Timer) bool
}

// S is the active scheduler (nil outside an execution).
var S *Sched

func chanID(v reflect.Value) uintptr { return v.Pointer() }

func (s *Sched) logf(format string, a ...any) {
	if len(s.Log) < 4000 {
		s.Log = append(s.Log, fmt.Sprintf(format, a...))
	}
}

// ---- thread side ----------------------------------------------------------------------------------

func (s *Sched) park(t *Thread, o op) wakeMsg {
	t.op = o
	s.events <- t
	m := <-t.wake
	if m.kill {
		runtime.Goexit()
	}
	return m
}

func current() *Thread {
	if S == nil {
		return nil
	}
	return S.cur
}

// Go starts f as a new thread.
func Go(f func()) { GoNamed("", f) }

func GoNamed(name string, f func()) *Thread {
	s := S
	if s == nil {
		go f()
		return nil
	}
	s.mu.Lock()
	t := &Thread{ID: len(s.threads), Name: name, wake: make(chan wakeMsg, 1)}
	if t.Name == "" {
		t.Name = fmt.Sprintf("t%d", t.ID)
	}
	t.op = op{kind: opStart}
	s.threads = append(s.threads, t)
	s.mu.Unlock()
	s.wg.Add(1)
	go func() {
		defer s.wg.Done()
		m := <-t.wake
		if m.kill {
			return
		}
		defer func() {
			if e := recover(); e != nil {
				s.Panics = append(s.Panics, PanicInfo{Thread: t.Name, Value: fmt.Sprint(e), Site: panicSite()})
			}
			t.done = true
			t.op = op{}
			if !s.killing {
				s.events <- t
			}
		}()
		f()
	}()
	return t
}

func panicSite() string {
	pcs := make([]uintptr, 64)
	n := runtime.Callers(3, pcs)
	frames := runtime.CallersFrames(pcs[:n])
	for {
		fr, more := frames.Next()
		if strings.Contains(fr.Function, "rockorager/vaxis") && !strings.Contains(fr.Function, "verifshim") {
			fn := fr.Function
			if i := strings.LastIndex(fn, "/"); i >= 0 {
				fn = fn[i+1:]
			}
			return fn
		}
		if !more {
			return "unknown"
		}
	}
}

// Pre is called on the channel operand of a send or receive.
func Pre[C any](ch C, k Kind) C {
	s := S
	if s == nil || s.killing {
		return ch
	}
	t := s.cur
	o := op{kind: opSend, ch: reflect.ValueOf(ch)}
	if k == Recv {
		o.kind = opRecv
	}
	s.park(t, o)
	return ch
}

// Post is placed after a receive statement: the receiving side of an unbuffered
// hand-off parks here until it is scheduled again.
func Post() {
	s := S
	if s == nil || s.killing {
		return
	}
	if r := s.pendingR; r != nil {
		// only the rendezvous receiver can be here: the sender is either running
		// towards, or parked at, an operation other than Post
		m := func() wakeMsg {
			r.op = op{kind: opPost}
			s.events <- r
			return <-r.wake
		}()
		if m.kill {
			runtime.Goexit()
		}
	}
}

// Select parks until one of the cases is enabled (or default) and returns the chosen case index (-1 = default).
func Select(hasDefault bool, cases ...any) int {
	s := S
	if s == nil || s.killing {
		// outside an execution (teardown): take default if any, else first case
		if hasDefault {
			return -1
		}
		return 0
	}
	var sc []selCase
	for i := 0; i+1 < len(cases); i += 2 {
		sc = append(sc, selCase{ch: reflect.ValueOf(cases[i]), kind: cases[i+1].(Kind)})
	}
	m := s.park(s.cur, op{kind: opSelect, cases: sc, hasDefault: hasDefault})
	return m.selIdx
}

// Close closes a channel and records the closure.
func Close[C any](ch C) {
	s := S
	if s != nil && !s.killing {
		s.park(s.cur, op{kind: opYield, tag: "close"})
		s.closed[chanID(reflect.ValueOf(ch))] = true
	}
	reflect.ValueOf(ch).Close()
}

// MarkClosed records a closure done by uninstrumented code.
func MarkClosed(ch any) {
	if S != nil {
		S.closed[chanID(reflect.ValueOf(ch))] = true
	}
}

// Yield is a plain scheduling point.
func Yield(tag string) {
	s := S
	if s == nil || s.killing {
		return
	}
	s.park(s.cur, op{kind: opYield, tag: tag})
}

// Wait parks until cond() holds (evaluated by the scheduler while everything is parked).
func Wait(tag string, cond func() bool) {
	s := S
	if s == nil || s.killing {
		return
	}
	s.park(s.cur, op{kind: opWait, cond: cond, tag: tag})
}

// LiveNamed counts the threads whose name starts with prefix and that have not finished.
func LiveNamed(prefix string) int {
	n := 0
	if S != nil {
		for _, t := range S.threads {
			if !t.done && strings.HasPrefix(t.Name, prefix) {
				n++
			}
		}
	}
	return n
}

// Logf appends to the execution's observation log.
func Logf(format string, a ...any) {
	if S != nil {
		S.logf(format, a...)
	}
}

// ---- mutex ------------------------------------------------------------------------------------------

type Mutex struct {
	locked bool
}

func (m *Mutex) Lock() {
	s := S
	if s == nil || s.killing {
		return
	}
	s.park(s.cur, op{kind: opLock, mu: m})
	m.locked = true
}

func (m *Mutex) Unlock() {
	m.locked = false
	s := S
	if s == nil || s.killing {
		return
	}
	s.park(s.cur, op{kind: opYield, tag: "unlock"})
}

// ---- environment ---------------------------------------------------------------------------------------

// AddEnv registers an environment event.
func AddEnv(name string, once bool, enabled func() bool, fire func()) *Env {
	s := S
	s.nextEnv++
	e := &Env{ID: -s.nextEnv, Name: name, Enabled: enabled, Fire: fire, Once: once}
	s.envs = append(s.envs, e)
	return e
}

// vtime backend
type timerBackend struct{ s *Sched }

func (b timerBackend) Chan() chan vtime.Time { return make(chan vtime.Time, 1) }
func (b timerBackend) Armed(t *vtime.Timer) {
	s := b.s
	if s.killing {
		return
	}
	s.nextEnv++
	e := &Env{ID: -s.nextEnv, Name: fmt.Sprintf("timer(%v)", t.D), Once: true, timer: t}
	e.Enabled = func() bool { return t.Armed() && (s.TimerGate == nil || s.TimerGate(t)) }
	e.Fire = func() {
		if t.IsFunc() {
			fn := t.Func()
			vtime.Consume(t)
			GoNamed(fmt.Sprintf("timer-callback(%v)", t.D), fn)
		} else {
			vtime.Consume(t)
			select {
			case t.RawChan() <- vtime.Now():
			default:
			}
		}
	}
	s.timers[t] = e
	s.envs = append(s.envs, e)
}
func (b timerBackend) Stopped(t *vtime.Timer) {
	if e, ok := b.s.timers[t]; ok {
		e.fired = true
		delete(b.s.timers, t)
	}
}

// ---- enabledness ----------------------------------------------------------------------------------------

func (s *Sched) chanReady(v reflect.Value, k Kind, self *Thread) bool {
	id := chanID(v)
	if v.IsNil() {
		return false
	}
	if k == Recv {
		if v.Len() > 0 || s.closed[id] {
			return true
		}
		if v.Cap() == 0 {
			return s.partner(id, Send, self) != nil
		}
		return false
	}
	if s.closed[id] {
		return true // will panic: let it happen
	}
	if v.Cap() > 0 {
		return v.Len() < v.Cap()
	}
	return s.partner(id, Recv, self) != nil
}

// partner finds a parked thread with the complementary operation on an unbuffered channel.
func (s *Sched) partner(id uintptr, k Kind, self *Thread) *Thread {
	for _, t := range s.threads {
		if t == self || t.done {
			continue
		}
		switch t.op.kind {
		case opSend:
			if k == Send && chanID(t.op.ch) == id {
				return t
			}
		case opRecv:
			if k == Recv && chanID(t.op.ch) == id {
				return t
			}
		case opSelect:
			for _, c := range t.op.cases {
				if c.kind == k && !c.ch.IsNil() && chanID(c.ch) == id {
					return t
				}
			}
		}
	}
	return nil
}

func (s *Sched) enabledCases(t *Thread) []int {
	var out []int
	for i, c := range t.op.cases {
		if s.chanReady(c.ch, c.kind, t) {
			out = append(out, i)
		}
	}
	return out
}

func (s *Sched) threadEnabled(t *Thread) bool {
	if t.done {
		return false
	}
	switch t.op.kind {
	case opStart, opYield, opPost:
		return true
	case opSend:
		return s.chanReady(t.op.ch, Send, t)
	case opRecv:
		return s.chanReady(t.op.ch, Recv, t)
	case opSelect:
		return t.op.hasDefault || len(s.enabledCases(t)) > 0
	case opLock:
		return !t.op.mu.locked
	case opWait:
		return t.op.cond()
	}
	return false
}

func (s *Sched) describe(t *Thread) string {
	switch t.op.kind {
	case opStart:
		return t.Name + ":start"
	case opSend:
		return fmt.Sprintf("%s:send(cap %d len %d)", t.Name, t.op.ch.Cap(), t.op.ch.Len())
	case opRecv:
		return fmt.Sprintf("%s:recv(cap %d len %d)", t.Name, t.op.ch.Cap(), t.op.ch.Len())
	case opSelect:
		return fmt.Sprintf("%s:select(%d cases, default=%v)", t.Name, len(t.op.cases), t.op.hasDefault)
	case opLock:
		return t.Name + ":lock"
	case opYield:
		return t.Name + ":" + t.op.tag
	case opWait:
		return t.Name + ":wait(" + t.op.tag + ")"
	case opPost:
		return t.Name + ":after-recv"
	}
	if t.done {
		return t.Name + ":done"
	}
	return t.Name + ":?"
}

// ---- the controller -----------------------------------------------------------------------------------------

// Result of one execution.
type Result struct {
	Trace    []Point
	Log      []string
	Panics   []PanicInfo
	Deadlock string
	Exceeded bool
	Diverged string
	Blocked  []string // threads still blocked (not done) when the main thread returned
}

// Run executes main as thread 0 under the schedule prefix (choice indexes); beyond
// the prefix the canonical first choice is taken at every point.
func Run(prefix []int, stepLimit int, setup func(s *Sched), main func()) *Result {
	s := &Sched{events: make(chan *Thread, 4), closed: map[uintptr]bool{}, prefix: prefix, StepLimit: stepLimit, timers: map[*vtime.Timer]*Env{}}
	vtime.SetBackend(timerBackend{s})
	S = s
	if setup != nil {
		setup(s)
	}
	mainT := GoNamed("main", main)
	s.cur = nil
	s.loop(mainT)
	// teardown
	s.killing = true
	res := &Result{Trace: s.Trace, Log: s.Log, Panics: s.Panics, Deadlock: s.Deadlock, Exceeded: s.Exceeded, Diverged: s.Diverged}
	for _, t := range s.threads {
		if !t.done {
			if !t.Daemon && s.Deadlock == "" {
				res.Blocked = append(res.Blocked, s.describe(t))
			}
			t.wake <- wakeMsg{kill: true}
		}
	}
	s.wg.Wait()
	S = nil
	vtime.SetBackend(nil)
	return res
}

func (s *Sched) loop(mainT *Thread) {
	step := 0
	for {
		step++
		if step > s.StepLimit {
			s.Exceeded = true
			return
		}
		// enabled set, canonical order
		var en []int
		runningEnabled := false
		if s.cur != nil && !s.cur.done && s.threadEnabled(s.cur) {
			en = append(en, s.cur.ID)
			runningEnabled = true
		}
		for _, t := range s.threads {
			if t != s.cur && s.threadEnabled(t) {
				en = append(en, t.ID)
			}
		}
		var envIDs []int
		for _, e := range s.envs {
			if !(e.Once && e.fired) && e.Enabled() {
				envIDs = append(envIDs, e.ID)
			}
		}
		sort.Sort(sort.Reverse(sort.IntSlice(envIDs))) // -1, -2, ... creation order
		en = append(en, envIDs...)
		if len(en) == 0 && mainT.done {
			return
		}
		if len(en) == 0 {
			var bl []string
			for _, t := range s.threads {
				if !t.done && !t.Daemon {
					bl = append(bl, s.describe(t))
				}
			}
			s.Deadlock = strings.Join(bl, "; ")
			return
		}
		idx := 0
		if n := len(s.Trace); n < len(s.prefix) {
			idx = s.prefix[n]
			if idx >= len(en) {
				s.Diverged = fmt.Sprintf("choice %d of point %d out of range (%d enabled)", idx, n, len(en))
				return
			}
		}
		id := en[idx]
		desc := ""
		if id >= 0 {
			desc = s.describe(s.threads[id])
		} else {
			for _, e := range s.envs {
				if e.ID == id {
					desc = "env:" + e.Name
				}
			}
		}
		s.Trace = append(s.Trace, Point{Enabled: en, Chosen: idx, RunningEnabled: runningEnabled, Desc: desc})
		if id < 0 {
			for _, e := range s.envs {
				if e.ID == id {
					e.fired = true
					e.Fire()
				}
			}
			continue
		}
		t := s.threads[id]
		s.dispatch(t)
	}
}

// dispatch wakes t (and its partner for an unbuffered hand-off) and waits until the baton comes back.
func (s *Sched) dispatch(t *Thread) {
	msg := wakeMsg{}
	var partner *Thread
	var pch reflect.Value
	pk := Send
	switch t.op.kind {
	case opSelect:
		cs := s.enabledCases(t)
		if len(cs) == 0 {
			msg.selIdx = -1
		} else {
			// which enabled case fires is a further choice: take the next prefix entry if present
			ci := 0
			if n := len(s.Trace); n < len(s.prefix) && len(cs) > 1 {
				ci = s.prefix[n] % len(cs)
			}
			if len(cs) > 1 {
				s.Trace = append(s.Trace, Point{Enabled: cs, Chosen: ci, RunningEnabled: true, Desc: "select-case"})
			}
			msg.selIdx = cs[ci]
			c := t.op.cases[msg.selIdx]
			if c.ch.Cap() == 0 && !s.closed[chanID(c.ch)] {
				pch, pk = c.ch, c.kind
			}
		}
	case opSend:
		if t.op.ch.Cap() == 0 && !s.closed[chanID(t.op.ch)] {
			pch, pk = t.op.ch, Send
		}
	case opRecv:
		if t.op.ch.Cap() == 0 && !s.closed[chanID(t.op.ch)] {
			pch, pk = t.op.ch, Recv
		}
	}
	if pch.IsValid() {
		// unbuffered hand-off: find the partner and release both
		want := Recv
		if pk == Recv {
			want = Send
		}
		partner = s.partner(chanID(pch), want, t)
		if partner == nil {
			s.Diverged = "unbuffered operation chosen without a partner"
			return
		}
		pm := wakeMsg{}
		if partner.op.kind == opSelect {
			for i, c := range partner.op.cases {
				if c.kind == want && !c.ch.IsNil() && chanID(c.ch) == chanID(pch) {
					pm.selIdx = i
					break
				}
			}
		}
		// the receiving side runs only up to Post; the sending side keeps the baton
		recvT, sendT := t, partner
		rm, sm := msg, pm
		if pk == Send {
			recvT, sendT = partner, t
			rm, sm = pm, msg
		}
		s.pendingR = recvT
		s.cur = sendT
		recvT.op, sendT.op = op{}, op{}
		recvT.wake <- rm
		sendT.wake <- sm
		// two events: the receiver's Post and the sender's next operation
		for i := 0; i < 2; i++ {
			<-s.events
		}
		s.pendingR = nil
		return
	}
	s.cur = t
	t.op = op{}
	t.wake <- msg
	<-s.events
}

// ---- exploration ----------------------------------------------------------------------------------------------

// Deviations counts the cost of a trace prefix: a preemption (another thread chosen
// while the running one was enabled) or an environment event chosen while some
// thread was enabled.
func cost(p Point) int {
	if p.Desc == "select-case" {
		return 0
	}
	if p.Chosen == 0 {
		return 0
	}
	id := p.Enabled[p.Chosen]
	if id < 0 {
		// environment event: free when nothing else could run
		for _, e := range p.Enabled {
			if e >= 0 {
				return 1
			}
		}
		return 0
	}
	if p.RunningEnabled {
		return 1
	}
	return 0
}

// Explore enumerates all schedules with at most bound deviations, depth-first.
// exec runs one schedule; visit is called for each execution. Returns the number
// of executions. budget (0 = none) caps the number of executions.
func Explore(bound int, budget int64, exec func(prefix []int) *Result, visit func(prefix []int, r *Result)) (n int64, capped bool) {
	var rec func(prefix []int)
	rec = func(prefix []int) {
		if budget > 0 && n >= budget {
			capped = true
			return
		}
		r := exec(prefix)
		n++
		visit(prefix, r)
		if r.Diverged != "" {
			return
		}
		used := 0
		for i := 0; i < len(r.Trace); i++ {
			p := r.Trace[i]
			if i >= len(prefix) {
				for alt := 1; alt < len(p.Enabled); alt++ {
					q := p
					q.Chosen = alt
					if used+cost(q) > bound {
						continue
					}
					np := make([]int, 0, i+1)
					for _, tp := range r.Trace[:i] {
						np = append(np, tp.Chosen)
					}
					np = append(np, alt)
					rec(np)
					if capped {
						return
					}
				}
			}
			used += cost(p)
		}
	}
	rec(nil)
	return n, capped
}
