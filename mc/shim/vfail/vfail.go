// Package vfail provides failpoints that vinstr places in the instrumented copy
// of vaxis (never in /repo): the harness installs Hook to make a chosen call of
// a chosen function panic, which is how "the library's own input goroutine
// panics" is provoked.
package vfail

// Hook is called at every failpoint with the failpoint's name.
var Hook func(name string)

func Point(name string) {
	if Hook != nil {
		Hook(name)
	}
}
