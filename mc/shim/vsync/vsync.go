// Package sync (import path …/verifshim/vsync) replaces "sync" in sched mode.
package sync

import (
	stdsync "sync"

	"git.sr.ht/~rockorager/vaxis/verifshim/vsched"
)

type Mutex = vsched.Mutex

// Once, WaitGroup and Map keep their native implementation (not used on the explored paths).
type (
	WaitGroup = stdsync.WaitGroup
	Locker    = stdsync.Locker
)

// Once is sync.Once on the cooperative mutex: a second caller parks (visibly to the
// scheduler) until the first has finished; if f panics the Once counts as done.
type Once struct {
	done bool
	m    vsched.Mutex
}

func (o *Once) Do(f func()) {
	vsched.AtomicLoad(&o.done)
	if o.done {
		return
	}
	o.m.Lock()
	defer o.m.Unlock()
	if !o.done {
		defer func() {
			o.done = true
			vsched.AtomicStore(&o.done)
		}()
		f()
	}
}

// Pool is a deterministic LIFO pool: Get returns the most recently Put object.
type Pool struct {
	New   func() any
	items []any
}

func (p *Pool) Get() any {
	if n := len(p.items); n > 0 {
		x := p.items[n-1]
		p.items = p.items[:n-1]
		return x
	}
	if p.New != nil {
		return p.New()
	}
	return nil
}

func (p *Pool) Put(x any) { p.items = append(p.items, x) }
