// Package pty (import path …/verifshim/vpty) replaces github.com/creack/pty in
// the instrumented copy of widgets/term (sched mode): no process is started and
// no PTY is opened. StartWithAttrs returns one end of a socket pair as "the PTY";
// the harness plays the child on the other end. Reader makes reads from the PTY
// a scheduler-visible wait instead of a native block.
package pty

import (
	"io"
	"os"
	"os/exec"
	"syscall"

	"git.sr.ht/~rockorager/vaxis/verifshim/vsched"
	"golang.org/x/sys/unix"
)

type Winsize struct {
	Rows uint16
	Cols uint16
	X    uint16
	Y    uint16
}

// Child is the harness's end of the most recently created pair.
type Child struct {
	F     *os.File
	Sizes []Winsize // Setsize calls
}

var Last *Child

func StartWithAttrs(cmd *exec.Cmd, ws *Winsize, attrs *syscall.SysProcAttr) (*os.File, error) {
	fds, err := unix.Socketpair(unix.AF_UNIX, unix.SOCK_STREAM|unix.SOCK_NONBLOCK|unix.SOCK_CLOEXEC, 0)
	if err != nil {
		return nil, err
	}
	master := os.NewFile(uintptr(fds[0]), "vpty-master")
	child := os.NewFile(uintptr(fds[1]), "vpty-child")
	Last = &Child{F: child}
	created = append(created, master, child)
	if ws != nil {
		Last.Sizes = append(Last.Sizes, *ws)
	}
	return master, nil
}

func Setsize(f *os.File, ws *Winsize) error {
	if Last != nil && ws != nil {
		Last.Sizes = append(Last.Sizes, *ws)
	}
	return nil
}

// Output writes child output (called by the harness, from an environment event or a thread).
func (c *Child) Output(b []byte) { c.F.Write(b) }

// Hangup closes the child's end: the emulator reads end-of-file.
func (c *Child) Hangup() { c.F.Close() }

// Input returns what the emulator has written to the child so far (non-blocking).
func (c *Child) Input() []byte {
	var out []byte
	buf := make([]byte, 4096)
	rc, err := c.F.SyscallConn()
	if err != nil {
		return nil
	}
	rc.Control(func(fd uintptr) {
		for {
			n, err := unix.Read(int(fd), buf)
			if err == unix.EINTR {
				continue
			}
			if n > 0 {
				out = append(out, buf[:n]...)
			}
			if err != nil || n <= 0 {
				return
			}
		}
	})
	return out
}

type reader struct {
	f       *os.File
	waiting bool
}

var readers []*reader

// Reset forgets the readers of earlier executions and closes whatever descriptors they
// left open (an execution that ends in a deadlock never reaches its Close calls; without
// this the process runs out of descriptors after some hundred such executions).
func Reset() {
	readers = nil
	Last = nil
	for _, f := range created {
		f.Close()
	}
	created = nil
}

var created []*os.File

// Busy reports whether some PTY reader is not parked with nothing to read (its parser is
// in the middle of available input): an Escape timer cannot strike then.
func Busy() bool {
	for _, r := range readers {
		if !r.waiting || r.ready() {
			if _, err := r.f.SyscallConn(); err == nil {
				return true
			}
		}
	}
	return false
}

// Reader wraps the PTY for the parser: the read parks in the scheduler until the
// descriptor is readable, at end-of-file, or closed.
func Reader(f *os.File) io.Reader {
	r := &reader{f: f}
	readers = append(readers, r)
	return r
}

func (r *reader) ready() bool {
	rc, err := r.f.SyscallConn()
	if err != nil {
		return true // closed: the read fails at once
	}
	ok := false
	if rc.Control(func(fd uintptr) {
		for {
			p := []unix.PollFd{{Fd: int32(fd), Events: unix.POLLIN}}
			n, err := unix.Poll(p, 0)
			if err == unix.EINTR {
				continue // the runtime's preemption signal: not an answer
			}
			ok = err != nil || (n > 0 && p[0].Revents != 0)
			return
		}
	}) != nil {
		return true
	}
	return ok
}

func (r *reader) Read(p []byte) (int, error) {
	for {
		r.waiting = true
		vsched.Wait("pty.Read", r.ready)
		r.waiting = false
		rc, err := r.f.SyscallConn()
		if err != nil {
			return 0, io.EOF
		}
		n, rerr := 0, error(nil)
		if cerr := rc.Control(func(fd uintptr) {
			for {
				n, rerr = unix.Read(int(fd), p)
				if rerr != unix.EINTR {
					return
				}
			}
		}); cerr != nil {
			return 0, io.EOF
		}
		if rerr == unix.EAGAIN {
			continue // not readable after all: wait again
		}
		if rerr != nil || n <= 0 {
			return 0, io.EOF
		}
		return n, nil
	}
}
