// Package signal (import path …/verifshim/vsignal) replaces "os/signal" inside
// the instrumented copy of vaxis: registrations are recorded and the harness
// delivers signals as explicit environment actions.
package signal

import (
	"os"
	"sync"
)

var (
	mu   sync.Mutex
	regs = map[chan<- os.Signal][]os.Signal{}
)

func Notify(c chan<- os.Signal, sig ...os.Signal) {
	mu.Lock()
	regs[c] = append(regs[c], sig...)
	mu.Unlock()
}

func Stop(c chan<- os.Signal) {
	mu.Lock()
	delete(regs, c)
	mu.Unlock()
}

func Reset(sig ...os.Signal) {}

// Registered returns the channels currently registered for sig.
func Registered(sig os.Signal) []chan<- os.Signal {
	mu.Lock()
	defer mu.Unlock()
	var out []chan<- os.Signal
	for c, sigs := range regs {
		for _, s := range sigs {
			if s == sig {
				out = append(out, c)
				break
			}
		}
	}
	return out
}

// Deliver sends sig (non-blocking, like the runtime) to every registered
// channel and reports how many accepted it.
func Deliver(sig os.Signal) int {
	n := 0
	for _, c := range Registered(sig) {
		select {
		case c <- sig:
			n++
		default:
		}
	}
	return n
}

// ResetAll forgets all registrations (between sessions).
func ResetAll() {
	mu.Lock()
	regs = map[chan<- os.Signal][]os.Signal{}
	mu.Unlock()
}
