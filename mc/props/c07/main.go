// C07 – only advertised terminal features are used; fallbacks are faithful.
// (a) exhaustive sweep of the gating capability space: classified vocabulary,
// accessors, faithful fallback of a gate-exercising frame; (b) direct colours
// through the real renderer on a terminal without RGB against an exact-integer
// nearest-palette reference; (c) width method per capability combination.
package main

import (
	"fmt"
	"strings"
	"time"

	"git.sr.ht/~rockorager/vaxis"
	"verif.local/mc/explore"
	"verif.local/mc/refterm"
	"verif.local/mc/screenmodel"
	"verif.local/mc/session"
)

var r *explore.Run

type detail struct {
	Part    string `json:"part"`
	Profile string `json:"profile"`
	Options string `json:"options,omitempty"`
	What    string `json:"what"`
	Why     string `json:"why"`
}

var capByLogName = map[string]refterm.Cap{
	"rgb": refterm.CapRGB, "styledUnderlines": refterm.CapStyledUL, "sync": refterm.CapSync,
	"unicodeCore": refterm.CapUnicodeCore, "colorScheme": refterm.CapColorScheme, "inBandResize": refterm.CapInBandResize,
	"kittyKeyboard": refterm.CapKittyKB, "sixel": refterm.CapSixelAny, "osc176": refterm.CapOSC176,
	"explicitWidth": refterm.CapExplicitWidth, "kittyGraphics": refterm.CapKittyGraphics,
}

// checkLog: every gated sequence must be backed by an advertisement.
func checkLog(t *refterm.Terminal, prof refterm.Profile) (sig, why string) {
	seenDA1 := false
	for _, e := range t.Log {
		if e.Class == "query" && e.Raw == "\x1b[c" {
			seenDA1 = true
		}
		switch {
		case e.Class == "unknown":
			return "C07|vocabulary|unknown-sequence", fmt.Sprintf("sequence outside the baseline and gated vocabulary: %q", e.Raw)
		case strings.HasPrefix(e.Class, "gated:"):
			for _, name := range strings.Split(strings.TrimPrefix(e.Class, "gated:"), "+") {
				c, ok := capByLogName[name]
				if !ok {
					r.Fault("unknown gate %q", name)
				}
				if prof.Has(c) {
					continue
				}
				if name == "inBandResize" && !seenDA1 && strings.HasSuffix(e.Raw, "h") {
					continue // the blind start-up probe
				}
				if name == "osc176" {
					continue // SetAppID is an explicit application request, not in the statement's list
				}
				return fmt.Sprintf("C07|unadvertised|%s|xtversion=%q", name, prof.VersionString()), fmt.Sprintf("%q uses %s, which the terminal did not advertise", e.Raw, name)
			}
		}
	}
	return "", ""
}

func gateFrame(vx *vaxis.Vaxis, m *screenmodel.Model) {
	win := vx.Window()
	win.Clear()
	m.Clear()
	cells := []vaxis.Cell{
		{Character: vaxis.Character{Grapheme: "a", Width: 1}, Style: vaxis.Style{Foreground: vaxis.RGBColor(0x5f, 0x87, 0xaf), Background: vaxis.RGBColor(10, 20, 30)}},
		{Character: vaxis.Character{Grapheme: "b", Width: 1}, Style: vaxis.Style{UnderlineStyle: vaxis.UnderlineCurly, UnderlineColor: vaxis.RGBColor(200, 0, 0)}},
		{Character: vaxis.Character{Grapheme: "c", Width: 1}, Style: vaxis.Style{UnderlineStyle: vaxis.UnderlineDashed, UnderlineColor: vaxis.IndexColor(4), Hyperlink: "http://x"}},
		{Character: vaxis.Character{Grapheme: "世", Width: 0}},
	}
	col := 0
	for _, c := range cells {
		win.SetCell(col, 0, c)
		m.SetCell(col, 0, c)
		col += 2
	}
	for i, u := range []vaxis.UnderlineStyle{vaxis.UnderlineSingle, vaxis.UnderlineDouble, vaxis.UnderlineDotted} {
		c := vaxis.Cell{Character: vaxis.Character{Grapheme: "u", Width: 1}, Style: vaxis.Style{UnderlineStyle: u}}
		win.SetCell(i, 1, c)
		m.SetCell(i, 1, c)
	}
	// a colour, the default, the same colour again (and a neighbour that falls on the same palette entry):
	// what was sent before a reset is no longer in effect
	for i, st := range []vaxis.Style{
		{Foreground: vaxis.RGBColor(255, 0, 0), Background: vaxis.RGBColor(0, 0, 255)}, {},
		{Foreground: vaxis.RGBColor(254, 1, 1), Background: vaxis.RGBColor(1, 1, 254)}, {},
		{Foreground: vaxis.RGBColor(255, 0, 0), Background: vaxis.RGBColor(0, 0, 255)}} {
		if 3+i >= m.Cols {
			break
		}
		c := vaxis.Cell{Character: vaxis.Character{Grapheme: "r", Width: 1}, Style: st}
		win.SetCell(3+i, 1, c)
		m.SetCell(3+i, 1, c)
	}
}

// absentReply: DECRPM status the swept terminal gives for optional modes it does not implement
var absentReply int

// further shapes of the same answers: a positive XTGETTCAP reply that carries the name only; size reports
// (in-band resize among them) with zero pixel sizes
var tcapNameOnly, noPixelSizes bool

func sweepProfile(i int, initCol int, opts vaxis.Options) {
	caps := refterm.Cap(i & (1<<refterm.NumGatingCaps - 1))
	ver := refterm.Version(i >> refterm.NumGatingCaps & 3)
	prof := refterm.DefaultProfile(caps, ver)
	prof.InitCol = initCol
	prof.AbsentModeReply = absentReply
	prof.TcapNameOnly = tcapNameOnly
	if noPixelSizes {
		prof.CellW, prof.CellH = 0, 0
	}
	// reporting capabilities: a rotating subset so that the accessor clause is exercised
	rep := []refterm.Cap{refterm.CapOSC4, refterm.CapOSC10, refterm.CapOSC11, refterm.CapKittyGraphics, refterm.CapDECRQSS, refterm.CapSizeReports}
	for k, c := range rep {
		if (i>>uint(k%refterm.NumGatingCaps)+initCol)&1 == 1 {
			prof.Caps |= c
		}
	}
	runProfile(prof, opts, 8, 2)
}

func runProfile(prof refterm.Profile, opts vaxis.Options, cols, rows int) {
	optName := fmt.Sprintf("DisableKittyKeyboard=%v", opts.DisableKittyKeyboard)
	r.Beat(func() (string, any) {
		return "C07|hang", detail{Part: "sweep", Profile: prof.String(), Options: optName, Why: "session did not complete"}
	})
	s, err := session.Open(prof, cols, rows, opts)
	if err != nil {
		r.Fault("open: %v", err)
	}
	vx := s.Vx
	bad := func(sig, what, why string) {
		r.Violation(sig, bits(uint32(prof.Caps)), detail{Part: "sweep", Profile: prof.String(), Options: optName, What: what, Why: why})
	}
	// accessors
	effective := prof
	if opts.DisableKittyKeyboard {
		effective.Caps &^= refterm.CapKittyKB
	}
	acc := []struct {
		name string
		got  bool
		want bool
	}{
		{"CanRGB", vx.CanRGB(), prof.Has(refterm.CapRGB)},
		{"CanSixel", vx.CanSixel(), prof.Has(refterm.CapSixelAny)},
		{"CanKittyGraphics", vx.CanKittyGraphics(), prof.Has(refterm.CapKittyGraphics)},
		{"CanDisplayGraphics", vx.CanDisplayGraphics(), prof.Has(refterm.CapSixelAny) || prof.Has(refterm.CapKittyGraphics)},
		{"CanReportColor", vx.CanReportColor(), prof.Has(refterm.CapOSC4)},
		{"CanReportForegroundColor", vx.CanReportForegroundColor(), prof.Has(refterm.CapOSC10)},
		{"CanReportBackgroundColor", vx.CanReportBackgroundColor(), prof.Has(refterm.CapOSC11)},
		{"CanSetAppID", vx.CanSetAppID(), prof.Has(refterm.CapOSC176)},
		{"CanUnicodeCore", vx.CanUnicodeCore(), prof.Has(refterm.CapUnicodeCore) || prof.Version == refterm.VersionTmux34},
		{"CanExplicitWidth", vx.CanExplicitWidth(), prof.Has(refterm.CapExplicitWidth)},
	}
	for _, a := range acc {
		if a.got != a.want {
			bad("C07|accessor|"+a.name, a.name, fmt.Sprintf("%s() = %v but the terminal's replies establish %v", a.name, a.got, a.want))
			vx.Close()
			return
		}
	}
	if id := vx.TerminalID(); id != prof.VersionString() {
		bad("C07|accessor|TerminalID", "TerminalID", fmt.Sprintf("TerminalID() = %q, terminal said %q", id, prof.VersionString()))
	}
	m := screenmodel.New(cols, rows)
	check := func(stage string) bool {
		var sig, why string
		var mm *screenmodel.Mismatch
		var ub []string
		s.Con.With(func(t *refterm.Terminal) {
			sig, why = checkLog(t, effective)
			mm = m.Compare(t, prof)
			ub = t.UB
		})
		if sig != "" {
			bad(sig, stage, why)
			if !strings.HasPrefix(sig, "C07|unadvertised|") {
				return false
			}
			// keep checking the rest of this session: the display clauses are independent
		}
		if len(ub) > 0 {
			bad("C07|fallback|unspecified-behaviour", stage, ub[0])
			return false
		}
		if mm != nil {
			bad(fmt.Sprintf("C07|fallback|%s|want=%s", mm.Clause, mm.WantKind), stage, fmt.Sprintf("row %d col %d: %s", mm.Row, mm.Col, mm.Detail))
			return false
		}
		return true
	}
	gateFrame(vx, m)
	vx.Render()
	if !check("first frame") {
		vx.Close()
		return
	}
	vx.Suspend()
	if err := vx.Resume(); err != nil {
		r.Fault("resume: %v", err)
	}
	s.Barrier()
	vx.Render() // absorbs the resize flag set by Resume
	gateFrame(vx, m)
	vx.Render()
	if !check("frame after Suspend/Resume") {
		vx.Close()
		return
	}
	vx.Close()
	var sig, why string
	s.Con.With(func(t *refterm.Terminal) { sig, why = checkLog(t, effective) })
	if sig != "" {
		bad(sig, "shutdown", why)
		return
	}
	r.Count("profile_sessions", 1)
}

func bits(v uint32) int {
	n := 0
	for ; v != 0; v &= v - 1 {
		n++
	}
	return n
}

// ---- (b) colours ------------------------------------------------------------------------

var quickLevels = []int{0, 1, 2, 8, 18, 47, 48, 94, 95, 96, 114, 115, 116, 127, 128, 134, 135, 136, 154, 155, 156, 174, 175, 176, 194, 195, 196, 214, 215, 216, 234, 235, 236, 238, 246, 254, 255}

// colourFrame renders the colours cs (fg = c, bg = rotated c, underline colour =
// twice rotated c) on a terminal with styled underlines but without RGB and
// checks every index the renderer chose.
func colourFrames(colours func(yield func(r, g, b int)), width int) {
	prof := refterm.DefaultProfile(refterm.CapSmulx, refterm.VersionOther)
	const rows = 64
	s, err := session.Open(prof, width, rows, vaxis.Options{})
	if err != nil {
		r.Fault("open: %v", err)
	}
	defer s.Vx.Close()
	type rgb struct{ r, g, b int }
	var batch []rgb
	flush := func() {
		if len(batch) == 0 {
			return
		}
		win := s.Vx.Window()
		for i, c := range batch {
			st := vaxis.Style{
				Foreground:     vaxis.RGBColor(uint8(c.r), uint8(c.g), uint8(c.b)),
				Background:     vaxis.RGBColor(uint8(c.b), uint8(c.r), uint8(c.g)),
				UnderlineColor: vaxis.RGBColor(uint8(c.g), uint8(c.b), uint8(c.r)),
				UnderlineStyle: vaxis.UnderlineSingle,
			}
			win.SetCell(i%width, i/width, vaxis.Cell{Character: vaxis.Character{Grapheme: "x", Width: 1}, Style: st})
		}
		s.Vx.Render()
		s.Con.With(func(t *refterm.Terminal) {
			g := t.Grid()
			for i, c := range batch {
				cell := g[i/width][i%width]
				chk := func(kind string, got refterm.Color, cr, cg, cb int) {
					set := screenmodel.NearestSet(cr, cg, cb)
					ok := got.Kind == 1
					if ok {
						ok = false
						for _, v := range set {
							if uint32(v) == got.V {
								ok = true
							}
						}
					}
					if !ok {
						r.Violation("C07|colour|"+kind+"-not-nearest", cr<<16|cg<<8|cb, detail{Part: "colour", Profile: prof.String(),
							What: fmt.Sprintf("#%02x%02x%02x as %s", cr, cg, cb, kind),
							Why:  fmt.Sprintf("rendered as %s, nearest palette entries (weighted distance, 16..255) are %v", got, set)})
					}
				}
				chk("fg", cell.Style.Fg, c.r, c.g, c.b)
				chk("bg", cell.Style.Bg, c.b, c.r, c.g)
				chk("ul", cell.Style.Ul, c.g, c.b, c.r)
				r.Count("colours", 3)
			}
		})
		batch = batch[:0]
	}
	colours(func(cr, cg, cb int) {
		batch = append(batch, rgb{cr, cg, cb})
		if len(batch) == width*rows {
			flush()
		}
	})
	flush()
}

// ---- (c) width method ---------------------------------------------------------------------

var widthAlphabet = []string{"a", "é", "e\u0301", "世", "😀", "👩‍🚀", "🇺🇸", "❤️", "​", "한", "ｱ",
	// clusters with two and three joiners (a terminal that does not join them shows every part)
	"\U0001F468\u200d\U0001F469\u200d\U0001F467", "\U0001F468\u200d\U0001F469\u200d\U0001F467\u200d\U0001F466", "\U0001F469\u200d\u2764\ufe0f\u200d\U0001F468"}

func widthCases() {
	for _, ver := range []refterm.Version{refterm.VersionNone, refterm.VersionKitty, refterm.VersionTmux34, refterm.VersionOther} {
		for _, caps := range []refterm.Cap{0, refterm.CapUnicodeCore, refterm.CapExplicitWidth, refterm.CapUnicodeCore | refterm.CapExplicitWidth} {
			prof := refterm.DefaultProfile(caps|refterm.CapRGB, ver)
			s, err := session.Open(prof, 12, 1, vaxis.Options{})
			if err != nil {
				r.Fault("open: %v", err)
			}
			for _, g := range widthAlphabet {
				want := screenmodel.ExpectedWidth(vaxis.Cell{Character: vaxis.Character{Grapheme: g}}, prof)
				got := s.Vx.RenderedWidth(g)
				r.Count("width_cases", 1)
				if got != want {
					r.Violation("C07|width|RenderedWidth", len(g), detail{Part: "width", Profile: prof.String(), What: fmt.Sprintf("%q", g),
						Why: fmt.Sprintf("RenderedWidth = %d, the terminal gives the cluster %d columns under the width method its replies select", got, want)})
					continue
				}
				// print g then a marker through Window.Print and look at the terminal
				win := s.Vx.Window()
				win.Clear()
				m := screenmodel.New(12, 1)
				m.Clear()
				col, _ := win.Print(vaxis.Segment{Text: g + "x"})
				if want > 0 {
					m.SetCell(0, 0, vaxis.Cell{Character: vaxis.Character{Grapheme: g, Width: want}})
				}
				m.SetCell(want, 0, vaxis.Cell{Character: vaxis.Character{Grapheme: "x", Width: 1}})
				s.Vx.Render()
				var mm *screenmodel.Mismatch
				s.Con.With(func(t *refterm.Terminal) { mm = m.Compare(t, prof) })
				if col != want+1 {
					r.Violation("C07|width|Print-advance", len(g), detail{Part: "width", Profile: prof.String(), What: fmt.Sprintf("%q", g),
						Why: fmt.Sprintf("Print advanced to column %d, expected %d", col, want+1)})
				} else if mm != nil {
					r.Violation("C07|width|terminal-disagrees|"+mm.Clause, len(g), detail{Part: "width", Profile: prof.String(), What: fmt.Sprintf("%q", g),
						Why: fmt.Sprintf("after Print(%q) and Render: col %d: %s", g+"x", mm.Col, mm.Detail)})
				}
				r.Distinct(explore.Hash("w", prof.String(), g))
			}
			// history: the application has drawn the cluster with a width of its own (the one Characters() hands
			// out) in an earlier frame; a cell left at width 0 is still measured with the terminal's method
			for _, g := range widthAlphabet {
				want := screenmodel.ExpectedWidth(vaxis.Cell{Character: vaxis.Character{Grapheme: g}}, prof)
				own := vaxis.Characters(g)
				if len(own) != 1 || own[0].Width == want || own[0].Width == 0 || want == 0 {
					continue
				}
				win := s.Vx.Window()
				win.Clear()
				win.SetCell(0, 0, vaxis.Cell{Character: own[0]})
				s.Vx.Render()
				r.Count("width_cases", 1)
				what := fmt.Sprintf("%q after a frame that showed it with the explicit width %d", g, own[0].Width)
				if got := s.Vx.RenderedWidth(g); got != want {
					r.Violation("C07|width|RenderedWidth|after-explicit-width", len(g), detail{Part: "width", Profile: prof.String(), What: what,
						Why: fmt.Sprintf("RenderedWidth = %d, the terminal gives the cluster %d columns under the width method its replies select", got, want)})
					continue
				}
				win.Clear()
				m := screenmodel.New(12, 1)
				m.Clear()
				col, _ := win.Print(vaxis.Segment{Text: g + "x"})
				m.SetCell(0, 0, vaxis.Cell{Character: vaxis.Character{Grapheme: g, Width: want}})
				m.SetCell(want, 0, vaxis.Cell{Character: vaxis.Character{Grapheme: "x", Width: 1}})
				s.Vx.Refresh()
				var mm *screenmodel.Mismatch
				s.Con.With(func(t *refterm.Terminal) { mm = m.Compare(t, prof) })
				if col != want+1 {
					r.Violation("C07|width|Print-advance|after-explicit-width", len(g), detail{Part: "width", Profile: prof.String(), What: what,
						Why: fmt.Sprintf("Print advanced to column %d, expected %d", col, want+1)})
				} else if mm != nil {
					r.Violation("C07|width|terminal-disagrees|after-explicit-width|"+mm.Clause, len(g), detail{Part: "width", Profile: prof.String(), What: what,
						Why: fmt.Sprintf("after Print(%q) and Refresh: col %d: %s", g+"x", mm.Col, mm.Detail)})
				} else {
					r.Distinct(explore.Hash("w-after-explicit", prof.String(), g))
				}
			}
			s.Vx.Close()
		}
	}
}

func main() {
	refterm.KeepLog = true
	r = explore.Start("C07")
	nProf := 1 << (refterm.NumGatingCaps + 2)
	if r.Replay != "" {
		r.ReplayBySearch()
	}
	if idx, n, arg, ok := r.Worker(); ok {
		r.Watchdog(60 * time.Second)
		switch arg {
		case "sweep":
			for i := 0; i < nProf; i++ {
				if i%n != idx {
					continue
				}
				cols := []int{i % 3}
				if r.Thorough() {
					cols = []int{0, 1, 2}
				}
				for _, c := range cols {
					sweepProfile(i, c, vaxis.Options{})
				}
				if i%8 == 0 || r.Thorough() {
					sweepProfile(i, 0, vaxis.Options{DisableKittyKeyboard: true})
				}
				// a terminal that answers DECRQM for the optional modes it lacks with 4 (permanently reset)
				if i%4 == 1 || r.Thorough() {
					absentReply = 4
					sweepProfile(i, i%3, vaxis.Options{})
					absentReply = 0
				}
				if i%4 == 2 || r.Thorough() {
					tcapNameOnly = true
					sweepProfile(i, i%3, vaxis.Options{})
					tcapNameOnly = false
				}
				if i%4 == 3 || r.Thorough() {
					noPixelSizes = true
					sweepProfile(i, i%3, vaxis.Options{})
					noPixelSizes = false
				}
				r.Distinct(explore.Hash("prof", fmt.Sprint(i)))
				if i%3001 == idx {
					r.Sample(map[string]any{"part": "sweep", "profile_index": i})
				}
			}
		case "colour":
			if r.Thorough() {
				// all 2^24 colours: worker handles red values congruent to idx
				for red := idx; red < 256; red += n {
					rr := red
					colourFrames(func(yield func(r, g, b int)) {
						for g := 0; g < 256; g++ {
							for b := 0; b < 256; b++ {
								yield(rr, g, b)
							}
						}
					}, 256)
				}
			} else {
				for li := idx; li < len(quickLevels); li += n {
					rr := quickLevels[li]
					colourFrames(func(yield func(r, g, b int)) {
						for _, g := range quickLevels {
							for _, b := range quickLevels {
								yield(rr, g, b)
							}
						}
					}, 64)
				}
			}
		case "width":
			if idx == 0 {
				widthCases()
			}
		}
		r.WorkerDone()
	}
	r.Spawn(16, "sweep", 0)
	r.Spawn(16, "colour", 0)
	r.Spawn(1, "width", 0)
	n := r.Get("profile_sessions") + r.Get("colours") + r.Get("width_cases")
	colourRule := "a boundary-rich sample of direct colours (37 levels per channel around the cube and grey steps, 50 653 colours)"
	if r.Thorough() {
		colourRule = "all 2^24 direct colours"
	}
	r.Finish(explore.Coverage{
		States: -1, Transitions: n, Traces: n, Evaluations: n,
		Rule:       "(a) every profile of the gating capability space (2^12 x 4 XTVERSION strings) with rotating initial cursor column and reporting capabilities (a quarter of the profiles each also with DECRPM status 4 for absent modes, with name-only positive XTGETTCAP answers, and with zero pixel sizes in the size reports; thorough: all of them): Can* accessors, a gate-exercising frame (RGB fg/bg/underline colour, every underline style, hyperlink, wide glyph), Suspend/Resume, Close; every sequence received by the reference terminal is classified baseline/query/gated and each gated one needs its advertisement; the frame must show faithfully (palette fallback nearest, underline collapse). (b) " + colourRule + " as fg, bg and underline colour through the real renderer on a terminal without RGB, against an exact-integer nearest-entry reference (ties accepted). (c) every grapheme of the width alphabet under {2027, OSC 66} x 4 XTVERSION strings: RenderedWidth, Window.Print advance and the terminal's own layout. distinct = profiles + (profile, grapheme) pairs that passed",
		Exhaustive: true,
		Bounds:     map[string]any{"profiles": nProf, "colours_checked": r.Get("colours"), "width_alphabet": widthAlphabet},
		Assumptions: []string{
			"the reference terminal's width tables (go-runewidth / uniseg data, applied by independent code) agree with the terminal in use",
			"the xterm 256-colour palette formula (cube levels 0,95,135,175,215,255; greys 8+10i) is the palette the library's table is meant to be",
			"SetAppID is an explicit application request and is not subject to the advertisement rule",
		},
	})
}
