// C04, scheduler part: exit paths taken at non-quiescent points. The sequential
// harness (props/c04) triggers Close, Suspend and SIGTERM while everything is
// idle; here the same exits - and a panic inside the input goroutine, provoked
// through a failpoint in the instrumented copy of handleSequence - race with
// typed input, rendering and the application's own Close, under every schedule
// within the deviation bound. Oracle (mc/schedrig): the exit completes, nothing
// is left blocked, the console is closed once and not raw, and the reference
// terminal's state equals its state before New.
package main

import (
	"syscall"

	"git.sr.ht/~rockorager/vaxis"
	"git.sr.ht/~rockorager/vaxis/verifshim/vfail"
	"git.sr.ht/~rockorager/vaxis/verifshim/vsched"
	vsignal "git.sr.ht/~rockorager/vaxis/verifshim/vsignal"
	"verif.local/mc/refterm"
	"verif.local/mc/schedrig"
)

const injected = "verif: injected failure in handleSequence"

// panicOnCall makes the n-th call of handleSequence from now on panic.
func panicOnCall(n int) {
	calls := 0
	vfail.Hook = func(name string) {
		if name != "handleSequence" {
			return
		}
		calls++
		if calls == n {
			panic(injected)
		}
	}
}

// untilQuit is the application's event loop: it leaves on QuitEvent (or a closed queue).
func untilQuit(w *schedrig.World) {
	for i := 0; i < 40 && !w.Seen("quit"); i++ {
		if _, ok := w.Next(); !ok {
			return
		}
	}
	if !w.Seen("quit") {
		w.Failf("lost-event", "no QuitEvent reached the application; seen: %v", w.Got)
	}
}

func tablesDiffer(a, b map[string]string) []string {
	var out []string
	for k, v := range a {
		if b[k] != v {
			out = append(out, k)
		}
	}
	return out
}

var allCaps = refterm.CapRGB | refterm.CapSync | refterm.CapKittyKB | refterm.CapUnicodeCore | refterm.CapColorScheme | refterm.CapInBandResize | refterm.CapSmulx | refterm.CapOSC176

var scenarios = []schedrig.Scenario{
	{Name: "panic-in-input-goroutine", Queue: 8, Body: func(w *schedrig.World) {
		w.ExpectPanic = injected
		panicOnCall(1)
		schedrig.TypeBytes(w, "x", "x")
		untilQuit(w)
		w.Close() // the application's deferred Close
	}},
	{Name: "panic-with-type-ahead", Queue: 8, Caps: allCaps, Body: func(w *schedrig.World) {
		w.ExpectPanic = injected
		panicOnCall(2)
		schedrig.TypeBytes(w, "keys", "abcde")
		w.Vx.ShowCursor(1, 1, vaxis.CursorBeam)
		w.Draw()
		untilQuit(w)
		w.Close()
	}},
	{Name: "panic-while-rendering", Queue: 8, Body: func(w *schedrig.World) {
		w.ExpectPanic = injected
		panicOnCall(1)
		schedrig.TypeBytes(w, "x", "x")
		w.Vx.SetMouseShape(vaxis.MouseShapeClickable)
		w.Draw()
		w.Draw()
		untilQuit(w)
		w.Close()
	}},
	{Name: "sigterm-idle", Queue: 8, Caps: allCaps, Body: func(w *schedrig.World) {
		vsched.AddEnv("SIGTERM", true, func() bool { return true }, func() { vsignal.Deliver(syscall.SIGTERM) })
		untilQuit(w)
		w.Close()
	}},
	{Name: "sigterm-type-ahead", Queue: 8, Body: func(w *schedrig.World) {
		vsched.AddEnv("SIGTERM", true, func() bool { return true }, func() { vsignal.Deliver(syscall.SIGTERM) })
		schedrig.TypeBytes(w, "keys", "abcde")
		w.Vx.ShowCursor(2, 2, vaxis.CursorUnderline)
		w.Draw()
		untilQuit(w)
		w.Close()
	}},
	{Name: "close-while-input-arrives", Queue: 8, Caps: allCaps, Body: func(w *schedrig.World) {
		schedrig.TypeBytes(w, "keys", "ab")
		schedrig.TypeBytes(w, "mouse", "\x1b[<0;3;3M")
		w.Vx.ShowCursor(1, 1, vaxis.CursorBlock)
		w.Draw()
		w.Close()
	}},
	{Name: "suspend-resume-cycles", Queue: 8, Caps: allCaps, Body: func(w *schedrig.World) {
		afterNew := w.T.ModeTable()
		fresh := refterm.New(w.T.Cols, w.T.Rows, w.Prof).ModeTable()
		schedrig.TypeBytes(w, "keys", "ab")
		for i := 0; i < 2; i++ {
			w.Draw()
			w.Vx.Suspend()
			if d := tablesDiffer(fresh, w.T.ModeTable()); len(d) > 0 {
				w.Failf("suspend-not-restored", "terminal state after Suspend differs from the state before New in %v", d)
			}
			w.Vx.Resume()
			// the start-up replies of Resume are handled asynchronously: wait for the resize it announces
			w.Until(func() bool { return w.Seen("redraw") || w.Seen("resize:20x6") || true })
			if d := tablesDiffer(afterNew, w.T.ModeTable()); len(d) > 0 {
				w.Failf("resume-differs", "modes after Resume differ from the modes after New in %v", d)
			}
		}
		w.Close()
	}},
}

func main() {
	schedrig.Main("C04", scenarios, "a panic inside the input goroutine (failpoint in handleSequence) while idle / with type-ahead / while the application renders; SIGTERM while idle / with type-ahead and a visible cursor; Close while keys and a mouse report arrive; two Suspend/Resume cycles with input arriving")
}
