// C02 – input parser conforms to the VT500 (Williams) state machine plus the
// documented extensions. Bounded-exhaustive: every string of up to n symbols (one
// representative per byte class) appended to the shortest prefix reaching each of
// the 16 parser states, under every split into reads, through the real
// ansi.Parser, against an independent transcription of the state table.
package main

import (
	"fmt"
	"io"
	"strings"
	"time"
	"unicode/utf8"

	"git.sr.ht/~rockorager/vaxis/ansi"
	"github.com/rivo/uniseg"
	"verif.local/mc/explore"
)

var r *explore.Run

// ---- reference automaton ---------------------------------------------------------------------------

type rstate int

const (
	ground rstate = iota
	escape
	escInter
	csiEntry
	csiParam
	csiInter
	csiIgnore
	dcsEntry
	dcsParam
	dcsInter
	dcsPass
	dcsIgnore
	oscStr
	sosPm
	apcStr
	ss3
	numStates
)

var stateNames = []string{"ground", "escape", "escape-intermediate", "csi-entry", "csi-param", "csi-intermediate", "csi-ignore",
	"dcs-entry", "dcs-param", "dcs-intermediate", "dcs-passthrough", "dcs-ignore", "osc-string", "sos/pm-string", "apc-string", "ss3"}

// shortest prefixes entering each state
var statePrefix = []string{"", "\x1b", "\x1b ", "\x1b[", "\x1b[1", "\x1b[ ", "\x1b[1<", "\x1bP", "\x1bP1", "\x1bP ", "\x1bPq", "\x1bP:", "\x1b]", "\x1bX", "\x1b_", "\x1bO"}

// the same string states entered with some content already consumed (the parser's string bookkeeping starts
// with the first payload byte), and the states just after a string was left by ESC or cancelled
var contentPrefix = []struct {
	st     rstate
	prefix string
}{{oscStr, "\x1b]0;t"}, {sosPm, "\x1bXt"}, {sosPm, "\x1b^t"}, {apcStr, "\x1b_Gt"}, {dcsPass, "\x1bPqd"}, {dcsIgnore, "\x1bP:d"},
	{escape, "\x1b]0;t\x1b"}, {escape, "\x1bXt\x1b"}, {escape, "\x1bP:d\x1b"}, {ground, "\x1bXt\x18"}, {ground, "\x1bP:d\x1a"}, {ground, "\x1b]0;t\x1b\x18"}}

const maxParam = 1<<31 - 1

type ref struct {
	st       rstate
	inter    []rune
	params   []rune
	osc      []rune
	dcsData  []rune
	dcsFinal rune
	dcsInter []rune
	dcsPar   []rune
	apc      []rune
	strChars int // characters consumed by the string state we are in / just left
	stSupp   bool
	text     []rune
	out      []string
	outside  bool // a scalar >= 0x80 met outside ground / string states: not defined by the byte machine
}

func (m *ref) flushText() {
	if len(m.text) > 0 {
		m.out = append(m.out, "P:"+string(m.text))
		m.text = nil
	}
}

func (m *ref) emit(s string) { m.flushText(); m.out = append(m.out, s) }

func isC0exec(c rune) bool { return c <= 0x17 || c == 0x19 || (c >= 0x1C && c <= 0x1F) }

func decodeParams(ps []rune) string {
	if len(ps) == 0 {
		return ""
	}
	var groups []string
	cur := []string{}
	val := 0
	for _, c := range ps {
		switch c {
		case ';':
			cur = append(cur, fmt.Sprint(val))
			groups = append(groups, strings.Join(cur, ":"))
			cur, val = []string{}, 0
		case ':':
			cur = append(cur, fmt.Sprint(val))
			val = 0
		default:
			val = val*10 + int(c-'0')
			if val > maxParam {
				val = maxParam
			}
		}
	}
	cur = append(cur, fmt.Sprint(val))
	groups = append(groups, strings.Join(cur, ":"))
	return strings.Join(groups, ";")
}

func decodeDCSParams(ps []rune) string {
	if len(ps) == 0 {
		return ""
	}
	var out []string
	for _, p := range strings.Split(string(ps), ";") {
		v := 0
		for _, c := range p {
			v = v*10 + int(c-'0')
			if v > maxParam {
				v = maxParam
			}
		}
		out = append(out, fmt.Sprint(v))
	}
	return strings.Join(out, ";")
}

// exit action of the state being left
func (m *ref) exitState() {
	switch m.st {
	case oscStr:
		m.emit("OSC:" + string(m.osc))
		m.osc = nil
	case dcsPass:
		m.emit(fmt.Sprintf("DCS:%s:%s:%c:%s", string(m.dcsInter), decodeDCSParams(m.dcsPar), m.dcsFinal, string(m.dcsData)))
		m.dcsData = nil
	case apcStr:
		m.emit("APC:" + string(m.apc))
		m.apc = nil
	}
}

func (m *ref) clear() { m.inter, m.params = nil, nil }

func (m *ref) feed(c rune) {
	// anywhere
	switch {
	case c == 0x18 || c == 0x1A:
		m.exitState()
		m.emit(fmt.Sprintf("C0:%02X", c))
		m.st = ground
		return
	case c == 0x1B:
		wasString := m.st == oscStr || m.st == dcsPass || m.st == dcsIgnore || m.st == sosPm || m.st == apcStr
		m.exitState()
		m.stSupp = wasString && m.strChars > 0
		m.strChars = 0
		m.clear()
		m.st = escape
		return
	}
	if c >= 0x80 && m.st != ground && m.st != oscStr && m.st != dcsPass && m.st != dcsIgnore && m.st != sosPm && m.st != apcStr {
		m.outside = true
	}
	switch m.st {
	case ground:
		if isC0exec(c) {
			m.emit(fmt.Sprintf("C0:%02X", c))
			return
		}
		m.text = append(m.text, c)
	case escape:
		supp := m.stSupp
		m.stSupp = false
		switch {
		case isC0exec(c):
			m.emit(fmt.Sprintf("C0:%02X", c))
			m.stSupp = false
		case c >= 0x20 && c <= 0x2F:
			m.inter = append(m.inter, c)
			m.st = escInter
		case c == 'O':
			m.st = ss3
		case c == 'P':
			m.clear()
			m.dcsInter, m.dcsPar = nil, nil
			m.st = dcsEntry
		case c == '[':
			m.clear()
			m.st = csiEntry
		case c == ']':
			m.osc = nil
			m.strChars = 0
			m.st = oscStr
		case c == 'X' || c == '^':
			m.strChars = 0
			m.st = sosPm
		case c == '_':
			m.apc = nil
			m.strChars = 0
			m.st = apcStr
		case c == '\\' && supp:
			m.st = ground
		case c >= 0x30 && c <= 0x7F: // 7F: Alt+Backspace (documented extension)
			m.emit(fmt.Sprintf("ESC::%c", c))
			m.st = ground
		default:
			m.st = ground
		}
	case escInter:
		switch {
		case isC0exec(c):
			m.emit(fmt.Sprintf("C0:%02X", c))
		case c >= 0x20 && c <= 0x2F:
			m.inter = append(m.inter, c)
		case c == 0x7F:
		case c >= 0x30 && c <= 0x7E:
			m.emit(fmt.Sprintf("ESC:%s:%c", string(m.inter), c))
			m.st = ground
		default:
			m.st = ground
		}
	case csiEntry, csiParam:
		switch {
		case isC0exec(c):
			m.emit(fmt.Sprintf("C0:%02X", c))
		case c == 0x7F:
		case (c >= '0' && c <= '9') || c == ';' || c == ':': // colon sub-parameters: documented extension
			m.params = append(m.params, c)
			m.st = csiParam
		case c >= 0x3C && c <= 0x3F:
			if m.st == csiEntry {
				m.inter = append(m.inter, c)
				m.st = csiParam
			} else {
				m.st = csiIgnore
			}
		case c >= 0x20 && c <= 0x2F:
			m.inter = append(m.inter, c)
			m.st = csiInter
		case c >= 0x40 && c <= 0x7E:
			m.emit(fmt.Sprintf("CSI:%s:%s:%c", string(m.inter), decodeParams(m.params), c))
			m.st = ground
		default:
			m.st = ground
		}
	case csiInter:
		switch {
		case isC0exec(c):
			m.emit(fmt.Sprintf("C0:%02X", c))
		case c >= 0x20 && c <= 0x2F:
			m.inter = append(m.inter, c)
		case c == 0x7F:
		case c >= 0x30 && c <= 0x3F:
			m.st = csiIgnore
		case c >= 0x40 && c <= 0x7E:
			m.emit(fmt.Sprintf("CSI:%s:%s:%c", string(m.inter), decodeParams(m.params), c))
			m.st = ground
		default:
			m.st = ground
		}
	case csiIgnore:
		switch {
		case isC0exec(c):
			m.emit(fmt.Sprintf("C0:%02X", c))
		case c >= 0x40 && c <= 0x7E:
			m.st = ground
		}
	case dcsEntry, dcsParam:
		switch {
		case isC0exec(c), c == 0x7F:
		case c >= 0x20 && c <= 0x2F:
			m.dcsInter = append(m.dcsInter, c)
			m.st = dcsInter
		case c == ':':
			m.strChars = 0
			m.st = dcsIgnore
		case (c >= '0' && c <= '9') || c == ';':
			m.dcsPar = append(m.dcsPar, c)
			m.st = dcsParam
		case c >= 0x3C && c <= 0x3F:
			if m.st == dcsEntry {
				m.dcsInter = append(m.dcsInter, c)
				m.st = dcsParam
			} else {
				m.strChars = 0
				m.st = dcsIgnore
			}
		case c >= 0x40 && c <= 0x7E:
			m.dcsFinal, m.dcsData, m.strChars = c, nil, 0
			m.st = dcsPass
		default:
			m.outside = true
		}
	case dcsInter:
		switch {
		case isC0exec(c), c == 0x7F:
		case c >= 0x20 && c <= 0x2F:
			m.dcsInter = append(m.dcsInter, c)
		case c >= 0x30 && c <= 0x3F:
			m.strChars = 0
			m.st = dcsIgnore
		case c >= 0x40 && c <= 0x7E:
			m.dcsFinal, m.dcsData, m.strChars = c, nil, 0
			m.st = dcsPass
		default:
			m.outside = true
		}
	case dcsPass:
		m.strChars++
		if c != 0x7F {
			m.dcsData = append(m.dcsData, c)
		}
	case dcsIgnore, sosPm:
		m.strChars++
	case oscStr:
		if c == 0x07 { // BEL-terminated OSC: documented extension
			m.exitState()
			m.st = ground
			return
		}
		m.strChars++
		if c >= 0x20 {
			m.osc = append(m.osc, c)
		}
	case apcStr:
		m.strChars++
		if !isC0exec(c) {
			m.apc = append(m.apc, c)
		}
	case ss3:
		switch {
		case isC0exec(c):
			m.emit(fmt.Sprintf("C0:%02X", c))
		case c == 0x7F:
		default:
			m.emit(fmt.Sprintf("SS3:%c", c))
			m.st = ground
		}
	}
}

func (m *ref) eof() {
	m.exitState()
	m.flushText()
}

// runes of a byte string as the parser reads them: valid UTF-8 scalars, invalid bytes as the rune of the same value
func runesOf(b []byte) []rune {
	var out []rune
	for len(b) > 0 {
		c, n := utf8.DecodeRune(b)
		if c == utf8.RuneError && n == 1 {
			out = append(out, rune(b[0]))
		} else {
			out = append(out, c)
		}
		b = b[n:]
	}
	return out
}

func reference(b []byte) ([]string, bool) {
	m := &ref{}
	for _, c := range runesOf(b) {
		m.feed(c)
	}
	m.eof()
	return m.out, m.outside
}

// ---- running the real parser -----------------------------------------------------------------------------

type chunkReader struct {
	chunks [][]byte
}

func (c *chunkReader) Read(p []byte) (int, error) {
	for len(c.chunks) > 0 && len(c.chunks[0]) == 0 {
		c.chunks = c.chunks[1:]
	}
	if len(c.chunks) == 0 {
		return 0, io.EOF
	}
	n := copy(p, c.chunks[0])
	c.chunks[0] = c.chunks[0][n:]
	return n, nil
}

type printItem struct {
	g string
	w int
}

var itemLimit = 10000

func runParser(chunks [][]byte) (items []string, prints []printItem, errs int, eofs int, ok bool) {
	cp := make([][]byte, len(chunks))
	for i := range chunks {
		cp[i] = append([]byte(nil), chunks[i]...)
	}
	p := ansi.NewParser(&chunkReader{chunks: cp})
	var text strings.Builder
	flush := func() {
		if text.Len() > 0 {
			items = append(items, "P:"+text.String())
			text.Reset()
		}
	}
	n := 0
	for seq := range p.Next() {
		n++
		if n > itemLimit {
			return items, prints, errs, eofs, false
		}
		switch s := seq.(type) {
		case ansi.Print:
			text.WriteString(s.Grapheme)
			prints = append(prints, printItem{s.Grapheme, s.Width})
		case ansi.C0:
			flush()
			items = append(items, fmt.Sprintf("C0:%02X", rune(s)))
		case ansi.ESC:
			flush()
			items = append(items, fmt.Sprintf("ESC:%s:%c", string(s.Intermediate), s.Final))
		case ansi.SS3:
			flush()
			items = append(items, fmt.Sprintf("SS3:%c", rune(s)))
		case ansi.CSI:
			flush()
			var groups []string
			for _, g := range s.Parameters {
				var sub []string
				for _, v := range g {
					sub = append(sub, fmt.Sprint(v))
				}
				groups = append(groups, strings.Join(sub, ":"))
			}
			items = append(items, fmt.Sprintf("CSI:%s:%s:%c", string(s.Intermediate), strings.Join(groups, ";"), s.Final))
		case ansi.OSC:
			flush()
			items = append(items, "OSC:"+string(s.Payload))
		case ansi.DCS:
			flush()
			var ps []string
			for _, v := range s.Parameters {
				ps = append(ps, fmt.Sprint(v))
			}
			items = append(items, fmt.Sprintf("DCS:%s:%s:%c:%s", string(s.Intermediate), strings.Join(ps, ";"), s.Final, string(s.Data)))
		case ansi.APC:
			flush()
			items = append(items, "APC:"+s.Data)
		case ansi.EOF:
			eofs++
		case error:
			errs++
		}
		p.Finish(seq)
	}
	flush()
	return items, prints, errs, eofs, true
}

// ---- alphabet ---------------------------------------------------------------------------------------------

type sym struct {
	name string
	b    string
}

var alphabet = []sym{
	{"C0", "\x01"}, {"BEL", "\x07"}, {"CAN", "\x18"}, {"SUB", "\x1a"}, {"ESC", "\x1b"}, {"SP", " "}, {"$", "$"}, {"0", "0"}, {"7", "7"}, {":", ":"}, {";", ";"},
	{"?", "?"}, {">", ">"}, {"O", "O"}, {"P", "P"}, {"X", "X"}, {"[", "["}, {"\\", "\\"}, {"]", "]"}, {"^", "^"}, {"_", "_"}, {"m", "m"}, {"q", "q"}, {"DEL", "\x7f"},
	{"U+00E9(2-byte)", "\u00e9"}, {"U+4E16(3-byte)", "\u4e16"}, {"U+1F600(4-byte)", "\U0001F600"}, {"U+0301", "\u0301"}, {"U+FFFD", "\uFFFD"}, {"0xFF", "\xff"},
}

type detail struct {
	State  string   `json:"entered_state"`
	Input  string   `json:"input"`
	Chunks []string `json:"reads"`
	Got    []string `json:"got"`
	Want   []string `json:"want"`
	Why    string   `json:"why"`
}

func splits(b []byte, maxPieces int) [][][]byte {
	// every way to split b into reads (all compositions when short, single splits otherwise)
	var out [][][]byte
	n := len(b)
	if n <= 1 {
		return [][][]byte{{b}}
	}
	if n <= maxPieces {
		for mask := 0; mask < 1<<(n-1); mask++ {
			var parts [][]byte
			start := 0
			for i := 1; i < n; i++ {
				if mask>>(i-1)&1 == 1 {
					parts = append(parts, b[start:i])
					start = i
				}
			}
			parts = append(parts, b[start:])
			out = append(out, parts)
		}
		return out
	}
	out = append(out, [][]byte{b})
	for i := 1; i < n; i++ {
		out = append(out, [][]byte{b[:i], b[i:]})
	}
	return out
}

func checkInput(state int, input []byte, desc string) {
	want, outside := reference(input)
	if outside {
		r.Count("outside_alphabet", 1)
		return
	}
	for ci, chunks := range splits(input, 6) {
		r.Count("parser_runs", 1)
		got, prints, _, eofs, ok := runParser(chunks)
		var cs []string
		for _, c := range chunks {
			cs = append(cs, fmt.Sprintf("%q", c))
		}
		bad := func(clause, why string) {
			r.Violation(fmt.Sprintf("C02|%s|from=%s", clause, stateNames[state]), len(input)*100+ci, detail{State: stateNames[state], Input: fmt.Sprintf("%q (%s)", input, desc), Chunks: cs, Got: got, Want: want, Why: why})
		}
		if !ok {
			bad("no-termination", "more than 10000 items")
			return
		}
		if eofs != 1 {
			bad("eof-marker", fmt.Sprintf("%d end-of-input markers", eofs))
			return
		}
		if strings.Join(got, "\x00") != strings.Join(want, "\x00") {
			clause := "sequence"
			if ci > 0 {
				// is the unsplit result right? then it is a chunking dependence
				if g0, _, _, _, _ := runParser([][]byte{input}); strings.Join(g0, "\x00") == strings.Join(want, "\x00") {
					clause = "chunking"
				}
			}
			kind := firstDiffKind(got, want)
			bad(clause+"|"+kind, "delivered sequences differ from the state machine's")
			return
		}
		for _, p := range prints {
			if p.w != uniseg.StringWidth(p.g) {
				bad("print-width", fmt.Sprintf("Print %q has width %d, want %d", p.g, p.w, uniseg.StringWidth(p.g)))
				return
			}
		}
		if ci == 0 {
			// unsplit: each Print is exactly one grapheme cluster of its text run
			var wantClusters []string
			for _, it := range want {
				if strings.HasPrefix(it, "P:") {
					rest := it[2:]
					state := -1
					for rest != "" {
						var c string
						c, rest, _, state = uniseg.FirstGraphemeClusterInString(rest, state)
						wantClusters = append(wantClusters, c)
					}
				}
			}
			var gotClusters []string
			for _, p := range prints {
				gotClusters = append(gotClusters, p.g)
			}
			if strings.Join(gotClusters, "\x00") != strings.Join(wantClusters, "\x00") {
				bad("grapheme-boundaries", fmt.Sprintf("Prints %q, grapheme clusters %q", gotClusters, wantClusters))
				return
			}
		}
	}
	r.Distinct(explore.Hash(string(input)))
}

// bulkSweep: streams longer than any buffer on the way (bufio's 4096 bytes, the parser's channel), whole and
// cut into reads of sizes around those limits.
func bulkSweep() {
	itemLimit = 1 << 20
	defer func() { itemLimit = 10000 }()
	var streams []struct{ name, s string }
	var mixed strings.Builder
	for _, sep := range []string{"x", "\u4e16", "\x1b[1;2m"} {
		for _, a := range alphabet {
			for _, b := range alphabet {
				mixed.WriteString(a.b)
				mixed.WriteString(b.b)
				mixed.WriteString(sep)
			}
		}
	}
	streams = append(streams, struct{ name, s string }{"every ordered pair of alphabet symbols, three separators", mixed.String()})
	long := strings.Repeat("ab\u4e16e\u0301 ", 1200)
	streams = append(streams,
		struct{ name, s string }{"9.6 KiB of text", long},
		struct{ name, s string }{"OSC with a 9000-byte payload", "a\x1b]0;" + strings.Repeat("t\u00e9", 3000) + "\x1b\\b"},
		struct{ name, s string }{"DCS with 9000 bytes of data", "a\x1bP1;2q" + strings.Repeat("d~", 4500) + "\x1b\\b"},
		struct{ name, s string }{"APC with a 9000-byte payload", "a\x1b_G" + strings.Repeat("p=", 4500) + "\x1b\\b"},
		struct{ name, s string }{"OSC with a 70000-rune payload, BEL", "a\x1b]52;c;" + strings.Repeat("A", 70000) + "\x07b"},
		struct{ name, s string }{"OSC with a 70000-rune payload, ST", "a\x1b]52;c;" + strings.Repeat("A", 70000) + "\x1b\\b"},
		struct{ name, s string }{"OSC with a 70000-rune payload, CAN", "a\x1b]52;c;" + strings.Repeat("A", 70000) + "\x18b"},
		struct{ name, s string }{"DCS with 70000 bytes of data", "a\x1bP1;2q" + strings.Repeat("d", 70000) + "\x1b\\b"},
		struct{ name, s string }{"APC with a 70000-byte payload", "a\x1b_G" + strings.Repeat("p", 70000) + "\x1b\\b"},
		struct{ name, s string }{"3000 short CSI sequences", strings.Repeat("\x1b[1;2A\x1b[m", 1500)},
		struct{ name, s string }{"CSI with 3000 parameters", "\x1b[" + strings.Repeat("1;", 3000) + "mz"},
		struct{ name, s string }{"CSI with a 5000-digit parameter", "\x1b[" + strings.Repeat("7", 5000) + ";3mz"},
		struct{ name, s string }{"5000 invalid bytes between text", "a" + strings.Repeat("\xff\xc3", 2500) + "b"})
	skip := r.Skip()
	ci := 0
	for _, st := range streams {
		input := []byte(st.s)
		want, outside := reference(input)
		if outside {
			r.Count("outside_alphabet", 1)
			continue
		}
		for _, size := range []int{0, 4096, 4095, 4097, 1000, 7} {
			var chunks [][]byte
			if size == 0 {
				chunks = [][]byte{input}
			} else {
				for i := 0; i < len(input); i += size {
					j := i + size
					if j > len(input) {
						j = len(input)
					}
					chunks = append(chunks, input[i:j])
				}
			}
			ci++
			if ci <= skip {
				continue
			}
			// the parser runs in its own goroutine: if it panics the worker dies; the parent turns that into a
			// violation and starts the worker again behind this case
			r.Progress(ci, fmt.Sprintf("%s (%d bytes), reads of %d bytes (0 = one read)", st.name, len(input), size))
			r.Count("parser_runs", 1)
			got, _, _, eofs, ok := runParser(chunks)
			d := detail{State: "ground", Input: fmt.Sprintf("%s (%d bytes)", st.name, len(input)), Chunks: []string{fmt.Sprintf("reads of %d bytes (0 = one read)", size)}}
			switch {
			case !ok:
				r.Violation("C02|bulk|no-termination", size, d)
			case eofs != 1:
				d.Why = fmt.Sprintf("%d end-of-input markers", eofs)
				r.Violation("C02|bulk|eof-marker", size, d)
			case strings.Join(got, "\x00") != strings.Join(want, "\x00"):
				i := 0
				for i < len(got) && i < len(want) && got[i] == want[i] {
					i++
				}
				g, w := "(nothing)", "(nothing)"
				if i < len(got) {
					g = got[i]
				}
				if i < len(want) {
					w = want[i]
				}
				if len(g) > 80 {
					g = g[:80] + "..."
				}
				if len(w) > 80 {
					w = w[:80] + "..."
				}
				d.Why = fmt.Sprintf("item %d of %d is %q, the state machine delivers %q (of %d)", i, len(got), g, w, len(want))
				r.Violation("C02|bulk|sequence", size, d)
			default:
				r.Distinct(explore.Hash("bulk", st.name, fmt.Sprint(size)))
			}
		}
	}
}

func firstDiffKind(got, want []string) string {
	for i := 0; i < len(got) || i < len(want); i++ {
		var g, w string
		if i < len(got) {
			g = got[i]
		}
		if i < len(want) {
			w = want[i]
		}
		if g != w {
			kg, kw := "none", "none"
			if g != "" {
				kg = strings.SplitN(g, ":", 2)[0]
			}
			if w != "" {
				kw = strings.SplitN(w, ":", 2)[0]
			}
			return "got-" + kg + "-want-" + kw
		}
	}
	return "same"
}

func main() {
	r = explore.Start("C02")
	maxLen := r.Pick(3, 4)
	if r.Replay != "" {
		r.ReplayBySearch()
	}
	if idx, n, arg, ok := r.Worker(); ok {
		r.Watchdog(60 * time.Second)
		k := 0
		switch arg {
		case "states":
			for st := 0; st < int(numStates); st++ {
				var rec func(suffix []byte, names []string, l int)
				rec = func(suffix []byte, names []string, l int) {
					k++
					if k%n == idx {
						in := append([]byte(statePrefix[st]), suffix...)
						in = append(in, 'x') // sentinel: what follows is not disturbed
						checkInput(st, in, strings.Join(names, " "))
					}
					if l == maxLen {
						return
					}
					for _, s := range alphabet {
						rec(append(append([]byte{}, suffix...), s.b...), append(append([]string{}, names...), s.name), l+1)
					}
				}
				rec(nil, nil, 0)
			}
			for _, cp := range contentPrefix {
				var rec func(suffix []byte, names []string, l int)
				rec = func(suffix []byte, names []string, l int) {
					k++
					if k%n == idx {
						in := append([]byte(cp.prefix), suffix...)
						in = append(in, 'x')
						checkInput(int(cp.st), in, fmt.Sprintf("after %q: ", cp.prefix)+strings.Join(names, " "))
					}
					if l == maxLen {
						return
					}
					for _, s := range alphabet {
						rec(append(append([]byte{}, suffix...), s.b...), append(append([]string{}, names...), s.name), l+1)
					}
				}
				rec(nil, nil, 0)
			}
			if idx == 0 {
				r.Sample(map[string]any{"entered_state": "csi-param", "suffix": "; : 7 m", "input": "\x1b[1;:7mx", "reads": "all 2^7 splits"})
			}
		case "bulk":
			bulkSweep()
		case "params":
			// parameter decoding: all parameter strings of <= 6 symbols over {0, 7, a 19-digit number, ;, :}
			els := []string{"0", "7", "9999999999999999999", ";", ":"}
			var rec func(s string, l int)
			rec = func(s string, l int) {
				k++
				if k%n == idx {
					checkInput(int(csiEntry), []byte("\x1b["+s+"m"), "CSI "+s+" m")
					checkInput(int(dcsEntry), []byte("\x1bP"+s+"qd\x1b\\"), "DCS "+s+" q")
				}
				if l == 6 {
					return
				}
				for _, e := range els {
					rec(s+e, l+1)
				}
			}
			rec("", 0)
			// numeric boundaries: every value whose first nine digits are next to those of the largest
			// parameter (2^31-1) with every last digit, the same with one more digit, and the neighbours of
			// 2^8, 2^15, 2^16, 2^32, 2^63 and 2^64; bare, with leading zeros, in each position of a list and as
			// a sub-parameter
			var vals []string
			for _, pre := range []int{214748363, 214748364, 214748365} {
				for d := 0; d < 10; d++ {
					vals = append(vals, fmt.Sprint(pre*10+d))
					if d == 0 || d == 7 {
						vals = append(vals, fmt.Sprint(pre*10+d)+"0", fmt.Sprint(pre*10+d)+"7")
					}
				}
			}
			vals = append(vals, "255", "256", "32767", "32768", "65535", "65536", "999999999", "1000000000", "4294967295", "4294967296", "4294967297",
				"9223372036854775806", "9223372036854775807", "9223372036854775808", "18446744073709551615", "18446744073709551616", "18446744073709551617")
			for _, v := range vals {
				for _, z := range []string{"", "0", "000"} {
					for _, form := range []string{"%s", "%s;1", "1;%s", "1;%s;2", "4:%s", "%s:3", "38:2:%s:1", ";%s", "%s;"} {
						k++
						if k%n != idx {
							continue
						}
						ps := fmt.Sprintf(form, z+v)
						checkInput(int(csiEntry), []byte("\x1b["+ps+"m"), "CSI "+ps+" m")
						if !strings.Contains(ps, ":") {
							checkInput(int(dcsEntry), []byte("\x1bP"+ps+"qd\x1b\\"), "DCS "+ps+" q")
						}
					}
				}
			}
		}
		r.WorkerDone()
	}
	r.Spawn(16, "states", 0)
	r.Spawn(16, "params", 0)
	r.SpawnTolerant(1, "bulk", func(desc, tail string) {
		site := "unknown"
		for _, l := range strings.Split(tail, "\n") {
			if strings.Contains(l, "vaxis/ansi.") && strings.Contains(l, "(") {
				site = strings.TrimSpace(strings.SplitN(l, "(", 2)[0])
				if i := strings.LastIndex(site, "/"); i >= 0 {
					site = site[i+1:]
				}
				break
			}
		}
		first := tail
		if i := strings.Index(first, "\n"); i >= 0 {
			first = first[:i]
		}
		r.Violation("C02|bulk|crash|"+site, 0, detail{State: "ground", Input: desc, Why: "the process died: " + first})
	})
	n := r.Get("parser_runs")
	r.Finish(explore.Coverage{
		States: -1, Transitions: n, Traces: n, Evaluations: n,
		Rule:       "for each of the 16 parser states (entered by its shortest prefix) and 12 further prefixes (each string state with content consumed, the states just after a string was left by ESC or cancelled by CAN/SUB): every suffix of <= n symbols over a 30-symbol alphabet with one or two representatives per byte class of the state table (C0, BEL, CAN, SUB, ESC, 0x20-2F, digits, ':', ';', 0x3C-3F, every state-changing final of the escape state, ordinary finals, DEL, 2/3/4-byte scalars, a combining mark, U+FFFD, an invalid byte) followed by a sentinel 'x', fed to the real ansi.Parser under every split into reads (all 2^(len-1) splits up to 6 bytes, every single split beyond); plus every CSI and DCS parameter string of <= 6 elements over {0, 7, a 19-digit number, ;, :} and 59 boundary values (all last digits next to 2^31-1, one digit more, neighbours of 2^8/2^15/2^16/2^32/2^63/2^64) bare and with leading zeros in 9 list / sub-parameter positions. Bulk: 14 streams of 5-70 KiB (all ordered pairs of alphabet symbols, long text, 9000-byte and 70000-byte OSC/DCS/APC payloads with each terminator, thousands of CSI sequences / parameters / digits, thousands of invalid bytes), whole and in reads of 4096, 4095, 4097, 1000 and 7 bytes. Compared with an independent transcription of the vt100.net state table with the documented extensions; text runs are compared after merging Prints, each Print's width and (unsplit) cluster boundaries against uniseg. distinct = inputs that passed under all splits",
		Exhaustive: true,
		Bounds:     map[string]any{"suffix_len": maxLen, "alphabet": len(alphabet), "skipped_outside_alphabet": r.Get("outside_alphabet")},
		Assumptions: []string{"the ST that ends a string is suppressed iff the string state consumed at least one character (pinned by the repository's TestOSC)",
			"end of input delivers an open OSC / DCS / APC (pinned by TestOSC, TestDCS)", "scalars >= U+0080 inside escape / CSI / DCS header states are outside the byte-defined machine and skipped",
			"numeric parameters saturate at 2^31-1"},
	})
}
