// C10: concurrent use of a real Vaxis (input goroutine, parser, timers, posting
// goroutines, the main goroutine rendering, queries, Close/Suspend/Resume),
// decided by stateless exploration of thread schedules under the controlled
// scheduler (mc/schedrig).
package main

import (
	"fmt"
	"strings"
	"syscall"
	"time"

	"git.sr.ht/~rockorager/vaxis"
	vctx "git.sr.ht/~rockorager/vaxis/verifshim/vctx"
	"git.sr.ht/~rockorager/vaxis/verifshim/vsched"
	vsignal "git.sr.ht/~rockorager/vaxis/verifshim/vsignal"
	"git.sr.ht/~rockorager/vaxis/widgets/spinner"
	"verif.local/mc/refterm"
	"verif.local/mc/schedrig"
)

func count(l []string, s string) int {
	n := 0
	for _, x := range l {
		if x == s {
			n++
		}
	}
	return n
}

// stopSpinner: Stop goes through the non-blocking SyncFunc, which a full queue may drop (that is
// PostEvent's contract) - the application asks again until a request has come through.
func stopSpinner(w *schedrig.World, sp *spinner.Model) {
	from := len(w.Got)
	for i := 0; i < 12; i++ {
		sp.Stop()
		for j := 0; j < 4; j++ {
			if count(w.Got[from:], "syncfunc") > 0 {
				return
			}
			if _, ok := w.Next(); !ok {
				return
			}
		}
	}
	w.Failf("lost-event", "the spinner's stop request never reached the main goroutine: %v", w.Got)
}

var scenarios = []schedrig.Scenario{
	{Name: "posts", Queue: 2, Body: func(w *schedrig.World) {
		schedrig.Poster(w, "A", 2)
		schedrig.Poster(w, "B", 2)
		vsched.GoNamed("sync", func() {
			w.Vx.SyncFunc(func() { w.Note = append(w.Note, "syncfunc ran") })
			w.Vx.Resize()
		})
		schedrig.TypeBytes(w, "x", "x")
		w.Until(func() bool { return w.Seen("A2") && w.Seen("B2") })
		w.Order("A", 2)
		w.Order("B", 2)
		w.Close()
	}},
	{Name: "posts-wide-queue", Queue: 16, Body: func(w *schedrig.World) {
		schedrig.Poster(w, "A", 3)
		schedrig.Poster(w, "B", 2)
		vsched.GoNamed("nb", func() {
			for i := 1; i <= 3; i++ {
				w.Vx.PostEvent(schedrig.UserEv{"N", i})
			}
		})
		w.Until(func() bool { return w.Seen("A3") && w.Seen("B2") && w.Seen("N3") })
		w.Order("A", 3)
		w.Order("B", 2)
		w.Order("N", 3) // the queue is never full here: nothing may be dropped
		w.Close()
	}},
	{Name: "escape-then-close", Queue: 8, Body: func(w *schedrig.World) {
		schedrig.TypeBytes(w, "esc", "\x1b")
		schedrig.Poster(w, "A", 1)
		w.Until(func() bool { return w.Seen("A1") })
		w.Close()
	}},
	{Name: "escape-key", Queue: 8, Body: func(w *schedrig.World) {
		schedrig.TypeBytes(w, "esc", "\x1b")
		w.Until(func() bool { return w.Seen("key:Escape") })
		schedrig.TypeBytes(w, "a", "a")
		w.Until(func() bool { return w.Seen("key:a") })
		w.Close()
	}},
	{Name: "render-vs-input", Queue: 8, Body: func(w *schedrig.World) {
		schedrig.TypeBytes(w, "keys", "ab")
		schedrig.TypeBytes(w, "focus", "\x1b[I")
		vsched.GoNamed("resizer", func() { w.Vx.Resize() })
		w.Draw()
		w.Until(func() bool { return w.Seen("key:a") && w.Seen("key:b") && w.Seen("focus-in") && w.Seen("redraw") })
		if i, j := schedrig.IndexOf(w.Got, "key:a"), schedrig.IndexOf(w.Got, "key:b"); i > j {
			w.Failf("input-order", "terminal input delivered out of order: %v", w.Got)
		}
		w.Close()
	}},
	{Name: "cursor-position", Queue: 8, Hold: true, Body: func(w *schedrig.World) {
		vsched.AddEnv("terminal-replies", true, func() bool { return len(w.Con.Held) > 0 }, func() { w.Con.Release(); w.Released = true })
		schedrig.Poster(w, "A", 1)
		row, col := w.Vx.CursorPosition()
		w.CheckCursor(row, col)
		w.Note = append(w.Note, fmt.Sprintf("cursor=%d,%d", row, col))
		w.Until(func() bool { return w.Seen("A1") })
		w.Con.Hold = false
		w.Close()
	}},
	{Name: "cursor-position-twice", Queue: 8, Hold: true, Body: func(w *schedrig.World) {
		vsched.AddEnv("terminal-replies", false, func() bool { return len(w.Con.Held) > 0 }, func() { w.Con.Release(); w.Released = true })
		for i := 0; i < 2; i++ {
			w.Released = false
			row, col := w.Vx.CursorPosition()
			w.CheckCursor(row, col)
		}
		w.Con.Hold = false
		w.Con.Release()
		w.Close()
	}},
	{Name: "cursor-position-unanswered-then-F3", Queue: 8, Caps: refterm.CapRGB | refterm.CapSync, Body: func(w *schedrig.World) {
		w.Con.Mute = true
		row, col := w.Vx.CursorPosition()
		w.Con.Mute = false
		if row != -1 || col != -1 {
			w.Failf("cursor-position", "CursorPosition returned %d,%d although the terminal never answered", row, col)
		}
		// Shift+F3 has the shape of a cursor position report
		schedrig.TypeBytes(w, "shift-f3", "\x1b[1;2R")
		schedrig.TypeBytes(w, "f3", "\x1b[R")
		w.Until(func() bool { return w.Seen("key:Shift+F3") && w.Seen("key:F3") })
		w.Close()
	}},
	{Name: "queries-from-goroutines-while-rendering", Queue: 8, Body: func(w *schedrig.World) {
		// two goroutines ask for the cursor position and request resizes while the main goroutine draws
		done := 0
		for _, name := range []string{"q1", "q2"} {
			vsched.GoNamed(name, func() {
				row, col := w.Vx.CursorPosition()
				if !(row == -1 && col == -1) && (row < 0 || row >= 6 || col < 0 || col >= 20) {
					w.Failf("cursor-position", "CursorPosition returned %d,%d on a 20x6 terminal", row, col)
				}
				w.Vx.Resize()
				w.Vx.PostEventBlocking(schedrig.UserEv{Src: "Q", N: 0})
			})
		}
		w.Draw()
		for i := 0; i < 40 && done < 2; i++ {
			ev, ok := w.Next()
			if !ok {
				break
			}
			if u, isUser := ev.(schedrig.UserEv); isUser && u.Src == "Q" {
				done++
			}
		}
		if done < 2 {
			w.Failf("lost-event", "a querying goroutine never finished: %v", w.Got)
		}
		w.Close()
	}},
	{Name: "colour-query-unanswered", Queue: 8, Caps: refterm.CapRGB | refterm.CapSync | refterm.CapOSC11, Body: func(w *schedrig.World) {
		// the terminal answered OSC 11 at start-up (so the capability is on) and now stays silent
		w.Con.Mute = true
		_ = w.Vx.QueryBackground()
		w.Con.Mute = false
		w.Close()
	}},
	{Name: "colour-query-with-resize-report-ahead", Queue: 8, Hold: true, Caps: refterm.CapRGB | refterm.CapSync | refterm.CapOSC11 | refterm.CapSizeReports | refterm.CapInBandResize, Body: func(w *schedrig.World) {
		// a goroutine asks for the background colour while the main goroutine draws; the user is resizing the
		// window, so an in-band size report reaches the input ahead of the colour reply
		vsched.AddEnv("terminal-replies", true, func() bool { return len(w.Con.Held) > 0 }, func() {
			w.Con.Inject([]byte("\x1b[48;6;20;96;160t"))
			w.Con.Release()
		})
		vsched.GoNamed("q", func() {
			_ = w.Vx.QueryBackground()
			w.Vx.PostEventBlocking(schedrig.UserEv{Src: "Q", N: 0})
		})
		w.Draw()
		w.Until(func() bool { return w.Seen("Q0") })
		w.Con.Hold = false
		w.Con.Release()
		w.Close()
	}},
	{Name: "clipboard", Queue: 8, Hold: true, Body: func(w *schedrig.World) {
		vsched.AddEnv("terminal-replies", true, func() bool { return len(w.Con.Held) > 0 }, func() { w.Con.Release() })
		ctx, cancel := vctx.WithTimeout(vctx.Background(), 20*time.Millisecond)
		s, err := w.Vx.ClipboardPop(ctx)
		cancel()
		if err == nil && s != "hello" {
			w.Failf("clipboard", "ClipboardPop returned %q", s)
		}
		w.Con.Hold = false
		w.Con.Release()
		schedrig.TypeBytes(w, "z", "z")
		w.Until(func() bool { return w.Seen("key:z") })
		w.Close()
	}},
	{Name: "suspend-resume", Queue: 8, Body: func(w *schedrig.World) {
		schedrig.Poster(w, "A", 2)
		schedrig.TypeBytes(w, "k", "k")
		if err := w.Vx.Suspend(); err != nil {
			w.Failf("suspend", "Suspend: %v", err)
		}
		if err := w.Vx.Resume(); err != nil {
			w.Failf("resume", "Resume: %v", err)
		}
		w.Until(func() bool { return w.Seen("A2") })
		w.Order("A", 2)
		w.Close()
	}},
	{Name: "suspend-resume-in-band-resize", Queue: 8, Caps: refterm.CapRGB | refterm.CapSync | refterm.CapInBandResize | refterm.CapSizeReports, Body: func(w *schedrig.World) {
		// the same on a terminal that reports its size in band (Resume takes another path there): the final
		// Close stops the goroutines that Resume started and restores the terminal
		if err := w.Vx.Suspend(); err != nil {
			w.Failf("suspend", "Suspend: %v", err)
		}
		if err := w.Vx.Resume(); err != nil {
			w.Failf("resume", "Resume: %v", err)
		}
		schedrig.TypeBytes(w, "k", "k")
		w.Until(func() bool { return w.Seen("key:k") })
		w.Close()
	}},
	{Name: "suspend-with-escape", Queue: 8, Body: func(w *schedrig.World) {
		schedrig.TypeBytes(w, "esc", "\x1b")
		w.Vx.Suspend()
		w.Vx.Resume()
		schedrig.TypeBytes(w, "q", "q")
		// ESC directly followed by q is Alt+q
		w.Until(func() bool { return w.Seen("key:q") || w.Seen("key:Alt+q") })
		w.Close()
	}},
	{Name: "close-with-full-queue", Queue: 2, Body: func(w *schedrig.World) {
		schedrig.TypeBytes(w, "keys", "abcdefg")
		w.Until(func() bool { return w.Seen("key:a") })
		w.Close()
	}},
	{Name: "mixed-input-into-full-queue", Queue: 2, Body: func(w *schedrig.World) {
		// every kind of event the input handler posts, in one read, while the main goroutine is busy drawing and the
		// queue holds two: nothing may be dropped or reordered (a lost button release leaves a drag hanging)
		schedrig.TypeBytes(w, "burst", "\x1b[<0;1;1M\x1b[<32;2;1M\x1b[<0;2;1m\x1b[I\x1b[200~p\x1b[201~\x1b[O\x1b[?997;1nq")
		w.Draw()
		w.Until(func() bool { return w.Seen("key:q") })
		var in []string
		for _, g := range w.Got {
			if g != "redraw" && !strings.HasPrefix(g, "resize:") && g != "syncfunc" {
				in = append(in, g)
			}
		}
		want := []string{"mouse:0,0,b0,e0", "mouse:1,0,b0,e3", "mouse:1,0,b0,e2", "focus-in", "paste-start", "key:p", "paste-end", "focus-out", "color-theme:1", "key:q"}
		if fmt.Sprint(in) != fmt.Sprint(want) {
			w.Failf("lost-event", "terminal input in one read: delivered %v, want %v", in, want)
		}
		w.Close()
	}},
	{Name: "suspend-with-full-queue", Queue: 2, Body: func(w *schedrig.World) {
		schedrig.TypeBytes(w, "keys", "abcdefg")
		w.Until(func() bool { return w.Seen("key:a") })
		w.Vx.Suspend()
		w.Vx.Resume()
		w.Until(func() bool { return w.Seen("key:g") })
		w.Close()
	}},
	{Name: "sigterm", Queue: 8, Body: func(w *schedrig.World) {
		vsched.AddEnv("SIGTERM", true, func() bool { return true }, func() { vsignal.Deliver(syscall.SIGTERM) })
		schedrig.TypeBytes(w, "keys", "ab")
		schedrig.Poster(w, "A", 1)
		w.Draw()
		for i := 0; i < 40 && !w.Seen("quit"); i++ {
			if _, ok := w.Next(); !ok {
				break
			}
		}
		if !w.Seen("quit") {
			w.Failf("lost-event", "no QuitEvent after SIGTERM; seen: %v", w.Got)
		}
		w.Close()
	}},
	{Name: "spinner", Queue: 8, Body: func(w *schedrig.World) {
		sp := spinner.New(w.Vx, 100*time.Millisecond)
		sp.Start()
		redraws := 0
		for i := 0; i < 40 && redraws < 3; i++ {
			ev, ok := w.Next()
			if !ok {
				break
			}
			if _, isRedraw := ev.(vaxis.Redraw); isRedraw {
				redraws++
			}
			sp.Draw(w.Vx.Window())
		}
		stopSpinner(w, sp)
		w.Close()
	}},
	{Name: "spinner-with-full-queue", Queue: 2, Body: func(w *schedrig.World) {
		// the spinner ticks into a queue that other posters keep full while the application draws it
		sp := spinner.New(w.Vx, 100*time.Millisecond)
		sp.Start()
		schedrig.Poster(w, "A", 3)
		for i := 0; i < 40 && !(w.Seen("A3") && w.Seen("redraw")); i++ {
			if _, ok := w.Next(); !ok {
				break
			}
			sp.Draw(w.Vx.Window())
		}
		if !w.Seen("A3") {
			w.Failf("lost-event", "blocking posts not delivered: %v", w.Got)
		}
		stopSpinner(w, sp)
		w.Close()
	}},
	{Name: "spinner-start-stop-from-worker", Queue: 8, Body: func(w *schedrig.World) {
		// a worker starts the spinner and stops it again before the main goroutine has had a turn: both
		// requests reach the main goroutine, in order, and the spinner ends up stopped (its ticker
		// goroutine gone by the time Close returns)
		sp := spinner.New(w.Vx, 100*time.Millisecond)
		vsched.GoNamed("worker", func() {
			sp.Start()
			sp.Stop()
			w.Vx.PostEventBlocking(schedrig.UserEv{Src: "W", N: 0})
		})
		w.Until(func() bool { return w.Seen("W0") && count(w.Got, "syncfunc") >= 2 })
		sp.Draw(w.Vx.Window())
		w.Close()
	}},
	{Name: "spinner-stop-start-from-worker", Queue: 8, Body: func(w *schedrig.World) {
		// the mirror image: a running spinner is stopped and started again by a worker; it must be
		// running afterwards (ticks keep arriving)
		sp := spinner.New(w.Vx, 100*time.Millisecond)
		sp.Start()
		w.Until(func() bool { return count(w.Got, "syncfunc") >= 1 })
		vsched.GoNamed("worker", func() {
			sp.Stop()
			sp.Start()
			w.Vx.PostEventBlocking(schedrig.UserEv{Src: "W", N: 0})
		})
		w.Until(func() bool { return w.Seen("W0") && count(w.Got, "syncfunc") >= 3 })
		from := len(w.Got)
		w.Until(func() bool { return count(w.Got[from:], "redraw") > 0 })
		stopSpinner(w, sp)
		w.Close()
	}},
	{Name: "resize-request-while-rendering", Queue: 8, Body: func(w *schedrig.World) {
		// the terminal changes size and a worker goroutine asks for a resize while the main goroutine is inside an
		// ordinary Render: the request must survive that Render (the Resize event arrives, at the new size)
		vsched.GoNamed("resizer", func() {
			w.T.Resize(30, 8)
			w.Vx.Resize()
		})
		w.Draw()
		w.Until(func() bool { return w.Seen("resize:30x8") })
		w.Close()
	}},
	{Name: "sigwinch", Queue: 8, Body: func(w *schedrig.World) {
		vsched.AddEnv("SIGWINCH", true, func() bool { return true }, func() {
			w.T.Resize(30, 8)
			vsignal.Deliver(syscall.SIGWINCH)
		})
		schedrig.Poster(w, "A", 1)
		w.Until(func() bool { return w.Seen("A1") && w.Seen("resize:30x8") })
		w.Close()
	}},
}

func main() {
	schedrig.Main("C10", scenarios, "posting goroutines with a 2-slot and a 16-slot queue, SyncFunc, Resize, typed input, lone ESC around the timer, rendering against input, CursorPosition (once, twice, unanswered then F3) and ClipboardPop with replies early/late/never, a colour query that is never answered, cursor queries and resize requests from two goroutines while the main goroutine renders, Suspend/Resume plain / with ESC pending / with a full queue, Close with a full queue, SIGWINCH, SIGTERM, spinner widget (also ticking into a full queue)")
}
