// C10: concurrent use of a real Vaxis (input goroutine, parser, timers, posting
// goroutines, the main goroutine rendering, queries, Close/Suspend/Resume),
// decided by stateless exploration of thread schedules under the controlled
// scheduler. New runs under the canonical schedule (exploration window closed);
// the window opens when the scenario's threads start.
package main

import (
	"fmt"
	"os"
	"sort"
	"runtime/pprof"
	"strings"
	"syscall"
	"time"

	"git.sr.ht/~rockorager/vaxis"
	"git.sr.ht/~rockorager/vaxis/widgets/spinner"
	vctx "git.sr.ht/~rockorager/vaxis/verifshim/vctx"
	"git.sr.ht/~rockorager/vaxis/verifshim/vsched"
	vsignal "git.sr.ht/~rockorager/vaxis/verifshim/vsignal"
	vtime "git.sr.ht/~rockorager/vaxis/verifshim/vtime"
	"verif.local/mc/explore"
	"verif.local/mc/refterm"
	"verif.local/mc/schedcon"
)

var r *explore.Run

type userEv struct {
	Src string
	N   int
}

// world is the per-execution state a scenario works with.
type world struct {
	vx   *vaxis.Vaxis
	con  *schedcon.Console
	t    *refterm.Terminal
	got  []string // events seen by the main thread, rendered
	note []string // scenario observations
	fail string   // scenario-specific verdict: "clause: text"

	prof      refterm.Profile
	released  bool // the held terminal replies have been delivered
	atTimeout struct{ seen, released, handled bool }
}

func (w *world) failf(clause, format string, a ...any) {
	if w.fail == "" {
		w.fail = clause + "\x00" + fmt.Sprintf(format, a...)
	}
}

func render(ev vaxis.Event) string {
	switch e := ev.(type) {
	case userEv:
		return fmt.Sprintf("%s%d", e.Src, e.N)
	case vaxis.Key:
		return "key:" + e.String()
	case vaxis.SyncFunc:
		return "syncfunc"
	case vaxis.Redraw:
		return "redraw"
	case vaxis.Resize:
		return fmt.Sprintf("resize:%dx%d", e.Cols, e.Rows)
	case vaxis.QuitEvent:
		return "quit"
	case vaxis.FocusIn:
		return "focus-in"
	}
	return fmt.Sprintf("%T", ev)
}

// next receives one event in the main thread and gives it the standard treatment.
func (w *world) next() (vaxis.Event, bool) {
	ev, ok := <-vsched.Pre(w.vx.Events(), vsched.Recv)
	vsched.Post()
	if !ok {
		return nil, false
	}
	w.got = append(w.got, render(ev))
	switch e := ev.(type) {
	case vaxis.SyncFunc:
		e()
	case vaxis.Redraw, vaxis.Resize:
		w.draw()
	}
	return ev, true
}

func (w *world) draw() {
	win := w.vx.Window()
	win.Clear()
	win.Print(vaxis.Segment{Text: fmt.Sprintf("n=%d", len(w.got))})
	w.vx.Render()
}

// until consumes events until pred holds for the rendered history (max events guards against a runaway).
func (w *world) until(pred func() bool) {
	for i := 0; i < 60 && !pred(); i++ {
		if _, ok := w.next(); !ok {
			w.failf("queue-closed", "the event channel was closed while the application still waited for events")
			return
		}
	}
	if !pred() {
		w.failf("lost-event", "an expected event never arrived; seen: %v", w.got)
	}
}

func (w *world) checkCursor(row, col int) {
	tr, tc, _ := w.t.Cursor()
	if row == -1 && col == -1 && w.atTimeout.seen && w.atTimeout.released && w.atTimeout.handled {
		w.failf("query-timeout-despite-reply", "CursorPosition timed out although the terminal's report had arrived and been handled before the time-out (events seen: %v)", w.got)
	}
	w.atTimeout.seen = false
	if !(row == -1 && col == -1) && !(row == tr && col == tc) {
		w.failf("cursor-position", "CursorPosition returned %d,%d (the terminal's cursor is at %d,%d)", row, col, tr, tc)
	}
}

func (w *world) seen(s string) bool {
	for _, g := range w.got {
		if g == s {
			return true
		}
	}
	return false
}

// order checks that the events of one source were delivered in posting order.
func (w *world) order(src string, n int) {
	want := 1
	for _, g := range w.got {
		if strings.HasPrefix(g, src) {
			var k int
			fmt.Sscanf(g[len(src):], "%d", &k)
			if k != want {
				w.failf("post-order", "events of goroutine %s delivered as %v", src, w.got)
				return
			}
			want++
		}
	}
	if want != n+1 {
		w.failf("lost-event", "blocking posts of goroutine %s: %d of %d delivered (%v)", src, want-1, n, w.got)
	}
}

type scenario struct {
	name  string
	queue int
	caps  refterm.Cap
	hold  bool // terminal replies are held until released by an environment event
	body  func(w *world)
	final func(w *world) // after everything went quiet
}

func poster(w *world, src string, n int) {
	vsched.GoNamed("poster-"+src, func() {
		for i := 1; i <= n; i++ {
			w.vx.PostEventBlocking(userEv{src, i})
		}
	})
}

func typeBytes(w *world, name, b string) {
	vsched.AddEnv("input:"+name, true, func() bool { return true }, func() { w.con.Inject([]byte(b)) })
}

var scenarios = []scenario{
	{name: "posts", queue: 2, body: func(w *world) {
		poster(w, "A", 2)
		poster(w, "B", 2)
		vsched.GoNamed("sync", func() {
			w.vx.SyncFunc(func() { w.note = append(w.note, "syncfunc ran") })
			w.vx.Resize()
		})
		typeBytes(w, "x", "x")
		w.until(func() bool { return w.seen("A2") && w.seen("B2") })
		w.order("A", 2)
		w.order("B", 2)
		w.vx.Close()
	}},
	{name: "posts-wide-queue", queue: 16, body: func(w *world) {
		poster(w, "A", 3)
		poster(w, "B", 2)
		vsched.GoNamed("nb", func() {
			for i := 1; i <= 3; i++ {
				w.vx.PostEvent(userEv{"N", i})
			}
		})
		w.until(func() bool { return w.seen("A3") && w.seen("B2") && w.seen("N3") })
		w.order("A", 3)
		w.order("B", 2)
		w.order("N", 3) // the queue is never full here: nothing may be dropped
		w.vx.Close()
	}},
	{name: "escape-then-close", queue: 8, body: func(w *world) {
		typeBytes(w, "esc", "\x1b")
		poster(w, "A", 1)
		w.until(func() bool { return w.seen("A1") })
		w.vx.Close()
	}},
	{name: "escape-key", queue: 8, body: func(w *world) {
		typeBytes(w, "esc", "\x1b")
		w.until(func() bool { return w.seen("key:Escape") })
		typeBytes(w, "a", "a")
		w.until(func() bool { return w.seen("key:a") })
		w.vx.Close()
	}},
	{name: "render-vs-input", queue: 8, body: func(w *world) {
		typeBytes(w, "keys", "ab")
		typeBytes(w, "focus", "\x1b[I")
		vsched.GoNamed("resizer", func() { w.vx.Resize() })
		w.draw()
		w.until(func() bool { return w.seen("key:a") && w.seen("key:b") && w.seen("focus-in") && w.seen("redraw") })
		if i, j := indexOf(w.got, "key:a"), indexOf(w.got, "key:b"); i > j {
			w.failf("input-order", "terminal input delivered out of order: %v", w.got)
		}
		w.vx.Close()
	}},
	{name: "cursor-position", queue: 8, hold: true, body: func(w *world) {
		vsched.AddEnv("terminal-replies", true, func() bool { return len(w.con.Held) > 0 }, func() { w.con.Release(); w.released = true })
		poster(w, "A", 1)
		row, col := w.vx.CursorPosition()
		w.checkCursor(row, col)
		w.note = append(w.note, fmt.Sprintf("cursor=%d,%d", row, col))
		w.until(func() bool { return w.seen("A1") })
		w.con.Hold = false
		w.vx.Close()
	}},
	{name: "cursor-position-twice", queue: 8, hold: true, body: func(w *world) {
		vsched.AddEnv("terminal-replies", false, func() bool { return len(w.con.Held) > 0 }, func() { w.con.Release(); w.released = true })
		for i := 0; i < 2; i++ {
			w.released = false
			row, col := w.vx.CursorPosition()
			w.checkCursor(row, col)
		}
		w.con.Hold = false
		w.con.Release()
		w.vx.Close()
	}},
	{name: "cursor-position-unanswered-then-F3", queue: 8, caps: refterm.CapRGB | refterm.CapSync, body: func(w *world) {
		w.con.Mute = true
		row, col := w.vx.CursorPosition()
		w.con.Mute = false
		if row != -1 || col != -1 {
			w.failf("cursor-position", "CursorPosition returned %d,%d although the terminal never answered", row, col)
		}
		// Shift+F3 has the shape of a cursor position report
		typeBytes(w, "shift-f3", "\x1b[1;2R")
		typeBytes(w, "f3", "\x1b[R")
		w.until(func() bool { return w.seen("key:Shift+F3") && w.seen("key:F3") })
		w.vx.Close()
	}},
	{name: "clipboard", queue: 8, hold: true, body: func(w *world) {
		vsched.AddEnv("terminal-replies", true, func() bool { return len(w.con.Held) > 0 }, func() { w.con.Release() })
		ctx, cancel := vctx.WithTimeout(vctx.Background(), 20*time.Millisecond)
		s, err := w.vx.ClipboardPop(ctx)
		cancel()
		if err == nil && s != "hello" {
			w.failf("clipboard", "ClipboardPop returned %q", s)
		}
		w.con.Hold = false
		w.con.Release()
		typeBytes(w, "z", "z")
		w.until(func() bool { return w.seen("key:z") })
		w.vx.Close()
	}},
	{name: "suspend-resume", queue: 8, body: func(w *world) {
		poster(w, "A", 2)
		typeBytes(w, "k", "k")
		if err := w.vx.Suspend(); err != nil {
			w.failf("suspend", "Suspend: %v", err)
		}
		if err := w.vx.Resume(); err != nil {
			w.failf("resume", "Resume: %v", err)
		}
		w.until(func() bool { return w.seen("A2") })
		w.order("A", 2)
		w.vx.Close()
	}},
	{name: "suspend-with-escape", queue: 8, body: func(w *world) {
		typeBytes(w, "esc", "\x1b")
		w.vx.Suspend()
		w.vx.Resume()
		typeBytes(w, "q", "q")
		// ESC directly followed by q is Alt+q
		w.until(func() bool { return w.seen("key:q") || w.seen("key:Alt+q") })
		w.vx.Close()
	}},
	{name: "close-with-full-queue", queue: 2, body: func(w *world) {
		typeBytes(w, "keys", "abcdefg")
		w.until(func() bool { return w.seen("key:a") })
		w.vx.Close()
	}},
	{name: "suspend-with-full-queue", queue: 2, body: func(w *world) {
		typeBytes(w, "keys", "abcdefg")
		w.until(func() bool { return w.seen("key:a") })
		w.vx.Suspend()
		w.vx.Resume()
		w.until(func() bool { return w.seen("key:g") })
		w.vx.Close()
	}},
	{name: "sigterm", queue: 8, body: func(w *world) {
		vsched.AddEnv("SIGTERM", true, func() bool { return true }, func() { vsignal.Deliver(syscall.SIGTERM) })
		typeBytes(w, "keys", "ab")
		poster(w, "A", 1)
		w.draw()
		for i := 0; i < 40 && !w.seen("quit"); i++ {
			if _, ok := w.next(); !ok {
				break
			}
		}
		if !w.seen("quit") {
			w.failf("lost-event", "no QuitEvent after SIGTERM; seen: %v", w.got)
		}
		w.vx.Close()
	}},
	{name: "spinner", queue: 8, body: func(w *world) {
		sp := spinner.New(w.vx, 100*time.Millisecond)
		sp.Start()
		redraws := 0
		for i := 0; i < 40 && redraws < 3; i++ {
			ev, ok := w.next()
			if !ok {
				break
			}
			if _, isRedraw := ev.(vaxis.Redraw); isRedraw {
				redraws++
			}
			sp.Draw(w.vx.Window())
		}
		sp.Stop()
		w.until(func() bool { return w.got[len(w.got)-1] == "syncfunc" })
		w.vx.Close()
	}},
	{name: "sigwinch", queue: 8, body: func(w *world) {
		vsched.AddEnv("SIGWINCH", true, func() bool { return true }, func() {
			w.t.Resize(30, 8)
			vsignal.Deliver(syscall.SIGWINCH)
		})
		poster(w, "A", 1)
		w.until(func() bool { return w.seen("A1") && w.seen("resize:30x8") })
		w.vx.Close()
	}},
}

func diffTables(a, b map[string]string) map[string]string {
	d := map[string]string{}
	for k, v := range a {
		if b[k] != v {
			d[k] = fmt.Sprintf("%s -> %s", v, b[k])
		}
	}
	return d
}

func indexOf(l []string, s string) int {
	for i, x := range l {
		if x == s {
			return i
		}
	}
	return 1 << 30
}

// ---- one execution ----------------------------------------------------------------------------------------------------

func execute(sc *scenario, prefix []int) (*vsched.Result, *world) {
	vsignal.ResetAll()
	caps := sc.caps
	if caps == 0 {
		caps = refterm.CapRGB | refterm.CapSync | refterm.CapKittyKB
	}
	prof := refterm.DefaultProfile(caps, refterm.VersionOther)
	prof.ClipboardReply = "aGVsbG8="
	t := refterm.New(20, 6, prof)
	w := &world{t: t, con: schedcon.New(t), prof: prof}
	res := vsched.Run(prefix, 6000, func(s *vsched.Sched) {
		s.Closed = true
		s.Races = true
		s.OnEnv = func(e *vsched.Env) {
			if tm := e.Timer(); tm != nil && tm.D == 50*time.Millisecond {
				// what had happened by the time the query's time-out struck
				w.atTimeout.seen = true
				w.atTimeout.released = w.released
				w.atTimeout.handled = w.con.Idle() && vsched.OthersBlocked("") // everybody, the asking goroutine included, was waiting: the time-out struck in real silence
			}
		}
		s.TimerGate = func(tm *vtime.Timer) bool {
			if tm.D == 10*time.Millisecond && tm.IsFunc() {
				// the Escape timer can fire only while the parser waits for input
				return w.con.Idle()
			}
			return true
		}
	}, func() {
		vx, err := vaxis.New(vaxis.Options{WithConsole: w.con, EventQueueSize: sc.queue})
		if err != nil {
			w.failf("new", "New failed: %v", err)
			return
		}
		w.vx = vx
		// let the input goroutine handle the start-up replies that follow DA1
		w.con.Inject([]byte("\x1b[I"))
		w.until(func() bool { return w.seen("focus-in") })
		w.got = nil
		w.con.Hold = sc.hold
		vsched.Window(true)
		sc.body(w)
	})
	return res, w
}

type detail struct {
	Scenario string   `json:"scenario"`
	Fair     bool     `json:"fair_order"`
	Schedule []int    `json:"schedule"`
	Trace    []string `json:"trace,omitempty"`
	Events   []string `json:"events_seen,omitempty"`
	What     string   `json:"what"`
}

func check(sc *scenario, res *vsched.Result, w *world) (sig, what string) {
	switch {
	case res.Diverged != "":
		r.Fault("schedule diverged: %s (%s)", res.Diverged, sc.name)
	case len(res.Panics) > 0:
		p := res.Panics[0]
		return fmt.Sprintf("C10|panic|%s|%s", p.Site, explore.PanicClass(p.Value)), fmt.Sprintf("thread %s panicked: %s", p.Thread, p.Value)
	case res.Exceeded:
		return "C10|runaway|" + sc.name, "the execution did not finish within the step limit"
	case res.Deadlock != "":
		return "C10|deadlock|" + sc.name + "|" + blockedKinds(res.Deadlock), "no thread can run: " + res.Deadlock
	case w.fail != "":
		p := strings.SplitN(w.fail, "\x00", 2)
		return "C10|" + p[0] + "|" + sc.name, p[1]
	case len(res.Blocked) > 0:
		return "C10|goroutine-outlives-close|" + sc.name + "|" + blockedKinds(strings.Join(res.Blocked, "; ")), "still blocked after Close returned: " + strings.Join(res.Blocked, "; ")
	case w.con.Closes != 1:
		return "C10|console-close|" + sc.name, fmt.Sprintf("console closed %d times", w.con.Closes)
	case w.con.Resets < w.con.SetRaws:
		return "C10|still-raw|" + sc.name, fmt.Sprintf("console made raw %d times, reset %d times", w.con.SetRaws, w.con.Resets)
	}
	// whatever the interleaving, Close leaves the terminal as it was before New
	if d := diffTables(refterm.New(w.t.Cols, w.t.Rows, w.prof).ModeTable(), w.t.ModeTable()); len(d) > 0 {
		var keys []string
		for k := range d {
			keys = append(keys, k)
		}
		sort.Strings(keys)
		return "C10|not-restored|" + sc.name + "|" + strings.Join(keys, ","), fmt.Sprintf("terminal state after Close differs from the state before New: %v", d)
	}
	return "", ""
}

// blockedKinds abstracts a list of blocked threads to thread names (without ids).
func blockedKinds(s string) string {
	var out []string
	for _, p := range strings.Split(s, "; ") {
		n := strings.SplitN(p, ":", 2)[0]
		if strings.HasPrefix(n, "t") && len(n) > 1 && n[1] >= '0' && n[1] <= '9' {
			n = "library-goroutine"
		}
		dup := false
		for _, o := range out {
			if o == n {
				dup = true
			}
		}
		if !dup {
			out = append(out, n)
		}
	}
	return strings.Join(out, "+")
}

var lastWorld *world

func exploreScenario(sc *scenario, bound int, budget int64, shard, nshards int) {
	outcomes := map[string]bool{}
	n, capped := vsched.Explore(bound, budget, shard, nshards, func(prefix []int) *vsched.Result {
		res, w := execute(sc, prefix)
		lastWorld = w
		return res
	}, func(prefix []int, res *vsched.Result) {
		w := lastWorld
		r.Count("points", int64(len(res.Trace)))
		outcomes[strings.Join(w.got, ",")+"|"+strings.Join(w.note, ",")] = true
		for _, rc := range res.Races {
			var sched []int
			for _, p := range res.Trace {
				sched = append(sched, p.Chosen)
			}
			sig := fmt.Sprintf("C10|race|%s|%s~%s|%s|%s", rc.Field, rc.RootA, rc.RootB, rc.A, rc.B)
			// one call site, many fields: Close running on the input goroutine (kill signal, panic)
			for _, side := range [][2]string{{rc.RootA, rc.RootB}, {rc.RootB, rc.RootA}} {
				if side[0] == "Vaxis.Close@library-goroutine" {
					sig = fmt.Sprintf("C10|race|close-on-input-goroutine|%s|%s", side[1], rc.Field)
				}
			}
			r.Violation(sig, len(sched), detail{Scenario: sc.name, Fair: vsched.FairOrder, Schedule: sched, Events: w.got,
				What: fmt.Sprintf("data race on %s: [%s] (inside %s) and [%s] (inside %s) are not ordered by any synchronisation (r = read, w = write)", rc.Field, rc.A, rc.RootA, rc.B, rc.RootB)})
		}
		if sig, what := check(sc, res, w); sig != "" {
			var sched []int
			for _, p := range res.Trace {
				sched = append(sched, p.Chosen)
			}
			// run the schedule again with descriptions for the report
			vsched.Describe = true
			res2, w2 := execute(sc, sched)
			vsched.Describe = false
			if sig2, _ := check(sc, res2, w2); sig2 != sig {
				r.Fault("replaying a violating schedule gave %q instead of %q (scenario %s)", sig2, sig, sc.name)
			}
			var tr []string
			open := false
			for _, p := range res2.Trace {
				if !p.Fixed && !open {
					open = true
					tr = append(tr, "... (start-up under the canonical schedule)")
				}
				if open {
					tr = append(tr, p.Desc)
				}
			}
			r.Violation(sig, len(tr), detail{Scenario: sc.name, Fair: vsched.FairOrder, Schedule: sched, Trace: tr, Events: w.got, What: what})
		}
	})
	r.Count("executions", n)
	r.Count(fmt.Sprintf("exec:%s:%d", sc.name, bound), n)
	r.Count(fmt.Sprintf("outcomes:%s", sc.name), int64(len(outcomes)))
	if capped {
		r.Count(fmt.Sprintf("capped:%s:%d", sc.name, bound), 1)
	}
}

func main() {
	if os.Getenv("VERIF_BENCH") != "" {
		f, _ := os.Create(os.Getenv("VERIF_BENCH"))
		pprof.StartCPUProfile(f)
		t0 := time.Now()
		pts := 0
		for i := 0; i < 300; i++ {
			res, _ := execute(&scenarios[0], nil)
			pts = len(res.Trace)
		}
		pprof.StopCPUProfile()
		fmt.Println("per execution:", time.Since(t0)/300, "points:", pts)
		return
	}
	r = explore.Start("C10")
	vsched.DeviationCost = true
	if r.Replay != "" {
		var d detail
		r.LoadReplay(&d)
		for i := range scenarios {
			if scenarios[i].name == d.Scenario {
				vsched.Describe = true
				vsched.FairOrder = d.Fair
				res, w := execute(&scenarios[i], d.Schedule)
				for i, p := range res.Trace {
					if !p.Fixed {
						fmt.Printf("%4d  %-44s enabled=%v\n", i, p.Desc, p.Enabled)
					}
				}
				fmt.Println("events:", w.got, w.note)
				for _, rc := range res.Races {
					fmt.Printf("VIOLATION property=C10 replay=%s\n  data race on %s: [%s] / [%s]\n", r.Replay, rc.Field, rc.A, rc.B)
				}
				if len(res.Races) > 0 {
					os.Exit(1)
				}
				if sig, what := check(&scenarios[i], res, w); sig != "" {
					fmt.Printf("VIOLATION property=C10 replay=%s\n  %s: %s\n", r.Replay, sig, what)
					os.Exit(1)
				}
				fmt.Println("replay: property holds on this schedule")
				os.Exit(0)
			}
		}
		r.Fault("unknown scenario %q", d.Scenario)
	}
	// bounds explored completely / with an execution budget
	full := r.Pick(2, 3)
	top := r.Pick(2, 4)
	budget := int64(r.Pick(0, 1000000))
	if v := os.Getenv("VERIF_FULL"); v != "" {
		fmt.Sscan(v, &full)
	}
	if v := os.Getenv("VERIF_TOP"); v != "" {
		fmt.Sscan(v, &top)
	}
	if v := os.Getenv("VERIF_BUDGET"); v != "" {
		fmt.Sscan(v, &budget)
	}
	if idx, n, _, ok := r.Worker(); ok {
		r.Watchdog(300 * time.Second)
		for i := range scenarios {
			if only := os.Getenv("VERIF_ONLY"); only != "" && !strings.Contains(","+only+",", ","+scenarios[i].name+",") {
				continue
			}
			// two canonical orders (lowest thread id first / least recently run first):
			// the set of schedules within k deviations differs, both are explored
			for _, fair := range []bool{false, true} {
				vsched.FairOrder = fair
				exploreScenario(&scenarios[i], full, 0, idx, n)
				if top > full {
					exploreScenario(&scenarios[i], top, budget/int64(n), idx, n)
				}
			}
		}
		r.WorkerDone()
	}
	r.Spawn(16, "scenarios", 0)
	ex := r.Get("executions")
	perScenario := map[string]any{}
	cappedN := 0
	for i := range scenarios {
		name := scenarios[i].name
		m := map[string]any{
			fmt.Sprintf("executions_bound_%d_complete", full): r.Get(fmt.Sprintf("exec:%s:%d", name, full)),
			"distinct_outcomes_summed_over_shards":            r.Get("outcomes:" + name),
		}
		if top > full {
			m[fmt.Sprintf("executions_bound_%d", top)] = r.Get(fmt.Sprintf("exec:%s:%d", name, top))
			c := r.Get(fmt.Sprintf("capped:%s:%d", name, top)) > 0
			m[fmt.Sprintf("bound_%d_complete", top)] = !c
			if c {
				cappedN++
			}
		}
		perScenario[name] = m
		r.Distinct(explore.Hash(name))
	}
	if cappedN > 0 {
		r.CapHit("%d of %d scenarios reached the execution budget (%d) at deviation bound %d; deviation bound %d was explored completely for every scenario", cappedN, len(scenarios), budget, top, full)
	}
	r.Finish(explore.Coverage{
		States: -1, Transitions: r.Get("points"), Traces: ex, Evaluations: ex,
		Rule: fmt.Sprintf("stateless exploration of thread schedules of a real Vaxis on a scheduler-aware console backed by the reference terminal: %d scenarios (posting goroutines with a 2-slot and a 16-slot queue, SyncFunc, Resize, typed input, lone ESC around the timer, rendering against input, CursorPosition and ClipboardPop with replies early/late/never, Suspend/Resume, Close and Suspend with a full queue, SIGWINCH, SIGTERM, spinner widget); New runs under the canonical schedule, then every schedule with <=%d deviations completely (under two canonical orders: lowest thread id first and least recently run first) and with <=%d deviations up to an execution budget (a deviation is a preemption, or a timer/terminal reply/typed input/signal occurring while a thread could run; switches at blocking points are free). Oracle per execution: no panic, no deadlock, blocking posts all delivered and in posting order per goroutine, terminal input in order, query results correct or timed out, Close/Suspend/Resume return, no library goroutine left blocked after Close, console closed exactly once. distinct = scenarios", len(scenarios), full, top),
		Exhaustive: cappedN == 0,
		Bounds: map[string]any{"deviation_bound_complete": full, "deviation_bound_budgeted": top, "execution_budget_per_scenario": budget, "scenarios": len(scenarios),
			"scenarios_capped_at_top_bound": cappedN, "step_limit": 6000, "per_scenario": perScenario},
		Assumptions: []string{
			"scheduling points are the synchronisation operations (channels, select, close, mutexes, atomics, go, timers, console calls); plain memory accesses between them are atomic here - unsynchronised accesses are the subject of the free-running race-detector pass",
			"timers may fire at any scheduling point once armed, except the 10 ms Escape timer, which fires only while the parser waits for input",
		},
	})
}
