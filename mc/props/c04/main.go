// C04 – terminal state is restored on every exit path.
// Exhaustive sweep of the gating capability space (2^12 x 4 XTVERSION strings) x
// option sets x session shapes on the real Vaxis over the reference terminal;
// the terminal's mode table after shutdown is compared with the one before New.
package main

import (
	"fmt"
	"os"
	"sort"
	"strings"
	"sync"
	"syscall"
	"time"

	"git.sr.ht/~rockorager/vaxis"
	vsignal "git.sr.ht/~rockorager/vaxis/verifshim/vsignal"
	"verif.local/mc/explore"
	"verif.local/mc/refterm"
	"verif.local/mc/session"
)

var r *explore.Run

// middle operations
const (
	opFrame = iota
	opCursorFrame
	opMouseShape
	opAppID
	opSuspendResume
	opTitleNotify
	numMid
	// requests left pending (no frame follows) and cursor requests in the terminal's own style: used on
	// the covering set of profiles only
	opCursorPending = iota - 1
	opCursorDefaultFrame
	opMouseShapePending
	opHideCursorFrame
	numMidExt
)

var midNames = []string{"frame", "ShowCursor+frame", "SetMouseShape+frame", "SetAppID", "Suspend+Resume", "SetTitle",
	"ShowCursor(beam), no frame", "ShowCursor(default style)+frame", "SetMouseShape, no frame", "HideCursor+frame"}

// endings
const (
	endClose = iota
	endCloseClose
	endSuspend
	endSuspendClose
	endSignal
	numEnd
)

var endNames = []string{"Close", "Close,Close", "Suspend", "Suspend,Close", "SIGTERM"}

type shape struct {
	Mid []int
	End int
}

func (s shape) String() string {
	var parts []string
	parts = append(parts, "New")
	for _, m := range s.Mid {
		parts = append(parts, midNames[m])
	}
	parts = append(parts, endNames[s.End])
	return strings.Join(parts, " ")
}

func shapes(maxMid int) []shape { return shapesOver(maxMid, numMid) }

func shapesOver(maxMid, nOps int) []shape {
	var out []shape
	var rec func(prefix []int)
	rec = func(prefix []int) {
		for e := 0; e < numEnd; e++ {
			out = append(out, shape{Mid: append([]int(nil), prefix...), End: e})
		}
		if len(prefix) == maxMid {
			return
		}
		for m := 0; m < nOps; m++ {
			rec(append(prefix, m))
		}
	}
	rec(nil)
	return out
}

type detail struct {
	Profile string            `json:"profile"`
	Options string            `json:"options"`
	Session string            `json:"session"`
	Diff    map[string]string `json:"diff"`
	Why     string            `json:"why"`
}

func diffTables(a, b map[string]string) map[string]string {
	d := map[string]string{}
	for k, v := range a {
		if b[k] != v {
			d[k] = fmt.Sprintf("before=%s after=%s", v, b[k])
		}
	}
	return d
}

func diffKeys(d map[string]string) string {
	var ks []string
	for k := range d {
		ks = append(ks, k)
	}
	sort.Strings(ks)
	return strings.Join(ks, ",")
}

var hangMu sync.Mutex
var current string

func setCurrent(s string) {
	hangMu.Lock()
	current = s
	hangMu.Unlock()
}

// runSession executes one session and checks the oracle.
func runSession(prof refterm.Profile, opts vaxis.Options, sh shape) {
	optName := fmt.Sprintf("DisableMouse=%v DisableKittyKeyboard=%v", opts.DisableMouse, opts.DisableKittyKeyboard)
	if opts.ReportKeyboardEvents || opts.CSIuBitMask != 0 || opts.NoSignals {
		optName += fmt.Sprintf(" ReportKeyboardEvents=%v CSIuBitMask=%d NoSignals=%v", opts.ReportKeyboardEvents, opts.CSIuBitMask, opts.NoSignals)
	}
	setCurrent(prof.String() + " | " + optName + " | " + sh.String())
	r.Beat(func() (string, any) {
		hangMu.Lock()
		defer hangMu.Unlock()
		return "C04|hang|" + hangSig(sh), detail{Profile: prof.String(), Options: optName, Session: sh.String(), Why: "session did not complete within the watchdog period: " + current}
	})
	// the state before start-up
	t0 := refterm.New(3, 2, prof)
	before := t0.ModeTable()
	s, err := session.Open(prof, 3, 2, opts)
	if err != nil {
		r.Fault("open: %v", err)
	}
	vx := s.Vx
	var afterNew map[string]string
	s.Con.With(func(t *refterm.Terminal) { afterNew = t.ModeTable() })
	report := func(clause string, d map[string]string, why string) {
		sig := fmt.Sprintf("C04|%s|%s|%s", clause, diffKeys(d), endNames[sh.End])
		cost := len(sh.Mid)*100 + bitsSet(uint32(prof.Caps))
		r.Violation(sig, cost, detail{Profile: prof.String(), Options: optName, Session: sh.String(), Diff: d, Why: why})
	}
	frame := func() {
		win := vx.Window()
		win.Clear()
		win.SetCell(0, 0, vaxis.Cell{Character: vaxis.Character{Grapheme: "a", Width: 1},
			Style: vaxis.Style{Foreground: vaxis.RGBColor(1, 2, 3), Attribute: vaxis.AttrBold, UnderlineStyle: vaxis.UnderlineCurly, Hyperlink: "http://x"}})
		vx.Render()
	}
	for _, m := range sh.Mid {
		switch m {
		case opFrame:
			frame()
		case opCursorFrame:
			vx.ShowCursor(1, 1, vaxis.CursorBeamBlinking)
			frame()
		case opMouseShape:
			vx.SetMouseShape(vaxis.MouseShapeClickable)
			frame()
		case opCursorPending:
			vx.ShowCursor(1, 0, vaxis.CursorBeam)
		case opCursorDefaultFrame:
			vx.ShowCursor(0, 1, vaxis.CursorDefault)
			frame()
		case opMouseShapePending:
			vx.SetMouseShape(vaxis.MouseShapeTextInput)
		case opHideCursorFrame:
			vx.HideCursor()
			frame()
		case opAppID:
			vx.SetAppID("verif-app")
		case opTitleNotify:
			vx.SetTitle("t")
		case opSuspendResume:
			vx.Suspend()
			var mid map[string]string
			s.Con.With(func(t *refterm.Terminal) { mid = t.ModeTable() })
			if d := diffTables(before, mid); len(d) > 0 {
				report("suspend-not-restored", d, "terminal state after Suspend differs from the state before start-up")
				return
			}
			if s.Con.Raw() {
				report("suspend-raw", map[string]string{"raw": "still raw"}, "console still in raw mode after Suspend")
				return
			}
			if err := vx.Resume(); err != nil {
				r.Fault("resume: %v", err)
			}
			s.Barrier()
			var afterResume map[string]string
			s.Con.With(func(t *refterm.Terminal) { afterResume = t.ModeTable() })
			if d := diffTables(afterNew, afterResume); len(d) > 0 {
				report("resume-differs", d, "modes after Resume differ from the modes after New")
				return
			}
		}
	}
	switch sh.End {
	case endClose:
		vx.Close()
	case endCloseClose:
		vx.Close()
		vx.Close()
	case endSuspend:
		vx.Suspend()
	case endSuspendClose:
		vx.Suspend()
		vx.Close()
	case endSignal:
		if n := vsignal.Deliver(syscall.SIGTERM); n == 0 {
			// nobody listens: the library does not handle the termination signal in this state, the
			// process would die with the terminal as it is
			var now map[string]string
			s.Con.With(func(t *refterm.Terminal) { now = t.ModeTable() })
			d := diffTables(before, now)
			d["signal"] = "no handler registered for SIGTERM"
			report("not-restored|signal-ignored", d, "the termination signal is not handled (no handler registered): the terminal stays as the application left it")
			vx.Close()
			return
		}
		// the input goroutine runs Close; it ends with console.Close()
		s.Con.WaitClosed()
	}
	var after map[string]string
	s.Con.With(func(t *refterm.Terminal) { after = t.ModeTable() })
	if d := diffTables(before, after); len(d) > 0 {
		report("not-restored", d, "terminal state after shutdown differs from the state before start-up")
		return
	}
	if s.Con.Raw() {
		report("raw", map[string]string{"raw": "still raw"}, "console still in raw mode after shutdown")
		return
	}
	r.Count("sessions", 1)
}

func hangSig(sh shape) string {
	return endNames[sh.End]
}

func bitsSet(v uint32) int {
	n := 0
	for ; v != 0; v &= v - 1 {
		n++
	}
	return n
}

func profileOf(i int) refterm.Profile {
	caps := refterm.Cap(i & (1<<refterm.NumGatingCaps - 1))
	ver := refterm.Version(i >> refterm.NumGatingCaps & 3)
	p := refterm.DefaultProfile(caps, ver)
	return p
}

// covering set: profiles such that every pair of gating bits occurs in all four combinations
func coveringSet() []int {
	var out []int
	n := refterm.NumGatingCaps
	// rows of a simple pairwise covering construction: all-zero, all-one, and for each bit of
	// the index the pattern and its complement
	out = append(out, 0, 1<<n-1)
	for b := 0; (1 << b) < n+1; b++ {
		v := 0
		for i := 0; i < n; i++ {
			if (i+1)>>b&1 == 1 {
				v |= 1 << i
			}
		}
		out = append(out, v, (1<<n-1)^v)
	}
	var res []int
	for _, v := range out {
		for ver := 0; ver < 4; ver++ {
			res = append(res, v|ver<<n)
		}
	}
	return res
}

var extraOptSets = []vaxis.Options{{ReportKeyboardEvents: true}, {CSIuBitMask: vaxis.CSIuDisambiguate}, {CSIuBitMask: vaxis.CSIuDisambiguate | vaxis.CSIuAlternateKeys},
	{CSIuBitMask: vaxis.CSIuDisambiguate | vaxis.CSIuReportEvents | vaxis.CSIuAlternateKeys | vaxis.CSIuAllKeys | vaxis.CSIuAssociatedText}, {NoSignals: true}, {NoSignals: true, DisableMouse: true, ReportKeyboardEvents: true}}

func main() {
	r = explore.Start("C04")
	nProf := 1 << (refterm.NumGatingCaps + 2)
	optSets := []vaxis.Options{{}, {DisableMouse: true}, {DisableKittyKeyboard: true}, {DisableMouse: true, DisableKittyKeyboard: true}}
	allShapes := shapes(r.Pick(1, 2))
	deepShapes := shapesOver(r.Pick(2, 3), numMidExt)
	if r.Replay != "" {
		r.ReplayBySearch()
	}
	if idx, n, arg, ok := r.Worker(); ok {
		_ = arg
		r.Watchdog(30 * time.Second)
		k := 0
		// all of G x option sets x the five endings; plus, per profile, one-operation
		// sessions (quick: one option set, rotating; thorough: all option sets)
		for i := 0; i < nProf; i++ {
			for oi, o := range optSets {
				k++
				if k%n != idx {
					continue
				}
				prof := profileOf(i)
				if oi == 1 {
					// vary the initial state too
					prof.Caps |= refterm.CapDECRQSS
					prof.UserCursorStyle = 1 + i%6 // every style a terminal can report, rotating over the profiles
					prof.AppID = ""                // the terminal had no application id before
				}
				if oi == 2 {
					// a terminal whose size reports (the in-band one among them) carry no pixel sizes
					prof.CellW, prof.CellH = 0, 0
				}
				if oi == 3 {
					// positive XTGETTCAP answers with the name only, absent modes answered with status 4
					prof.TcapNameOnly = true
					prof.AbsentModeReply = 4
				}
				for _, sh := range allShapes {
					if len(sh.Mid) > 0 && !r.Thorough() {
						// quick: one option set per profile (rotating) and, per middle
						// operation, Close plus one rotating other ending
						if i%len(optSets) != oi || !(sh.End == endClose || (i+sh.Mid[0])%numEnd == sh.End) {
							continue
						}
					}
					runSession(prof, o, sh)
				}
				r.Distinct(explore.Hash("p", fmt.Sprint(i, oi)))
				if k%4001 == idx {
					r.Sample(map[string]any{"profile": prof.String(), "options": fmt.Sprintf("%+v", o), "session_shapes": len(allShapes)})
				}
			}
		}
		// covering set x deep shapes; reporting capabilities on
		for _, i := range coveringSet() {
			for oi, o := range optSets {
				k++
				if k%n != idx {
					continue
				}
				prof := profileOf(i)
				prof.Caps |= refterm.CapOSC4 | refterm.CapOSC10 | refterm.CapOSC11 | refterm.CapKittyGraphics | refterm.CapSizeReports
				if oi%2 == 0 {
					prof.Caps |= refterm.CapDECRQSS
					prof.UserCursorStyle = 1 + (i+2)%6
				}
				for _, sh := range deepShapes {
					runSession(prof, o, sh)
				}
				r.Distinct(explore.Hash("c", fmt.Sprint(i, oi)))
			}
		}
		// the remaining options that change what start-up establishes (keyboard level requested,
		// signal handlers): covering set x all shapes
		for _, i := range coveringSet() {
			for oi, o := range extraOptSets {
				k++
				if k%n != idx {
					continue
				}
				prof := profileOf(i)
				if oi%2 == 1 {
					prof.Caps |= refterm.CapDECRQSS
					prof.UserCursorStyle = 6 - i%6
				}
				for _, sh := range allShapes {
					if sh.End == endSignal && o.NoSignals {
						continue // no handler installed: the signal is not the library's to handle
					}
					runSession(prof, o, sh)
				}
				r.Distinct(explore.Hash("x", fmt.Sprint(i, oi)))
			}
		}
		r.WorkerDone()
	}
	_ = os.Getenv
	r.Spawn(16, "sweep", 0)
	n := r.Get("sessions")
	r.Finish(explore.Coverage{
		States: -1, Transitions: n, Traces: n, Evaluations: n,
		Rule:       "every profile of the gating capability space (2^12 capability subsets x 4 XTVERSION strings) x {DisableMouse} x {DisableKittyKeyboard} (the four option sets also vary the terminal: reported cursor style (rotating over 1..6) and an empty prior application id, size reports without pixel sizes, name-only XTGETTCAP answers and DECRPM status 4) x every session New mid* end with |mid|<=bound over {frame, ShowCursor+frame, SetMouseShape+frame, SetAppID, Suspend+Resume, SetTitle} and end in {Close, Close Close, Suspend, Suspend Close, SIGTERM at a quiescent point}; deeper sessions on a pairwise-covering set of profiles with the reporting capabilities on, over four more middle operations (ShowCursor and SetMouseShape left pending without a frame, ShowCursor in the terminal's own style + frame, HideCursor + frame); on the same covering set every session of the first family under six further option sets (ReportKeyboardEvents, three CSIuBitMask values, NoSignals, NoSignals+DisableMouse+ReportKeyboardEvents; no SIGTERM ending without handlers); distinct = (profile, option set) pairs whose sessions all passed",
		Exhaustive: true,
		Bounds:     map[string]any{"profiles": nProf, "option_sets": len(optSets), "shapes_all_profiles": len(allShapes), "shapes_covering_set": len(deepShapes), "covering_profiles": len(coveringSet())},
		Assumptions: []string{
			"initial terminal state = xterm defaults, pointer shape 'text', empty kitty keyboard stack; the user's cursor style is non-default only on terminals that can report it (DECRQSS)",
			"signal and panic exit paths at non-quiescent points are explored by the scheduler-based harness, not here",
		},
	})
}
