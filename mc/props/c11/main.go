// C11 – windows clip: drawing never escapes a window or its ancestors.
// Bounded-exhaustive over window chains (New and struct literals, negative /
// zero / oversized offsets and sizes), all coordinates, and all short strings
// over {a, 世, e+U+0301, SP, TAB, LF}; what changed is observed through the
// reference terminal after a Render.
package main

import (
	"fmt"
	"strings"
	"time"

	"git.sr.ht/~rockorager/vaxis"
	"verif.local/mc/explore"
	"verif.local/mc/refterm"
	"verif.local/mc/session"
)

var r *explore.Run

const (
	scrW = 4
	scrH = 3
)

type geom struct{ Col, Row, W, H int }

type winSpec struct {
	G       geom
	Literal bool
}

func (w winSpec) String() string {
	k := "New"
	if w.Literal {
		k = "Window{}"
	}
	return fmt.Sprintf("%s(%d,%d,%d,%d)", k, w.G.Col, w.G.Row, w.G.W, w.G.H)
}

type detail struct {
	Chain []string `json:"chain"`
	Call  string   `json:"call"`
	Why   string   `json:"why"`
}

type rect struct{ x0, y0, x1, y1 int } // half-open

func (a rect) inter(b rect) rect {
	if b.x0 > a.x0 {
		a.x0 = b.x0
	}
	if b.y0 > a.y0 {
		a.y0 = b.y0
	}
	if b.x1 < a.x1 {
		a.x1 = b.x1
	}
	if b.y1 < a.y1 {
		a.y1 = b.y1
	}
	return a
}
func (a rect) has(x, y int) bool { return x >= a.x0 && x < a.x1 && y >= a.y0 && y < a.y1 }

type world struct {
	s     *session.Session
	dirty bool // the terminal may be out of step with the library: resynchronise before the next case
}

var marker = vaxis.Cell{Character: vaxis.Character{Grapheme: "·", Width: 1}}

// build constructs the chain on the real API and returns the window, its absolute
// origin and the clip rectangle computed from the requested geometry (reference clamp below).
func (w *world) build(chain []winSpec) (vaxis.Window, int, int, rect, []*vaxis.Window) {
	root := w.s.Vx.Window()
	clip := rect{0, 0, scrW, scrH}
	ox, oy := 0, 0
	cur := root
	// the size a child is entitled to is computed here, not read back from the window: New
	// gives the requested size, or what is left of the parent from the offset when the request
	// is negative or sticks out
	pw, ph := scrW, scrH
	var keep []*vaxis.Window
	for _, ws := range chain {
		parent := cur
		keep = append(keep, &parent)
		var nw vaxis.Window
		cw, chh := ws.G.W, ws.G.H
		if ws.Literal {
			nw = vaxis.Window{Vx: w.s.Vx, Parent: &parent, Column: ws.G.Col, Row: ws.G.Row, Width: ws.G.W, Height: ws.G.H}
		} else {
			nw = parent.New(ws.G.Col, ws.G.Row, ws.G.W, ws.G.H)
			if cw < 0 || ws.G.Col+cw > pw {
				cw = pw - ws.G.Col
			}
			if chh < 0 || ws.G.Row+chh > ph {
				chh = ph - ws.G.Row
			}
		}
		ox += ws.G.Col
		oy += ws.G.Row
		clip = clip.inter(rect{ox, oy, ox + cw, oy + chh})
		pw, ph = cw, chh
		cur = nw
	}
	return cur, ox, oy, clip, keep
}

// resetScreen puts marker cells everywhere and resynchronises the terminal
// completely (a previous case may have left it in an undefined state, e.g. after
// a wide glyph in the terminal's last column).
func (w *world) resetScreen() {
	w.s.Vx.Window().Fill(marker)
	if w.dirty {
		w.s.Vx.Refresh()
		w.s.Con.With(func(t *refterm.Terminal) { t.UB = nil })
		w.dirty = false
	}
}

func (w *world) grid() [][]refterm.Cell {
	var out [][]refterm.Cell
	w.s.Con.With(func(t *refterm.Terminal) {
		for _, row := range t.Grid() {
			out = append(out, append([]refterm.Cell(nil), row...))
		}
	})
	return out
}

func chainStrings(chain []winSpec) []string {
	var s []string
	for _, c := range chain {
		s = append(s, c.String())
	}
	return s
}

func geomClass(chain []winSpec) string {
	// stable, coarse description for signatures
	neg, over := false, false
	for _, c := range chain {
		if c.G.Col < 0 || c.G.Row < 0 {
			neg = true
		}
		if c.G.W > scrW || c.G.H > scrH || c.G.W < 0 || c.G.H < 0 {
			over = true
		}
	}
	return fmt.Sprintf("depth=%d,negoff=%v,oddsize=%v", len(chain), neg, over)
}

func coordRune(i int) string { return string(rune(0x100 + i)) }

const (
	cMin, cMax = -2, 6
	rMin, rMax = -2, 5
)

var wideCounter int

// freshWide returns a wide glyph not used before in this process (CJK ideographs, then Hangul syllables).
func freshWide() string {
	n := wideCounter % (20902 + 11172)
	wideCounter++
	if n < 20902 {
		return string(rune(0x4E00 + n))
	}
	return string(rune(0xAC00 + n - 20902))
}

// cellCalls: SetCell / SetStyle at every coordinate, Fill, Clear.
func (w *world) cellCalls(chain []winSpec) {
	bad := func(call, clause, why string) {
		w.dirty = true
		r.Violation("C11|"+call+"|"+clause+"|"+geomClass(chain), len(chain)*100+len(why)%50, detail{Chain: chainStrings(chain), Call: call, Why: why})
	}
	// --- SetCell at every coordinate, each with its own grapheme
	w.resetScreen()
	win, ox, oy, clip, _ := w.build(chain)
	idx := 0
	type req struct{ c, r int }
	var reqs []req
	for rr := rMin; rr <= rMax; rr++ {
		for cc := cMin; cc <= cMax; cc++ {
			win.SetCell(cc, rr, vaxis.Cell{Character: vaxis.Character{Grapheme: coordRune(idx), Width: 1}})
			reqs = append(reqs, req{cc, rr})
			idx++
		}
	}
	w.s.Vx.Render()
	r.Count("renders", 1)
	g := w.grid()
	landed := map[int]bool{}
	for y := 0; y < scrH; y++ {
		for x := 0; x < scrW; x++ {
			t := g[y][x].Text
			if t == "·" {
				continue
			}
			rs := []rune(t)
			if len(rs) != 1 || rs[0] < 0x100 || int(rs[0])-0x100 >= len(reqs) {
				bad("SetCell", "garbage", fmt.Sprintf("screen cell (%d,%d) shows %q", x, y, t))
				return
			}
			i := int(rs[0]) - 0x100
			q := reqs[i]
			landed[i] = true
			if !clip.has(x, y) {
				bad("SetCell", "escaped", fmt.Sprintf("SetCell(%d,%d) changed screen cell (%d,%d), outside the clip rectangle %v", q.c, q.r, x, y, clip))
				return
			}
			if x != ox+q.c || y != oy+q.r {
				bad("SetCell", "misplaced", fmt.Sprintf("SetCell(%d,%d) landed at (%d,%d), origin (%d,%d)", q.c, q.r, x, y, ox, oy))
				return
			}
		}
	}
	for i, q := range reqs {
		inside := q.c >= 0 && q.r >= 0 && q.c < win.Width && q.r < win.Height && clip.has(ox+q.c, oy+q.r)
		if inside && !landed[i] {
			bad("SetCell", "dropped", fmt.Sprintf("SetCell(%d,%d) is inside the window and its ancestors but nothing was drawn at (%d,%d)", q.c, q.r, ox+q.c, oy+q.r))
			return
		}
	}
	// --- SetStyle at every coordinate, each with its own colour
	w.resetScreen()
	win, ox, oy, clip, _ = w.build(chain)
	idx = 0
	for rr := rMin; rr <= rMax; rr++ {
		for cc := cMin; cc <= cMax; cc++ {
			win.SetStyle(cc, rr, vaxis.Style{Foreground: vaxis.IndexColor(uint8(16 + idx))})
			idx++
		}
	}
	w.s.Vx.Render()
	r.Count("renders", 1)
	g = w.grid()
	for y := 0; y < scrH; y++ {
		for x := 0; x < scrW; x++ {
			c := g[y][x]
			if c.Text != "·" {
				bad("SetStyle", "text-changed", fmt.Sprintf("screen cell (%d,%d) shows %q", x, y, c.Text))
				return
			}
			inside := clip.has(x, y)
			if c.Style.Fg.Kind == 0 {
				if inside {
					qc, qr := x-ox, y-oy
					if qc >= cMin && qc <= cMax && qr >= rMin && qr <= rMax && qc >= 0 && qr >= 0 && qc < win.Width && qr < win.Height {
						bad("SetStyle", "dropped", fmt.Sprintf("SetStyle(%d,%d) inside the window changed nothing at (%d,%d)", qc, qr, x, y))
						return
					}
				}
				continue
			}
			i := int(c.Style.Fg.V) - 16
			q := reqs[i]
			if !inside {
				bad("SetStyle", "escaped", fmt.Sprintf("SetStyle(%d,%d) changed screen cell (%d,%d), outside the clip rectangle %v", q.c, q.r, x, y, clip))
				return
			}
			if x != ox+q.c || y != oy+q.r {
				bad("SetStyle", "misplaced", fmt.Sprintf("SetStyle(%d,%d) landed at (%d,%d), origin (%d,%d)", q.c, q.r, x, y, ox, oy))
				return
			}
		}
	}
	// --- SetStyle over a background of wide glyphs (drawn through the root window in an earlier frame), in the
	// two alignments: a window edge may cut a glyph in half, and styling the half inside must not reach the half outside
	if len(chain) <= 2 {
		for align := 0; align < 2; align++ {
			w.resetScreen()
			root := w.s.Vx.Window()
			lead := map[[2]int]bool{}
			for y := 0; y < scrH; y++ {
				for x := align; x+1 < scrW; x += 2 {
					root.SetCell(x, y, vaxis.Cell{Character: vaxis.Character{Grapheme: "世", Width: 2}})
					lead[[2]int{x, y}] = true
				}
			}
			w.s.Vx.Render()
			win, ox, oy, clip, _ = w.build(chain)
			idx = 0
			for rr := rMin; rr <= rMax; rr++ {
				for cc := cMin; cc <= cMax; cc++ {
					win.SetStyle(cc, rr, vaxis.Style{Foreground: vaxis.IndexColor(uint8(16 + idx))})
					idx++
				}
			}
			w.s.Vx.Render()
			r.Count("renders", 2)
			g = w.grid()
			w.dirty = true
			for y := 0; y < scrH; y++ {
				for x := 0; x < scrW; x++ {
					if x > 0 && lead[[2]int{x - 1, y}] {
						continue // the second half of a glyph: shown with the first half's style
					}
					c := g[y][x]
					if c.Style.Fg.Kind == 0 {
						continue
					}
					i := int(c.Style.Fg.V) - 16
					if i < 0 || i >= len(reqs) {
						bad("SetStyle", "wide-background|garbage", fmt.Sprintf("screen cell (%d,%d) has foreground %v", x, y, c.Style.Fg))
						return
					}
					q := reqs[i]
					if !clip.has(x, y) {
						bad("SetStyle", "wide-background|escaped", fmt.Sprintf("SetStyle(%d,%d) changed screen cell (%d,%d) (a wide glyph starts there), outside the clip rectangle %v", q.c, q.r, x, y, clip))
						return
					}
					if x != ox+q.c || y != oy+q.r {
						bad("SetStyle", "wide-background|misplaced", fmt.Sprintf("SetStyle(%d,%d) landed at (%d,%d), origin (%d,%d)", q.c, q.r, x, y, ox, oy))
						return
					}
				}
			}
		}
	}
	// --- SetCell at every coordinate / Clear / Fill over the same background of wide glyphs: a glyph that starts outside
	// the clip rectangle stays what it was, also when the window's edge cuts it in half and its other half is overwritten
	if len(chain) <= 2 {
		for align := 0; align < 2; align++ {
			for fam := 0; fam < 3; fam++ {
				w.resetScreen()
				root := w.s.Vx.Window()
				var leads [][2]int
				for y := 0; y < scrH; y++ {
					for x := align; x+1 < scrW; x += 2 {
						root.SetCell(x, y, vaxis.Cell{Character: vaxis.Character{Grapheme: "世", Width: 2}})
						leads = append(leads, [2]int{x, y})
					}
				}
				w.s.Vx.Render()
				win, _, _, clip, _ = w.build(chain)
				name := "SetCell"
				switch fam {
				case 0:
					for rr := rMin; rr <= rMax; rr++ {
						for cc := cMin; cc <= cMax; cc++ {
							win.SetCell(cc, rr, vaxis.Cell{Character: vaxis.Character{Grapheme: "x", Width: 1}})
						}
					}
				case 1:
					name = "Clear"
					win.Clear()
				case 2:
					name = "Fill"
					win.Fill(vaxis.Cell{Character: vaxis.Character{Grapheme: "f", Width: 1}})
				}
				w.s.Vx.Render()
				r.Count("renders", 2)
				g = w.grid()
				w.dirty = true
				for _, l := range leads {
					x, y := l[0], l[1]
					if clip.has(x, y) {
						continue
					}
					if c := g[y][x]; c.Text != "世" || c.Width != 2 {
						bad(name, "wide-background|escaped", fmt.Sprintf("%s on the window changed screen cell (%d,%d), where a wide glyph starts outside the clip rectangle %v: it shows %q (width %d)", name, x, y, clip, c.Text, c.Width))
						return
					}
				}
			}
		}
	}
	// --- SetCell with a wide cell (explicit and auto-measured width) at every coordinate, one at a time
	// the third one is four columns wide on this terminal (an emoji with a skin-tone modifier, measured rune by
	// rune): "wide" does not mean two columns
	wides := []vaxis.Cell{{Character: vaxis.Character{Grapheme: "世", Width: 2}}, {Character: vaxis.Character{Grapheme: "\U0001F44D\U0001F3FD", Width: 4}}, {Character: vaxis.Character{Grapheme: "世", Width: 0}}}
	if !r.Thorough() && len(chain) > 1 {
		wides = wides[:2]
	}
	for _, wc := range wides {
		for rr := 0; rr <= 1; rr++ {
			for cc := cMin; cc <= cMax; cc++ {
				w.resetScreen()
				win, ox, oy, clip, _ = w.build(chain)
				ww := wc.Width
				if wc.Width == 0 {
					// a glyph this Vaxis has not met before: its width is not in any cache yet
					wc.Grapheme = freshWide()
					ww = 2
				}
				win.SetCell(cc, rr, wc)
				w.s.Vx.Render()
				r.Count("renders", 1)
				var ub []string
				w.s.Con.With(func(t *refterm.Terminal) { ub = t.UB; t.UB = nil })
				g = w.grid()
				w.dirty = len(ub) > 0
				if len(ub) > 0 {
					bad("SetCell-wide", "escaped", fmt.Sprintf("SetCell(%d,%d,wide/%d): %s", cc, rr, wc.Width, ub[0]))
					return
				}
				for y := 0; y < scrH; y++ {
					for x := 0; x < scrW; x++ {
						c := g[y][x]
						if c.Text == "·" && c.Width == 1 && !c.Poison {
							continue
						}
						if !clip.has(x, y) {
							bad("SetCell-wide", "escaped", fmt.Sprintf("SetCell(%d,%d,wide/%d) changed screen cell (%d,%d) outside the clip rectangle %v", cc, rr, wc.Width, x, y, clip))
							return
						}
						if c.Width == 2 && (y != oy+rr || x < ox+cc || x >= ox+cc+ww || (x-ox-cc)%2 != 0) {
							bad("SetCell-wide", "misplaced", fmt.Sprintf("SetCell(%d,%d,wide/%d) landed at (%d,%d)", cc, rr, ww, x, y))
							return
						}
					}
				}
				if cc >= 0 && rr >= 0 && cc+ww <= win.Width && rr < win.Height && clip.has(ox+cc, oy+rr) && clip.has(ox+cc+ww-1, oy+rr) && !(g[oy+rr][ox+cc].Text != "" && strings.HasPrefix(wc.Grapheme, g[oy+rr][ox+cc].Text)) {
					bad("SetCell-wide", "dropped", fmt.Sprintf("SetCell(%d,%d,wide) fits but was not drawn", cc, rr))
					return
				}
			}
		}
	}
	// --- Fill and Clear
	for _, call := range []string{"Fill", "Clear"} {
		w.resetScreen()
		win, _, _, clip, _ = w.build(chain)
		want := "F"
		if call == "Fill" {
			win.Fill(vaxis.Cell{Character: vaxis.Character{Grapheme: "F", Width: 1}})
		} else {
			win.Clear()
			want = " "
		}
		w.s.Vx.Render()
		r.Count("renders", 1)
		g = w.grid()
		for y := 0; y < scrH; y++ {
			for x := 0; x < scrW; x++ {
				t := g[y][x].Text
				switch {
				case clip.has(x, y) && t != want:
					bad(call, "dropped", fmt.Sprintf("cell (%d,%d) inside the clip rectangle %v shows %q", x, y, clip, t))
					return
				case !clip.has(x, y) && t != "·":
					bad(call, "escaped", fmt.Sprintf("cell (%d,%d) outside the clip rectangle %v shows %q", x, y, clip, t))
					return
				}
			}
		}
	}
	r.Distinct(explore.Hash("cells", fmt.Sprint(chain)))
}

// ---- text helpers ------------------------------------------------------------------------

var textAlphabet = []string{"a", "世", "e\u0301", " ", "\t", "\n"}
var textNames = []string{"a", "世", "é", "SP", "TAB", "LF"}

type cluster struct {
	g      string
	w      int
	lfPrev bool // a line feed precedes this cluster in the input
}

// clusters of the input as the library's Characters() defines them (TAB = 8 spaces), LF removed
func clustersOf(s string) []cluster {
	var out []cluster
	lf := false
	for _, c := range vaxis.Characters(s) {
		if c.Grapheme == "\n" {
			lf = true
			continue
		}
		w := 1
		if c.Grapheme == "世" {
			w = 2
		}
		out = append(out, cluster{g: c.Grapheme, w: w, lfPrev: lf})
		lf = false
	}
	return out
}

type placed struct {
	x, y int
	g    string
	w    int
}

func (w *world) textCalls(chain []winSpec, s string, name string) {
	helpers := []string{"Print", "Wrap", "PrintTruncate", "Println"}
	in := clustersOf(s)
	for _, h := range helpers {
		rows := []int{0}
		if h == "PrintTruncate" || h == "Println" {
			rows = []int{-1, 0, 1, 2, 3, 4}
		}
		if (h == "PrintTruncate" || h == "Println") && strings.Contains(s, "\n") {
			continue // a line feed inside a single-line helper is not defined by the property
		}
		// the same text as one segment and as one segment per cluster: a
		// helper must not treat a segment boundary as a fresh start
		forms := 1
		if len(in) >= 2 && h != "PrintTruncate" {
			forms = 2
		}
		for fi := 0; fi < forms*len(rows); fi++ {
			rowArg := rows[fi%len(rows)]
			w.resetScreen()
			win, ox, oy, clip, _ := w.build(chain)
			segs := []vaxis.Segment{{Text: s}}
			call := fmt.Sprintf("%s(%s)", h, name)
			if fi >= len(rows) {
				segs = nil
				for _, ru := range s {
					if ru == 0x301 && len(segs) > 0 {
						segs[len(segs)-1].Text += string(ru)
						continue
					}
					segs = append(segs, vaxis.Segment{Text: string(ru)})
				}
				call = fmt.Sprintf("%s(%s as %d segments)", h, name, len(segs))
			}
			switch h {
			case "Print":
				win.Print(segs...)
			case "Wrap":
				win.Wrap(segs...)
			case "PrintTruncate":
				win.PrintTruncate(rowArg, segs[0])
				call = fmt.Sprintf("PrintTruncate(%d,%s)", rowArg, name)
			case "Println":
				win.Println(rowArg, segs...)
				call = fmt.Sprintf("Println(%d,%s)", rowArg, call)
			}
			w.s.Vx.Render()
			r.Count("renders", 1)
			bad := func(clause, why string) {
				w.dirty = true
				r.Violation("C11|"+h+"|"+clause+"|"+geomClass(chain), len(chain)*1000+len(s)*10, detail{Chain: chainStrings(chain), Call: call, Why: why})
			}
			var ub []string
			w.s.Con.With(func(t *refterm.Terminal) { ub = t.UB; t.UB = nil })
			g := w.grid()
			w.dirty = len(ub) > 0
			// containment
			var seq []placed
			escaped := false
			for y := 0; y < scrH && !escaped; y++ {
				for x := 0; x < scrW; x++ {
					c := g[y][x]
					if c.Text == "·" && !c.Poison && c.Width == 1 {
						continue
					}
					if !clip.has(x, y) {
						edge := "ancestor-edge"
						if !(rect{ox, oy, ox + win.Width, oy + win.Height}).has(x, y) {
							edge = "own-edge"
						}
						bad("escaped-"+edge, fmt.Sprintf("screen cell (%d,%d) outside the clip rectangle %v changed (shows %q, width %d, undefined=%v)", x, y, clip, c.Text, c.Width, c.Poison))
						escaped = true
						break
					}
					if c.Width == 0 {
						continue
					}
					seq = append(seq, placed{x: x - ox, y: y - oy, g: c.Text, w: c.Width})
				}
			}
			if escaped {
				continue
			}
			if len(ub) > 0 {
				bad("escaped", "the terminal's last column received a wide glyph: "+ub[0])
				continue
			}
			// only when the whole window is visible can order/advance be judged
			whole := clip == rect{ox, oy, ox + win.Width, oy + win.Height} && win.Width > 0 && win.Height > 0
			if !whole {
				continue
			}
			// reading order / no split / advance
			k := 0
			okSeq := true
			for i, p := range seq {
				if h == "PrintTruncate" && p.g == "…" && i == len(seq)-1 {
					break
				}
				// a cluster wider than the whole window cannot be placed at all
				for k < len(in) && in[k].w > win.Width {
					k++
				}
				if k >= len(in) || in[k].g != p.g {
					bad("order", fmt.Sprintf("cell %d (window col %d row %d) shows %q; input clusters are %v", i, p.x, p.y, p.g, clusterNames(in)))
					okSeq = false
					break
				}
				if p.w != in[k].w {
					bad("split", fmt.Sprintf("cluster %q drawn with width %d", p.g, p.w))
					okSeq = false
					break
				}
				if i > 0 {
					q := seq[i-1]
					switch {
					case p.y == q.y:
						if p.x != q.x+q.w {
							bad("advance", fmt.Sprintf("%q at col %d follows %q (width %d) at col %d", p.g, p.x, q.g, q.w, q.x))
							okSeq = false
						}
					case p.y > q.y:
						if p.x != 0 && h != "Wrap" {
							bad("advance", fmt.Sprintf("row %d starts at col %d", p.y, p.x))
							okSeq = false
						}
						if h == "Print" && !in[k].lfPrev {
							full := q.x+q.w >= win.Width || q.x+q.w+p.w > win.Width
							if !full {
								bad("newrow", fmt.Sprintf("new row before %q although the row was not full (%q ended at col %d of %d)", p.g, q.g, q.x+q.w, win.Width))
								okSeq = false
							}
						}
						if h == "Println" || h == "PrintTruncate" {
							bad("newrow", "a single-line helper wrote on two rows")
							okSeq = false
						}
					default:
						bad("order", "cells go backwards")
						okSeq = false
					}
					if (h == "Print" || h == "Wrap") && in[k].lfPrev && p.y == q.y {
						bad("newrow", fmt.Sprintf("%q follows a line feed but is on the same row", p.g))
						okSeq = false
					}
				}
				if !okSeq {
					break
				}
				k++
			}
			if okSeq {
				r.Distinct(explore.Hash("text", h, fmt.Sprint(chain), s, fmt.Sprint(rowArg), fmt.Sprint(fi >= len(rows))))
			}
		}
	}
}

func clusterNames(in []cluster) []string {
	var s []string
	for _, c := range in {
		s = append(s, c.g)
	}
	return s
}

// ---- enumeration ---------------------------------------------------------------------------

func geoms(offs, sizes []int) []geom {
	var out []geom
	for _, c := range offs {
		for _, rr := range offs {
			for _, w := range sizes {
				for _, h := range sizes {
					out = append(out, geom{c, rr, w, h})
				}
			}
		}
	}
	return out
}

func stringsUpTo(n int) (out []string, names []string) {
	var rec func(prefix string, name string, l int)
	rec = func(prefix, name string, l int) {
		out = append(out, prefix)
		names = append(names, name)
		if l == n {
			return
		}
		for i, a := range textAlphabet {
			nn := textNames[i]
			if name != "" {
				nn = name + " " + nn
			}
			rec(prefix+a, nn, l+1)
		}
	}
	rec("", "", 0)
	return
}

func main() {
	r = explore.Start("C11")
	fullOffs := []int{-2, -1, 0, 1, 3, 5}
	fullSizes := []int{-1, 0, 1, 2, 4, 9}
	midOffs := []int{-1, 0, 1, 3}
	midSizes := []int{-1, 1, 2, 9}
	smallOffs := []int{-1, 0, 1}
	smallSizes := []int{-1, 2, 9}
	if r.Replay != "" {
		r.ReplayBySearch()
	}
	if idx, n, arg, ok := r.Worker(); ok {
		r.Watchdog(60 * time.Second)
		s, err := session.Open(refterm.DefaultProfile(0, refterm.VersionOther), scrW, scrH, vaxis.Options{})
		if err != nil {
			r.Fault("open: %v", err)
		}
		w := &world{s: s}
		k := 0
		mine := func() bool { k++; return k%n == idx }
		g1 := geoms(fullOffs, fullSizes)
		g2 := geoms(midOffs, midSizes)
		g3 := geoms(smallOffs, smallSizes)
		switch arg {
		case "cells":
			for _, lit := range []bool{false, true} {
				for _, a := range g1 {
					if mine() {
						w.cellCalls([]winSpec{{a, lit}})
					}
				}
			}
			// depth 2: first level New or literal, second alternates
			for li := 0; li < 4; li++ {
				for _, a := range g2 {
					for _, b := range g2 {
						if mine() {
							w.cellCalls([]winSpec{{a, li&1 == 1}, {b, li&2 == 2}})
						}
					}
				}
			}
			// depth 3
			if r.Thorough() {
				for li := 0; li < 8; li++ {
					for _, a := range g3 {
						for _, b := range g3 {
							for _, c := range g3 {
								if mine() {
									w.cellCalls([]winSpec{{a, li&1 == 1}, {b, li&2 == 2}, {c, li&4 == 4}})
								}
							}
						}
					}
				}
			} else {
				for _, a := range g3 {
					for _, b := range g3 {
						for ci, c := range g3 {
							if mine() {
								w.cellCalls([]winSpec{{a, false}, {b, ci%2 == 0}, {c, ci%3 == 0}})
							}
						}
					}
				}
			}
		case "text":
			strs, names := stringsUpTo(r.Pick(3, 4))
			// text layout depends on the window's width/height and on what it is clipped by
			var chains [][]winSpec
			for _, a := range geoms([]int{-1, 0, 1, 3}, []int{-1, 0, 1, 2, 3, 4, 9}) {
				chains = append(chains, []winSpec{{a, false}})
				if a.W >= 0 && a.H >= 0 {
					chains = append(chains, []winSpec{{a, true}})
				}
			}
			for _, a := range geoms([]int{0, 1}, []int{2, 3}) {
				for _, b := range geoms([]int{-1, 0, 1}, []int{1, 2, 3, 9}) {
					chains = append(chains, []winSpec{{a, false}, {b, true}})
				}
			}
			for _, ch := range chains {
				for si, str := range strs {
					if mine() {
						w.textCalls(ch, str, names[si])
					}
				}
			}
			if idx == 0 {
				r.Sample(map[string]any{"part": "text", "chain": chainStrings(chains[7]), "string": names[40]})
			}
		}
		if idx == 0 {
			r.Sample(map[string]any{"part": arg, "chain": (winSpec{g1[100], true}).String()})
		}
		s.Vx.Close()
		r.WorkerDone()
	}
	r.Spawn(16, "cells", 0)
	r.Spawn(16, "text", 0)
	n := r.Get("renders")
	r.Finish(explore.Coverage{
		States: -1, Transitions: n, Traces: n, Evaluations: n,
		Rule:       "window chains on a 4x3 screen: depth 1 with offsets {-2,-1,0,1,3,5}^2 x sizes {-1,0,1,2,4,9}^2, depth 2 with {-1,0,1,3}^2 x {-1,1,2,9}^2 per level, depth 3 with {-1,0,1}^2 x {-1,2,9}^2 per level, each level built by New or as a struct literal; per chain: SetCell and SetStyle at every coordinate of [-2,6]x[-2,5] (each with its own marker), SetStyle also over a background of wide glyphs in both alignments (depth <= 2), Fill, Clear, and SetCell / Clear / Fill over that background (a glyph that starts outside the clip stays); text helpers Print/Wrap/PrintTruncate/Println (rows -1..4) with every string of <= n symbols over {a,世,e+U+0301,SP,TAB,LF} on depth-1 and depth-2 chains, each text of two or more symbols also as one segment per symbol; all observed through the reference terminal after Render against a marker-filled screen; distinct = (chain, call family) cases that passed",
		Exhaustive: true,
		Bounds:     map[string]any{"screen": "4x3", "max_string_len": r.Pick(3, 4)},
		Assumptions: []string{"the clip rectangle is the intersection of the rectangles given by each window's own Column/Row/Width/Height fields (after New's clamping) and the screen",
			"order/advance/new-row clauses are judged only when the whole window is visible (otherwise only containment)"},
	})
}
