// C08: parser lifecycle and Escape-key timing, decided by stateless exploration of
// thread interleavings of the real ansi.Parser (run loop, Escape timer callback,
// consumer, closer) under the controlled scheduler, for a bounded family of input
// scripts (byte chunks, arrival gaps on either side of the 10 ms delay, end of
// input / read error / blocked reader, Close).
package main

import (
	"errors"
	"fmt"
	"io"
	"os"
	"strings"
	"time"

	"git.sr.ht/~rockorager/vaxis/ansi"
	"git.sr.ht/~rockorager/vaxis/verifshim/vsched"
	vtime "git.sr.ht/~rockorager/vaxis/verifshim/vtime"
	"verif.local/mc/explore"
	"verif.local/mc/parseref"
)

var r *explore.Run

type gap int

const (
	short    gap = iota // arrives well inside the disambiguation delay: the timer cannot fire first
	boundary            // arrives at any moment after the timer has fired (callback possibly still running)
	long                // arrives after the timer has fired and its callback has finished
)

var gapNames = []string{"short", "boundary", "long"}

type endKind int

const (
	endEOF endKind = iota
	endErr
	endBlock // the reader blocks until Close has been called, then returns one more byte
)

var endNames = []string{"EOF", "read-error", "blocked-until-close"}

type chunk struct {
	B   string
	Gap gap
}

type script struct {
	Chunks  []chunk
	End     endKind
	EndGap  gap
	Closer  bool   // a second thread calls Close at an arbitrary moment
	Release string // what a blocked reader returns once Close has been called ("" = "a")
	Retain  bool   // the consumer keeps every sequence and never hands it back
	Delayed bool   // the consumer hands a sequence back only after receiving the next one
	Mixed   int    // >0: the consumer treats the sequences in rotation (offset Mixed-1): handed back at once / one delivery late / kept
}

func (s *script) release() string {
	if s.Release == "" {
		return "a"
	}
	return s.Release
}

func (s script) String() string {
	var b strings.Builder
	for _, c := range s.Chunks {
		fmt.Fprintf(&b, "<%s>%q ", gapNames[c.Gap], c.B)
	}
	fmt.Fprintf(&b, "<%s>%s", gapNames[s.EndGap], endNames[s.End])
	if s.Release != "" {
		fmt.Fprintf(&b, "(then %q)", s.Release)
	}
	if s.Closer {
		b.WriteString(" +closer")
	}
	if s.Retain {
		b.WriteString(" +retain")
	}
	if s.Delayed {
		b.WriteString(" +delayed")
	}
	if s.Mixed > 0 {
		fmt.Fprintf(&b, " +mixed(%d)", s.Mixed-1)
	}
	return b.String()
}

// ---- the reader ---------------------------------------------------------------------------------------------

type reader struct {
	sc       *script
	i        int
	cur      []byte
	waiting  bool
	released bool
	ended    bool
}

func escArmed() bool {
	for _, t := range vtime.Pending() {
		if t.D == 10*time.Millisecond {
			return true
		}
	}
	return false
}

func (rd *reader) nextGap() gap {
	if rd.i < len(rd.sc.Chunks) {
		return rd.sc.Chunks[rd.i].Gap
	}
	return rd.sc.EndGap
}

func (rd *reader) ready() bool {
	if rd.i >= len(rd.sc.Chunks) && rd.sc.End == endBlock && !rd.ended {
		return rd.released
	}
	switch rd.nextGap() {
	case short:
		return true
	case boundary:
		return !escArmed()
	default:
		return !escArmed() && vsched.LiveNamed("timer-callback") == 0
	}
}

func (rd *reader) Read(p []byte) (int, error) {
	if len(rd.cur) == 0 {
		if rd.ended {
			// a reader that has failed keeps failing (a dead pty); asking it again is a step of the
			// execution like any other, so that a parser that keeps asking runs into the step limit
			vsched.Yield("read-after-end")
			if rd.sc.End == endErr {
				return 0, errors.New("read failed")
			}
			return 0, io.EOF
		}
		rd.waiting = true
		vsched.Wait("read", rd.ready)
		rd.waiting = false
		if rd.i < len(rd.sc.Chunks) {
			rd.cur = []byte(rd.sc.Chunks[rd.i].B)
			rd.i++
		} else {
			rd.ended = true
			switch rd.sc.End {
			case endEOF:
				return 0, io.EOF
			case endErr:
				return 0, errors.New("read failed")
			default:
				rd.cur = []byte(rd.sc.release())
			}
		}
	}
	n := copy(p, rd.cur)
	rd.cur = rd.cur[n:]
	return n, nil
}

// the Escape timer can fire only while the parser waits for input that is not prompt
func (rd *reader) timerGate(t *vtime.Timer) bool {
	if t.D != 10*time.Millisecond {
		return true
	}
	if vsched.AnyBlockedSend() {
		// the consumer is slow and the parser waits for room in its channel: any amount of
		// time passes ("all consumer speeds")
		return true
	}
	if !rd.waiting {
		return false
	}
	if rd.i >= len(rd.sc.Chunks) && rd.sc.End == endBlock {
		return true
	}
	return rd.nextGap() != short
}

// ---- the reference --------------------------------------------------------------------------------------------

// allowed returns every item list the property admits for the script: a long gap
// after a lone ESC reports the Escape key, a short gap never does, a boundary gap may do either.
func allowed(sc *script) (lists [][]string, outside bool) {
	nb := 0
	for _, c := range sc.Chunks {
		if c.Gap == boundary {
			nb++
		}
	}
	if sc.EndGap == boundary || sc.End == endBlock {
		nb++ // Close (and with it the reader's return) may come before or after the timer
	}
	if sc.End == endBlock {
		nb++ // an ESC returned by the released reader
	}
	for mask := 0; mask < 1<<nb; mask++ {
		m := &parseref.Ref{}
		lastESC := false
		bi := 0
		apply := func(g gap) {
			fire := false
			switch g {
			case long:
				fire = true
			case boundary:
				fire = mask>>bi&1 == 1
				bi++
			}
			if fire && lastESC && m.AwaitingEscape() {
				m.Timeout()
				lastESC = false
			}
		}
		// chunks that follow promptly are one segment: the reader joins a UTF-8
		// sequence cut by a chunk boundary (non-prompt gaps are always rune-aligned)
		for i := 0; i < len(sc.Chunks); {
			apply(sc.Chunks[i].Gap)
			seg := sc.Chunks[i].B
			i++
			for i < len(sc.Chunks) && sc.Chunks[i].Gap == short {
				seg += sc.Chunks[i].B
				i++
			}
			for _, c := range parseref.RunesOf([]byte(seg)) {
				m.Feed(c)
				lastESC = c == 0x1B
			}
		}
		if sc.End == endBlock {
			apply(boundary)
			for _, c := range parseref.RunesOf([]byte(sc.release())) {
				m.Feed(c)
				lastESC = c == 0x1B
			}
			// the reader returned because of Close: the parser stops; an ESC just read may or
			// may not have been taken for the Escape key by then
			if lastESC && mask>>bi&1 == 1 {
				m.Timeout()
			}
			bi++
		} else {
			apply(sc.EndGap)
		}
		m.EOF()
		if m.Outside {
			outside = true
		}
		lists = append(lists, m.Items())
	}
	return lists, outside
}

// ---- one execution ------------------------------------------------------------------------------------------------

type outcome struct {
	items     []string
	eofs      int
	afterEOF  int
	closed    bool
	waitClose bool
	modified  string
	runaway   bool
}

func execute(sc *script, prefix []int) (*vsched.Result, *outcome) {
	o := &outcome{}
	rd := &reader{sc: sc}
	// step limit: far above what a short script needs; long inputs get a handful of steps per byte on top
	limit := 4000
	for _, c := range sc.Chunks {
		if len(c.B) > 200 {
			limit += 8 * len(c.B)
		}
	}
	res := vsched.Run(prefix, limit, func(s *vsched.Sched) {
		s.TimerGate = rd.timerGate
	}, func() {
		p := ansi.NewParser(rd)
		if sc.Closer {
			vsched.GoNamed("closer", func() {
				p.Close()
				rd.released = true
			})
		}
		type kept struct {
			seq  ansi.Sequence
			copy string
		}
		var retained []kept
		var text strings.Builder
		flush := func() {
			if text.Len() > 0 {
				o.items = append(o.items, "P:"+text.String())
				text.Reset()
			}
		}
		var prev ansi.Sequence
		lateIdx := -1
		n := 0
		for {
			seq, ok := <-vsched.Pre(p.Next(), vsched.Recv)
			vsched.Post()
			if !ok {
				o.closed = true
				break
			}
			n++
			if n > 300 {
				o.runaway = true
				break
			}
			if o.eofs > 0 {
				o.afterEOF++
			}
			switch s := seq.(type) {
			case ansi.Print:
				text.WriteString(s.Grapheme)
			case ansi.EOF:
				o.eofs++
			case error:
			default:
				flush()
				o.items = append(o.items, parseref.Render(seq))
			}
			switch {
			case sc.Mixed > 0:
				if lateIdx >= 0 {
					k := retained[lateIdx]
					if got := parseref.Render(k.seq); got != k.copy && o.modified == "" {
						o.modified = fmt.Sprintf("delivered %s, later reads %s", k.copy, got)
					}
					p.Finish(k.seq)
					retained[lateIdx].seq = nil
					lateIdx = -1
				}
				switch (n - 1 + sc.Mixed - 1) % 3 {
				case 0:
					p.Finish(seq)
				case 1:
					retained = append(retained, kept{seq, parseref.Render(seq)})
					lateIdx = len(retained) - 1
				default:
					retained = append(retained, kept{seq, parseref.Render(seq)})
				}
			case sc.Retain:
				retained = append(retained, kept{seq, parseref.Render(seq)})
			case sc.Delayed:
				retained = append(retained, kept{seq, parseref.Render(seq)})
				if prev != nil {
					// still untouched when handed back?
					k := retained[len(retained)-2]
					if got := parseref.Render(k.seq); got != k.copy && o.modified == "" {
						o.modified = fmt.Sprintf("delivered %s, later reads %s", k.copy, got)
					}
					p.Finish(prev)
					retained[len(retained)-2].seq = nil
				}
				prev = seq
			default:
				p.Finish(seq)
			}
		}
		flush()
		for _, k := range retained {
			if k.seq == nil {
				continue
			}
			if got := parseref.Render(k.seq); got != k.copy && o.modified == "" {
				o.modified = fmt.Sprintf("delivered %s, later reads %s", k.copy, got)
			}
		}
		if o.closed {
			p.WaitClose()
			o.waitClose = true
		}
	})
	return res, o
}

func isPrefix(got, want []string) bool {
	if len(got) > len(want) {
		return false
	}
	for i := range got {
		if got[i] == want[i] {
			continue
		}
		if i == len(got)-1 && strings.HasPrefix(got[i], "P:") && strings.HasPrefix(want[i], got[i]) {
			continue
		}
		return false
	}
	return true
}

func equal(a, b []string) bool {
	if len(a) != len(b) {
		return false
	}
	for i := range a {
		if a[i] != b[i] {
			return false
		}
	}
	return true
}

type detail struct {
	Script   string   `json:"script"`
	ScriptV  script   `json:"script_value"`
	Schedule []int    `json:"schedule"`
	Trace    []string `json:"trace,omitempty"`
	Got      []string `json:"got,omitempty"`
	Allowed  any      `json:"allowed,omitempty"`
	What     string   `json:"what"`
}

func classify(sc *script) string {
	esc := false
	for i, c := range sc.Chunks {
		if strings.HasSuffix(c.B, "\x1b") {
			g := sc.EndGap
			if i+1 < len(sc.Chunks) {
				g = sc.Chunks[i+1].Gap
			}
			if g != short {
				esc = true
			}
		}
	}
	cl := "plain"
	if esc {
		cl = "lone-esc"
	}
	if sc.Closer {
		cl += "+close"
	}
	return cl
}

// check evaluates one execution; returns a violation signature or "".
func check(sc *script, lists [][]string, outside bool, res *vsched.Result, o *outcome) (sig, what string) {
	cl := classify(sc)
	switch {
	case res.Diverged != "":
		r.Fault("schedule diverged: %s (%s)", res.Diverged, sc)
	case len(res.Panics) > 0:
		p := res.Panics[0]
		return fmt.Sprintf("C08|panic|%s|%s", p.Site, explore.PanicClass(p.Value)), fmt.Sprintf("thread %s panicked: %s", p.Thread, p.Value)
	case res.Exceeded || o.runaway:
		return "C08|runaway|" + cl, "the execution did not finish within the step limit"
	case res.Deadlock != "":
		return "C08|hang|" + cl, "no thread can run: " + res.Deadlock
	case len(res.Blocked) > 0:
		return "C08|stuck-goroutine|" + cl, "threads blocked for ever after the channel was closed: " + strings.Join(res.Blocked, "; ")
	case !o.closed:
		return "C08|not-closed|" + cl, "the sequence channel was not closed"
	case o.eofs != 1:
		return fmt.Sprintf("C08|eof-count|%s", cl), fmt.Sprintf("%d end-of-input markers", o.eofs)
	case o.afterEOF > 0:
		return "C08|eof-not-last|" + cl, fmt.Sprintf("%d items after the end-of-input marker", o.afterEOF)
	case o.modified != "":
		return "C08|delivered-sequence-modified|" + cl, o.modified
	}
	if outside {
		return "", ""
	}
	ok := false
	for _, l := range lists {
		if sc.Closer && isPrefix(o.items, l) || equal(o.items, l) {
			ok = true
			break
		}
	}
	if !ok {
		kind := "items"
		ne := func(l []string) int {
			n := 0
			for _, s := range l {
				if s == "C0:1B" {
					n++
				}
			}
			return n
		}
		if len(lists) > 0 && cl != "plain" {
			g := ne(o.items)
			lo, hi := 1<<30, -1
			for _, l := range lists {
				if n := ne(l); n < lo {
					lo = n
				}
				if n := ne(l); n > hi {
					hi = n
				}
			}
			switch {
			case g > hi:
				kind = "escape-spurious"
			case g < lo:
				kind = "escape-lost"
			default:
				kind = "after-escape"
			}
		}
		return "C08|" + kind + "|" + cl, "items differ from every admitted list"
	}
	return "", ""
}

// ---- script families -----------------------------------------------------------------------------------------------------

var alphabet = []string{"a", "\x1b", "[", "1", ";", "]", "\x07", "P", "\\", " ", "O", "\u00e9"}

func stringsUpTo(n int, alpha []string) []string {
	out := []string{""}
	level := []string{""}
	for d := 0; d < n; d++ {
		var next []string
		for _, s := range level {
			for _, a := range alpha {
				next = append(next, s+a)
			}
		}
		out = append(out, next...)
		level = next
	}
	return out
}

// splitPoints returns the rune-aligned positions inside s.
func splitPoints(s string) []int {
	var out []int
	for i := range s {
		if i > 0 {
			out = append(out, i)
		}
	}
	return out
}

// breadth: every string up to n symbols, whole and cut in two at every position with every gap, every end kind.
func breadthScripts(n int, each func(sc script)) {
	for _, s := range stringsUpTo(n, alphabet) {
		for _, end := range []endKind{endEOF, endErr} {
			for _, eg := range []gap{short, long} {
				if eg == long && !strings.HasSuffix(s, "\x1b") {
					continue
				}
				each(script{Chunks: []chunk{{s, short}}, End: end, EndGap: eg})
				for _, sp := range splitPoints(s) {
					for _, g := range []gap{short, boundary, long} {
						if g != short && s[sp-1] != 0x1b {
							continue // no pending Escape decision: the gap length is irrelevant
						}
						each(script{Chunks: []chunk{{s[:sp], short}, {s[sp:], g}}, End: end, EndGap: eg})
					}
				}
			}
		}
	}
}

// byte-level chunking (including cuts inside a UTF-8 sequence) with prompt arrival
func byteSplitScripts(each func(sc script)) {
	for _, s := range []string{"é", "aé", "\x1b[1;2A", "é\x1b[A", "éx", "\x1b]0;é\x07", "\xc3", "\xc3a", "\xe2\x82", "\x1b\xc3\xa9"} {
		for i := 1; i < len(s); i++ {
			each(script{Chunks: []chunk{{s[:i], short}, {s[i:], short}}, End: endEOF})
			for j := i + 1; j < len(s); j++ {
				each(script{Chunks: []chunk{{s[:i], short}, {s[i:j], short}, {s[j:], short}}, End: endErr})
			}
		}
	}
}

// ownership: every sequence of up to n complete control sequences (every dispatch path that
// hands storage to the consumer), consumer retaining or handing back late
var units = []string{"x", "\x1b[!p", "\x1b[?u", "\x1b[>1u", "\x1b[1;2A", "\x1b[ q", "\x1b[1 q", "\x1b(B", "\x1b#3", "\x1bP$q\x1b\\",
	"\x1bP1$r\x1b\\", "\x1b]0;t\x07", "\x1b[1:2m", "\x1bOA", "\x1b[A", "\x1b]52;ab\x07", "\x1bPqAB\x1b\\", "\x1b_Gi=1\x1b\\", "\x1b_Gj=22\x1b\\"}

func ownershipScripts(n int, each func(sc script)) {
	for _, s := range stringsUpTo(n, units) {
		if s == "" {
			continue
		}
		for _, mode := range []int{1, 2} {
			each(script{Chunks: []chunk{{s, short}}, End: endEOF, Retain: mode == 1, Delayed: mode == 2})
		}
	}
}

// pool histories: every sequence of up to 6 CSI sequences with 0-3 parameters (values that tell the positions apart),
// with a consumer that treats them in rotation - handed back at once, handed back one delivery late, kept: storage
// that went back to the parser's pools and out again must never belong to two sequences at a time
func poolScripts(each func(sc script)) {
	var rec func(s string, k int)
	rec = func(s string, k int) {
		if k > 0 {
			for m := 1; m <= 3; m++ {
				each(script{Chunks: []chunk{{s, short}}, End: endEOF, Mixed: m})
			}
		}
		if k == 6 {
			return
		}
		for np := 0; np <= 3; np++ {
			var ps []string
			for j := 0; j < np; j++ {
				ps = append(ps, fmt.Sprint(10*(k+1)+j))
			}
			rec(s+"\x1b["+strings.Join(ps, ";")+string(rune('A'+np)), k+1)
		}
	}
	rec("", 0)
}

// states: the Escape decision taken from every state of the automaton: a prefix that leaves the
// parser in that state, an ESC, then silence of each length, then each kind of continuation
func stateScripts(each func(sc script)) {
	prefixes := []string{"", "a", "\u00e9", "\x1b ", "\x1b[", "\x1b[1", "\x1b[1;", "\x1b[ ", "\x1b[1<", "\x1bO", "\x1bP", "\x1bP1", "\x1bP$", "\x1bP1<", "\x1bPq", "\x1bPqd",
		"\x1b]", "\x1b]0", "\x1b]0;t", "\x1bX", "\x1bXt", "\x1b^t", "\x1b_", "\x1b_Gi", "\x1b]0;t\x1b\\", "\x1bPqd\x07", "\x1b]0;t\x18"}
	follows := []string{"", "x", "\\", "[A", "]0;u\x07", "\x1b", "\x1b\\"}
	for _, pre := range prefixes {
		for _, g := range []gap{short, boundary, long} {
			for _, f := range follows {
				for _, end := range []endKind{endEOF, endErr} {
					if f == "" {
						each(script{Chunks: []chunk{{pre + "\x1b", short}}, End: end, EndGap: g})
						continue
					}
					egs := []gap{short}
					if strings.HasSuffix(f, "\x1b") {
						egs = []gap{short, long}
					}
					for _, eg := range egs {
						each(script{Chunks: []chunk{{pre + "\x1b", short}, {f, g}}, End: end, EndGap: eg})
					}
				}
			}
		}
	}
}

// bulk: control strings longer than any buffer or limit on the way, with every terminator and cut off by the
// end of the input
func bulkScripts(each func(sc script)) {
	big := strings.Repeat("A", 70000)
	for _, open := range []string{"\x1b]52;c;", "\x1bP1;2q", "\x1b_G", "\x1bX"} {
		for _, term := range []string{"\x07", "\x1b\\", "\x18", ""} {
			for _, end := range []endKind{endEOF, endErr} {
				each(script{Chunks: []chunk{{"a" + open + big + term + "x", short}}, End: end, EndGap: short})
			}
		}
	}
}

// depth: scripts explored with preemptions
func depthScripts(each func(sc script)) {
	bodies := [][]chunk{
		{{"\x1b", short}, {"a", long}},
		{{"\x1b", short}, {"a", boundary}},
		{{"\x1b", short}, {"[A", boundary}},
		{{"\x1b", short}, {"[A", short}},
		{{"\x1b", short}, {"\x1b", boundary}, {"b", boundary}},
		{{"\x1b", short}},
		{{"a\x1b", short}},
		{{"\x1b[1;2A\x1b[3;4B\x1b[5;6C\x1b[7;8D", short}},
		{{"\x1b[1;2A", short}, {"\x1b[3;4B\x1b[5;6C", short}, {"\x1b[7;8D\x1b[9 q", short}},
		{{"\x1b a\x1b!b\x1b\"c\x1b#d", short}},
		{{"\x1bP1$r\x1b\\\x1bP2$r\x1b\\\x1bP3$q\x1b\\", short}},
		{{"\x1b]0;x\x1b", short}, {"\\", boundary}},
		{{"ab", short}, {"cd", short}},
		{{"\x1b[?1;2c\x1b[1:2:3;4m\x1b[>1u\x1b[?2u", short}},
	}
	for _, b := range bodies {
		lastESC := strings.HasSuffix(b[len(b)-1].B, "\x1b")
		egs := []gap{short}
		if lastESC {
			egs = []gap{short, boundary, long}
		}
		for _, eg := range egs {
			for _, end := range []endKind{endEOF, endErr} {
				for _, mode := range []int{0, 1, 2} {
					each(script{Chunks: b, End: end, EndGap: eg, Retain: mode == 1, Delayed: mode == 2})
				}
			}
			// Close from a second thread, reader returning afterwards
			each(script{Chunks: b, End: endBlock, EndGap: long, Closer: true})
			each(script{Chunks: b, End: endBlock, EndGap: long, Closer: true, Retain: true})
			// the reader returns a reply that starts with ESC (what Suspend provokes), to a slow consumer
			each(script{Chunks: b, End: endBlock, EndGap: long, Closer: true, Release: "\x1b"})
			each(script{Chunks: b, End: endBlock, EndGap: long, Closer: true, Release: "\x1b[?62c", Delayed: true})
			each(script{Chunks: b, End: endEOF, EndGap: eg, Closer: true})
		}
	}
}

// ---- exploration ------------------------------------------------------------------------------------------------------------

// a change that makes many executions fail (and run to the step limit) must not make the check run for
// hours: a script is abandoned after 50 violating executions, the whole run after 3000 (reported as not exhaustive)
var violatingExecutions int

func exploreScript(sc script, bound int, budget int64) {
	if violatingExecutions >= 3000 {
		r.Count("scripts_skipped_after_violations", 1)
		return
	}
	lists, outside := allowed(&sc)
	var outcomes = map[string]bool{}
	inScript := 0
	n, capped := vsched.Explore(bound, budget, 0, 1, func(prefix []int) *vsched.Result {
		res, o := execute(&sc, prefix)
		res.Log = nil
		// stash the outcome for visit
		lastOutcome = o
		return res
	}, func(prefix []int, res *vsched.Result) {
		o := lastOutcome
		r.Count("points", int64(len(res.Trace)))
		outcomes[strings.Join(o.items, "|")] = true
		if sig, what := check(&sc, lists, outside, res, o); sig != "" {
			inScript++
			violatingExecutions++
			if inScript >= 50 || violatingExecutions >= 3000 {
				vsched.Abort = true
			}
			var sched []int
			for _, p := range res.Trace {
				sched = append(sched, p.Chosen)
			}
			vsched.Describe = true
			res2, o2 := execute(&sc, sched)
			vsched.Describe = false
			if sig2, _ := check(&sc, lists, outside, res2, o2); sig2 != sig {
				r.Fault("replaying a violating schedule gave %q instead of %q (%s)", sig2, sig, sc)
			}
			var tr []string
			for _, p := range res2.Trace {
				tr = append(tr, p.Desc)
			}
			r.Violation(sig, len(sched)+len(sc.String()), detail{Script: sc.String(), ScriptV: sc, Schedule: sched, Trace: tr, Got: o.items, Allowed: lists, What: what})
		}
	})
	r.Count("executions", n)
	r.Count("scripts", 1)
	r.Count("outcomes", int64(len(outcomes)))
	if len(outcomes) > 1 {
		r.Count("scripts_with_several_outcomes", 1)
	}
	if capped {
		r.Count("scripts_capped", 1)
	}
	r.Distinct(explore.Hash(sc.String(), fmt.Sprint(bound)))
}

var lastOutcome *outcome

func main() {
	r = explore.Start("C08")
	if r.Replay != "" {
		var d detail
		r.LoadReplay(&d)
		vsched.Describe = true
		res, o := execute(&d.ScriptV, d.Schedule)
		lists, outside := allowed(&d.ScriptV)
		fmt.Println("script:", d.ScriptV)
		for i, p := range res.Trace {
			fmt.Printf("%3d  %-40s enabled=%v\n", i, p.Desc, p.Enabled)
		}
		fmt.Println("items:", o.items, "eofs:", o.eofs, "closed:", o.closed)
		sig, what := check(&d.ScriptV, lists, outside, res, o)
		if sig != "" {
			fmt.Printf("VIOLATION property=C08 replay=%s\n  %s: %s\n", r.Replay, sig, what)
			os.Exit(1)
		}
		fmt.Println("replay: property holds on this schedule")
		os.Exit(0)
	}
	breadthN := r.Pick(3, 4)
	depthBound := r.Pick(2, 3)
	if idx, n, arg, ok := r.Worker(); ok {
		r.Watchdog(120 * time.Second)
		i := 0
		each := func(bound int, budget int64) func(sc script) {
			return func(sc script) {
				i++
				if i%n != idx {
					return
				}
				exploreScript(sc, bound, budget)
			}
		}
		switch arg {
		case "breadth":
			breadthScripts(breadthN, each(0, 0))
			byteSplitScripts(each(1, 0))
			stateScripts(each(1, 0))
			bulkScripts(each(0, 0))
			ownershipScripts(r.Pick(3, 4), each(1, 0))
			poolScripts(each(0, 0))
		case "depth":
			depthScripts(each(depthBound, int64(r.Pick(400000, 4000000))))
		}
		r.WorkerDone()
	}
	r.Spawn(16, "breadth", 0)
	r.Spawn(16, "depth", 0)
	ex := r.Get("executions")
	if n := r.Get("scripts_skipped_after_violations"); n > 0 {
		r.CapHit("%d scripts were skipped after 3000 violating executions in a worker", n)
	}
	r.Finish(explore.Coverage{
		States: -1, Transitions: r.Get("points"), Traces: ex, Evaluations: ex,
		Rule:       fmt.Sprintf("stateless exploration of thread schedules of the real ansi.Parser under the controlled scheduler (scheduling points: every channel operation, select, close, mutex operation, thread start, timer firing, reader wait). Breadth: every string of up to %d symbols over a 12-symbol alphabet, as one chunk and cut in two at every position with short / boundary / long arrival gaps, ending in EOF or a read error, all schedules without preemption (non-preemptive switches are free); byte-level chunkings of multi-byte input with <=1 preemption; bulk: OSC / DCS / APC / SOS strings of 70000 runes with each terminator and cut off by the end of the input; states: 27 prefixes that leave the automaton in each of its states (incl. every string state with and without content, and just after ST / BEL / CAN) + ESC + silence of each length + 7 continuations, <=1 preemption; ownership: every sequence of up to %d complete control sequences out of 19 (each dispatch path that hands storage to the consumer) with a consumer that retains everything or hands back one late, <=1 preemption; pool histories: every sequence of up to 6 CSI sequences with 0-3 parameters with a consumer that in rotation hands back at once / one delivery late / keeps, without preemption. Depth: 14 input bodies x end kinds x consumer modes (hand back at once / retain everything / hand back one late) x Close from a second thread with a reader that returns afterwards, all schedules with <=%d deviations (preemption, or timer fired while a thread could run). Oracle per execution: no panic, no hang, no goroutine blocked at the end, exactly one EOF marker as last item, channel closed, WaitClose returns, retained sequences unchanged, item list equal to (prefix of, with Close) a list admitted by the reference automaton for the gap pattern. distinct = (script, bound) pairs", breadthN, r.Pick(3, 4), depthBound),
		Exhaustive: r.Get("scripts_capped") == 0,
		Bounds: map[string]any{"breadth_symbols": breadthN, "deviation_bound": depthBound, "scripts": r.Get("scripts"), "scripts_capped": r.Get("scripts_capped"),
			"scripts_with_several_outcomes": r.Get("scripts_with_several_outcomes"), "step_limit": 4000},
		Assumptions: []string{
			"timing model: a chunk with a short gap is available before the 10 ms timer can fire; with a boundary gap it arrives at any moment after the timer fired; with a long gap after the timer callback has finished",
			"sync.Pool is replaced by a deterministic LIFO pool (maximal reuse)",
			"a boundary gap admits both decisions, but never a mixture (Escape reported and the next byte still parsed as part of an escape sequence)",
		},
	})
}
