// C17 – line editors behave like an ideal grapheme line editor.
// Explicit-state BFS over operation sequences on the real vxfw TextField and
// widgets/textinput Model against an ideal editor over grapheme clusters; after
// every operation the widget is drawn at every width 0..8.
package main

import (
	"fmt"
	"strings"
	"time"
	"unicode"

	"git.sr.ht/~rockorager/vaxis"
	"git.sr.ht/~rockorager/vaxis/vxfw"
	"git.sr.ht/~rockorager/vaxis/vxfw/textfield"
	"git.sr.ht/~rockorager/vaxis/widgets/textinput"
	"github.com/rivo/uniseg"
	"verif.local/mc/explore"
	"verif.local/mc/refterm"
	"verif.local/mc/session"
)

var r *explore.Run

// ---- the ideal editor ------------------------------------------------------------------------

type ideal struct {
	g      []string
	cursor int
}

func clusters(s string) []string {
	var out []string
	state := -1
	for s != "" {
		var c string
		c, s, _, state = uniseg.FirstGraphemeClusterInString(s, state)
		out = append(out, c)
	}
	return out
}

func (e *ideal) value() string { return strings.Join(e.g, "") }

func (e *ideal) insert(s string) {
	cs := clusters(s)
	g := append([]string{}, e.g[:e.cursor]...)
	g = append(g, cs...)
	g = append(g, e.g[e.cursor:]...)
	e.g = g
	e.cursor += len(cs)
}

func isWord(c string) bool {
	rs := []rune(c)
	return len(rs) == 1 && (unicode.IsLetter(rs[0]) || unicode.IsNumber(rs[0]))
}

func (e *ideal) fwdWord() int {
	i := e.cursor
	for i < len(e.g) && !isWord(e.g[i]) {
		i++
	}
	for i < len(e.g) && isWord(e.g[i]) {
		i++
	}
	return i
}

func (e *ideal) backWord() int {
	i := e.cursor
	for i > 0 && !isWord(e.g[i-1]) {
		i--
	}
	for i > 0 && isWord(e.g[i-1]) {
		i--
	}
	return i
}

func (e *ideal) del(from, to int) {
	e.g = append(append([]string{}, e.g[:from]...), e.g[to:]...)
}

func width(cs []string) int {
	w := 0
	for _, c := range cs {
		w += uniseg.StringWidth(c)
	}
	return w
}

// ---- operations ---------------------------------------------------------------------------------

type op struct {
	Name string
	Kind string // insert left right home end fwdword backword delright delleft killend killstart killword enter paste reset setcontent insertapi
	Key  vaxis.Key
	Text string
}

func key(code rune, mods vaxis.ModifierMask) vaxis.Key {
	return vaxis.Key{Keycode: code, Modifiers: mods}
}

func textKey(s string) vaxis.Key {
	r0 := []rune(s)[0]
	return vaxis.Key{Keycode: r0, Text: s}
}

var inserts = []string{"a", "世", "e\u0301", "👩‍🚀", " "}

func opsFor(widget string) []op {
	var ops []op
	for _, s := range inserts {
		ops = append(ops, op{Name: fmt.Sprintf("type %q", s), Kind: "insert", Key: textKey(s), Text: s})
	}
	two := func(kind string, ctrl rune, named rune, nname string) {
		ops = append(ops, op{Name: "Ctrl+" + string(ctrl), Kind: kind, Key: key(ctrl, vaxis.ModCtrl)})
		if named != 0 {
			ops = append(ops, op{Name: nname, Kind: kind, Key: key(named, 0)})
		}
	}
	two("home", 'a', vaxis.KeyHome, "Home")
	two("end", 'e', vaxis.KeyEnd, "End")
	two("right", 'f', vaxis.KeyRight, "Right")
	two("left", 'b', vaxis.KeyLeft, "Left")
	two("delright", 'd', vaxis.KeyDelete, "Delete")
	two("delleft", 'h', vaxis.KeyBackspace, "BackSpace")
	two("killend", 'k', 0, "")
	ops = append(ops, op{Name: "Enter", Kind: "enter", Key: key(vaxis.KeyEnter, 0)})
	// the other event types a key can arrive with: auto-repeat acts like a press, a release does nothing
	withType := func(k vaxis.Key, t vaxis.EventType) vaxis.Key { k.EventType = t; return k }
	ops = append(ops, op{Name: `type "a" (repeat)`, Kind: "insert", Key: withType(textKey("a"), vaxis.EventRepeat), Text: "a"})
	ops = append(ops, op{Name: "BackSpace (repeat)", Kind: "delleft", Key: withType(key(vaxis.KeyBackspace, 0), vaxis.EventRepeat)})
	ops = append(ops, op{Name: `type "a" (release)`, Kind: "noop", Key: withType(textKey("a"), vaxis.EventRelease), Text: "a"})
	// typing while Num Lock / Caps Lock is on (the kitty protocol reports the lock state in the modifiers)
	lock := textKey("a")
	lock.Modifiers = vaxis.ModNumLock
	ops = append(ops, op{Name: `type "a" (Num Lock on)`, Kind: "insert", Key: lock, Text: "a"})
	caps := vaxis.Key{Keycode: 'a', Text: "A", Modifiers: vaxis.ModCapsLock}
	ops = append(ops, op{Name: `type "A" (Caps Lock on)`, Kind: "insert", Key: caps, Text: "A"})
	if widget == "textfield" {
		// TextField has no paste buffer: a key of a bracketed paste is typed text
		ops = append(ops, op{Name: `key "世" (inside a paste)`, Kind: "insert", Key: withType(textKey("世"), vaxis.EventPaste), Text: "世"})
	}
	if widget == "textinput" {
		two("killstart", 'u', 0, "")
		two("killword", 'w', 0, "")
		ops = append(ops, op{Name: "Alt+f", Kind: "fwdword", Key: key('f', vaxis.ModAlt)}, op{Name: "Ctrl+Right", Kind: "fwdword", Key: key(vaxis.KeyRight, vaxis.ModCtrl)})
		ops = append(ops, op{Name: "Alt+b", Kind: "backword", Key: key('b', vaxis.ModAlt)}, op{Name: "Ctrl+Left", Kind: "backword", Key: key(vaxis.KeyLeft, vaxis.ModCtrl)})
		for _, p := range []string{"", "x", "世e\u0301"} {
			ops = append(ops, op{Name: fmt.Sprintf("paste %q", p), Kind: "paste", Text: p})
		}
		ops = append(ops, op{Name: `SetContent("a世b")`, Kind: "setcontent", Text: "a世b"}, op{Name: `SetContent("")`, Kind: "setcontent", Text: ""})
	} else {
		ops = append(ops, op{Name: "Reset()", Kind: "reset"})
		ops = append(ops, op{Name: `InsertStringAtCursor("xy")`, Kind: "insertapi", Text: "xy"}, op{Name: `InsertStringAtCursor("")`, Kind: "insertapi", Text: ""})
	}
	return ops
}

func (e *ideal) apply(o op, widget string) (changed, submitted bool) {
	before := e.value()
	switch o.Kind {
	case "insert", "insertapi":
		e.insert(o.Text)
	case "paste":
		e.insert(o.Text)
	case "left":
		if e.cursor > 0 {
			e.cursor--
		}
	case "right":
		if e.cursor < len(e.g) {
			e.cursor++
		}
	case "home":
		e.cursor = 0
	case "end":
		e.cursor = len(e.g)
	case "fwdword":
		e.cursor = e.fwdWord()
	case "backword":
		e.cursor = e.backWord()
	case "delright":
		if e.cursor < len(e.g) {
			e.del(e.cursor, e.cursor+1)
		}
	case "delleft":
		if e.cursor > 0 {
			e.del(e.cursor-1, e.cursor)
			e.cursor--
		}
	case "killend":
		e.del(e.cursor, len(e.g))
	case "killstart":
		e.del(0, e.cursor)
		e.cursor = 0
	case "killword":
		b := e.backWord()
		e.del(b, e.cursor)
		e.cursor = b
	case "enter":
		if widget == "textfield" {
			submitted = true
			e.g, e.cursor = nil, 0
			return false, true
		}
	case "reset":
		e.g, e.cursor = nil, 0
		return false, false
	case "setcontent":
		e.g = clusters(o.Text)
		e.cursor = len(e.g)
		return false, false
	}
	return e.value() != before, submitted
}

// ---- harness ----------------------------------------------------------------------------------------

type detail struct {
	Widget string   `json:"widget"`
	Start  string   `json:"start"`
	Ops    []string `json:"operations"`
	Why    string   `json:"why"`
}

var starts = []string{"", "a", "a世b", "ab cd"}

var host *session.Session

func dctx(w uint16) vxfw.DrawContext {
	return vxfw.DrawContext{Max: vxfw.Size{Width: w, Height: 1}, Characters: vaxis.Characters}
}

type cfg struct {
	widget string
	start  string
	ops    []op
}

func runPath(c *cfg, path []uint16) (uint64, explore.Status) {
	e := &ideal{}
	var names []string
	var tf *textfield.TextField
	var ti *textinput.Model
	changes, submits := 0, 0
	var submitted []string
	if c.widget == "textfield" {
		tf = textfield.New()
		tf.OnChange = func(string) (vxfw.Command, error) { changes++; return nil, nil }
		tf.OnSubmit = func(s string) (vxfw.Command, error) { submits++; submitted = append(submitted, s); return nil, nil }
		if c.start != "" {
			tf.InsertStringAtCursor(c.start)
		}
		e.insert(c.start)
	} else {
		ti = textinput.New()
		ti.SetContent(c.start)
		e.g = clusters(c.start)
		e.cursor = len(e.g)
	}
	bad := func(clause, kind, why string) (uint64, explore.Status) {
		r.Violation(fmt.Sprintf("C17|%s|%s|op=%s", c.widget, clause, kind), len(path)*100+len(why)%37, detail{Widget: c.widget, Start: c.start, Ops: names, Why: why})
		return 0, explore.StStop
	}
	for i, oi := range path {
		o := c.ops[oi]
		last := i == len(path)-1
		names = append(names, o.Name)
		preVal := e.value()
		ch0, sb0 := changes, submits
		wantChanged, wantSubmit := e.apply(o, c.widget)
		r.Beat(func() (string, any) {
			return "C17|" + c.widget + "|hang|op=" + o.Kind, detail{Widget: c.widget, Start: c.start, Ops: names, Why: "operation or draw did not return"}
		})
		panicked, site, msg := explore.Guard(func() {
			if tf != nil {
				switch o.Kind {
				case "reset":
					tf.Reset()
				case "insertapi":
					tf.InsertStringAtCursor(o.Text)
				default:
					tf.HandleEvent(o.Key, vxfw.TargetPhase)
				}
			} else {
				switch o.Kind {
				case "setcontent":
					ti.SetContent(o.Text)
				case "paste":
					ti.Update(vaxis.PasteStartEvent{})
					for _, cl := range clusters(o.Text) {
						k := textKey(cl)
						k.EventType = vaxis.EventPaste
						ti.Update(k)
					}
					ti.Update(vaxis.PasteEndEvent{})
				default:
					ti.Update(o.Key)
				}
			}
		})
		if !last {
			if panicked {
				r.Fault("prefix panicked on replay")
			}
			continue
		}
		if panicked {
			return bad("panic|"+site, o.Kind, "panic: "+msg)
		}
		var gotVal string
		var gotCursor int
		if tf != nil {
			gotVal = tf.Value
			// the index is unexported: read through the state dump that /verif/check adds to the build
			c, _ := tf.VerifState()
			gotCursor = int(c)
		} else {
			gotVal, gotCursor = ti.String(), ti.CursorPosition()
		}
		if gotVal != e.value() {
			return bad("value", o.Kind, fmt.Sprintf("value %q, ideal editor %q (before: %q)", gotVal, e.value(), preVal))
		}
		{
			if gotCursor != e.cursor {
				return bad("cursor", o.Kind, fmt.Sprintf("cursor at %d, ideal editor %d (value %q)", gotCursor, e.cursor, gotVal))
			}
		}
		if tf != nil {
			if o.Kind != "reset" && o.Kind != "insertapi" {
				if (changes > ch0) != wantChanged {
					return bad("on-change", o.Kind, fmt.Sprintf("OnChange fired %d times, value changed: %v", changes-ch0, wantChanged))
				}
				if (submits > sb0) != wantSubmit {
					return bad("on-submit", o.Kind, fmt.Sprintf("OnSubmit fired %d times", submits-sb0))
				}
				if wantSubmit && (len(submitted) == 0 || submitted[len(submitted)-1] != preVal) {
					return bad("on-submit", o.Kind, fmt.Sprintf("submitted %q, the line was %q", submitted, preVal))
				}
			}
		}
		// draw at every width; the cursor column equals the width of the text before the cursor while the text fits
		textW := width(e.g)
		before := width(e.g[:e.cursor])
		for w := 0; w <= 8; w++ {
			if tf != nil {
				var s vxfw.Surface
				if p, site, msg := explore.Guard(func() { s, _ = tf.Draw(dctx(uint16(w))) }); p {
					return bad("draw-panic|"+site, o.Kind, fmt.Sprintf("Draw at width %d: %s", w, msg))
				}
				if w == 0 {
					continue
				}
				if s.Cursor == nil {
					return bad("draw-cursor", o.Kind, fmt.Sprintf("no cursor at width %d", w))
				}
				// the cursor index itself is only observable through the drawn column
				if textW < w && int(s.Cursor.Col) != before {
					return bad("cursor", o.Kind, fmt.Sprintf("width %d: cursor drawn at column %d, the text before the cursor is %d columns wide (value %q, ideal cursor %d)", w, s.Cursor.Col, before, gotVal, e.cursor))
				}
			} else {
				root := host.Vx.Window()
				root.Clear()
				host.Vx.HideCursor()
				win := root.New(0, 0, w, 1)
				if p, site, msg := explore.Guard(func() { ti.Draw(win) }); p {
					return bad("draw-panic|"+site, o.Kind, fmt.Sprintf("Draw at width %d: %s", w, msg))
				}
				if w == 0 {
					continue
				}
				host.Vx.Render()
				var col int
				var vis bool
				host.Con.With(func(t *refterm.Terminal) { _, col, _ = t.Cursor(); vis = t.CursorVis })
				if textW+4 < w { // the widget keeps 4 columns of scroll-off
					if !vis || col != before {
						return bad("draw-cursor", o.Kind, fmt.Sprintf("width %d: cursor drawn at column %d (visible=%v), the text before the cursor is %d columns wide", w, col, vis, before))
					}
				}
			}
			r.Count("draws", 1)
		}
		// TextField: probe the cursor index with a marker insert on a copy of the path? Its cursor is
		// unexported; it is observed through the column above and through the next operations of the search.
	}
	k := explore.Hash(c.widget, e.value(), fmt.Sprint(e.cursor))
	if ti != nil {
		off, paste := ti.VerifState()
		k = explore.Hash(c.widget, e.value(), fmt.Sprint(e.cursor), fmt.Sprint(off, paste))
	}
	if tf != nil {
		// the hidden editor state is part of the key: two fields that look alike but differ in their cached
		// grapheme count have different futures
		cur, n := tf.VerifState()
		k = explore.Hash(c.widget, e.value(), fmt.Sprint(e.cursor), fmt.Sprint(tfProbe(tf)), fmt.Sprint(cur, n))
	}
	return k, explore.StOK
}

// tfProbe exposes the TextField's hidden grapheme count through the drawn cursor column of End.
func tfProbe(tf *textfield.TextField) int {
	s, _ := tf.Draw(dctx(200))
	if s.Cursor == nil {
		return -1
	}
	return int(s.Cursor.Col)
}

func main() {
	r = explore.Start("C17")
	var cfgs []*cfg
	for _, w := range []string{"textfield", "textinput"} {
		for _, st := range starts {
			cfgs = append(cfgs, &cfg{widget: w, start: st, ops: opsFor(w)})
		}
	}
	name := func(c *cfg) string { return fmt.Sprintf("%s-%q", c.widget, c.start) }
	byName := map[string]*cfg{}
	for _, c := range cfgs {
		byName[name(c)] = c
	}
	mk := func(c *cfg) *explore.BFS {
		return &explore.BFS{R: r, Name: name(c), NumOps: len(c.ops), MaxDepth: r.Pick(5, 7),
			RunPath: func(p []uint16) (uint64, explore.Status) { return runPath(c, p) }}
	}
	if r.Replay != "" {
		r.ReplayBySearch()
	}
	if _, _, arg, ok := r.Worker(); ok {
		r.Watchdog(30 * time.Second)
		var err error
		host, err = session.Open(refterm.DefaultProfile(refterm.CapUnicodeCore|refterm.CapRGB, refterm.VersionOther), 10, 1, vaxis.Options{})
		if err != nil {
			r.Fault("host: %v", err)
		}
		n := strings.SplitN(arg, ":", 3)[1]
		// the BFS name contains no ':' (contents are quoted without colons)
		mk(byName[n]).WorkerMain(arg)
	}
	var states, trans int64
	bounds := map[string]any{}
	exhaustive := true
	for _, c := range cfgs {
		b := mk(c)
		b.Search()
		states += b.States
		trans += b.Transitions
		bounds[name(c)] = map[string]any{"operations": len(c.ops), "depth_completed": b.DepthDone, "states": b.States, "transitions": b.Transitions}
		if b.DepthDone < b.MaxDepth && !b.Exhausted {
			exhaustive = false
		}
	}
	r.Finish(explore.Coverage{
		States: states, Transitions: trans, Traces: trans, Evaluations: trans,
		Rule:       "explicit-state BFS over operation sequences on vxfw/textfield.TextField and widgets/textinput.Model from 4 start contents: typing narrow, wide, combining, ZWJ and space clusters (also as auto-repeat, key-release and, for TextField, paste-tagged key events, and with Num Lock / Caps Lock reported in the modifiers), every navigation and deletion key in both its control-key and named-key form, Enter, paste brackets with 0-2 clusters, SetContent / Reset / InsertStringAtCursor; after the last operation of every path value and cursor index are compared with an ideal editor over grapheme clusters, callbacks with the ideal editor's verdicts, and the widget is drawn at every width 0..8 (the drawn cursor column must equal the width of the text before the cursor while the text fits); state key = (value, cursor) of the ideal editor, plus the TextField's hidden grapheme count as seen through Draw",
		Exhaustive: exhaustive,
		Bounds:     bounds,
		Assumptions: []string{"a word is a run of single-code-point letter/number clusters (the widget's own notion); word motions are emacs forward-word / backward-word",
			"typed text arrives as whole grapheme clusters"},
	})
}
