// C05, scheduler part: the embedded terminal's own goroutine. The sequential
// harness (props/c05) feeds sequences through the update path one at a time;
// here the real StartWithSize goroutine (parser -> update -> raised events ->
// redraw timer) runs on a socket pair that stands in for the PTY (vpty shim),
// next to a host application modelled on _examples/term (events posted to a
// real Vaxis, Draw on Redraw, Update for keys), under every schedule within the
// deviation bound: child output in chunks, raised events consumed in every
// order and by a slow host, resizes of the host window between and during
// writes, keys forwarded while output arrives, Close while output is pending.
package main

import (
	"fmt"
	"os/exec"
	"strings"

	"git.sr.ht/~rockorager/vaxis"
	vpty "git.sr.ht/~rockorager/vaxis/verifshim/vpty"
	"git.sr.ht/~rockorager/vaxis/verifshim/vsched"
	"git.sr.ht/~rockorager/vaxis/widgets/term"
	"verif.local/mc/schedrig"
)

type host struct {
	w      *schedrig.World
	vt     *term.Model
	child  *vpty.Child
	cols   int
	rows   int
	closed bool

	planned, done int // child actions registered / performed
}

func start(w *schedrig.World, cols, rows int) *host {
	h := &host{w: w, cols: cols, rows: rows}
	seenInput = nil
	h.vt = term.New()
	h.vt.Attach(w.Vx.PostEvent)
	h.vt.Focus()
	if err := h.vt.StartWithSize(exec.Command("true"), cols, rows); err != nil {
		w.Failf("start", "StartWithSize: %v", err)
	}
	h.child = vpty.Last
	return h
}

// output makes "the child writes b" an environment event; the child's actions happen in the
// order in which they were registered (a byte stream), at arbitrary moments.
func (h *host) output(name, b string) {
	k := h.planned
	h.planned++
	vsched.AddEnv("child:"+name, true, func() bool { return !h.closed && h.done == k }, func() { h.child.Output([]byte(b)); h.done++ })
}

func (h *host) hangup() {
	k := h.planned
	h.planned++
	vsched.AddEnv("child:exit", true, func() bool { return !h.closed && h.done == k }, func() { h.child.Hangup(); h.done++ })
}

func (h *host) draw() {
	win := h.w.Vx.Window().New(0, 0, h.cols, h.rows)
	h.w.Vx.HideCursor()
	h.vt.Draw(win)
	h.w.Vx.Render()
}

// step handles one event the way the example application does.
func (h *host) step() bool {
	ev, ok := <-vsched.Pre(h.w.Vx.Events(), vsched.Recv)
	vsched.Post()
	if !ok {
		return false
	}
	switch e := ev.(type) {
	case vaxis.Redraw:
		h.w.Got = append(h.w.Got, "redraw")
		h.draw()
		return true
	case term.EventClosed:
		h.w.Got = append(h.w.Got, "term-closed")
		return true
	case term.EventBell:
		h.w.Got = append(h.w.Got, "bell")
	case term.EventTitle:
		h.w.Got = append(h.w.Got, "title:"+string(e))
	case term.EventAPC:
		h.w.Got = append(h.w.Got, "apc:"+e.Payload)
	case term.EventNotify:
		h.w.Got = append(h.w.Got, "notify:"+e.Body)
	case term.EventPanic:
		h.w.Failf("emulator-panic", "the emulator's goroutine panicked: %.300s", error(e).Error())
	case vaxis.Key:
		h.w.Got = append(h.w.Got, "key:"+e.String())
	default:
		h.w.Got = append(h.w.Got, fmt.Sprintf("%T", ev))
	}
	h.vt.Update(ev)
	return true
}

func (h *host) until(pred func() bool) {
	for i := 0; i < 80 && !pred(); i++ {
		if !h.step() {
			break
		}
	}
	if !pred() {
		h.w.Failf("stalled", "the host never saw what it waited for; events: %v; screen: %q", h.w.Got, h.vt.String())
	}
}

func (h *host) finish() {
	h.closed = true
	h.vt.Close()
	h.w.Vx.Close()
}

// invariants of the emulator's state (cursor inside, margins ordered, rows of the right width)
func (h *host) invariants() {
	s := h.vt.VerifSnapshot()
	if s.Row < 0 || s.Row >= s.Height || s.Col < 0 || s.Col >= s.Width {
		h.w.Failf("invariant", "cursor %d,%d outside %dx%d", s.Row, s.Col, s.Width, s.Height)
	}
	if !(0 <= s.Top && s.Top <= s.Bottom && s.Bottom < s.Height) {
		h.w.Failf("invariant", "margins %d..%d on %d rows", s.Top, s.Bottom, s.Height)
	}
	if s.ActiveRows != s.Height {
		h.w.Failf("invariant", "%d rows, the terminal is %d high", s.ActiveRows, s.Height)
	}
	for _, wd := range s.ActiveRowLens {
		if wd != s.Width {
			h.w.Failf("invariant", "a row has %d cells, the terminal is %d wide", wd, s.Width)
		}
	}
}

func count(l []string, s string) int {
	n := 0
	for _, x := range l {
		if x == s {
			n++
		}
	}
	return n
}

var scenarios = []schedrig.Scenario{
	{Name: "output-in-chunks", Queue: 16, Body: func(w *schedrig.World) {
		h := start(w, 4, 2)
		h.output("1", "ab\r\n")
		h.output("2", "\x1b[31mc")
		h.hangup()
		h.until(func() bool { return w.Seen("term-closed") })
		if got := h.vt.String(); got != "ab  \nc   " {
			w.Failf("screen", "screen is %q after the child wrote ab CR LF SGR31 c", got)
		}
		h.invariants()
		h.finish()
	}},
	{Name: "events-never-stall", Queue: 2, Body: func(w *schedrig.World) {
		// more raised events than the emulator's 2-slot queue and the host's 2-slot queue hold
		h := start(w, 4, 2)
		h.output("bells", "\x07\x07\x07\x07x")
		h.output("title", "\x1b]2;t\x07\x1b_A\x1b\\y")
		h.hangup()
		h.until(func() bool { return w.Seen("term-closed") })
		if got := h.vt.String(); !strings.HasPrefix(got, "xy") {
			w.Failf("screen", "screen is %q: output after the raised events was not processed", got)
		}
		h.finish()
	}},
	{Name: "events-in-order", Queue: 16, Body: func(w *schedrig.World) {
		h := start(w, 4, 2)
		h.output("1", "\x1b]2;1\x07\x07")
		h.output("2", "\x1b_P\x1b\\\x1b]2;2\x07")
		h.hangup()
		h.until(func() bool { return w.Seen("term-closed") })
		var evs []string
		for _, g := range w.Got {
			if g != "redraw" && g != "term-closed" {
				evs = append(evs, g)
			}
		}
		if strings.Join(evs, ",") != "title:1,bell,apc:P,title:2" {
			w.Failf("event-order", "raised events reached the host as %v", evs)
		}
		h.finish()
	}},
	{Name: "window-resized-during-output", Queue: 16, Body: func(w *schedrig.World) {
		h := start(w, 4, 2)
		h.output("1", "abc\ne")
		vsched.AddEnv("host-window-shrinks", true, func() bool { return true }, func() { h.cols, h.rows = 2, 3 })
		h.output("2", "\x1b[2;2Hg\x1b[5;5Hi")
		h.hangup()
		h.until(func() bool { return w.Seen("term-closed") })
		h.draw()
		h.invariants()
		h.finish()
	}},
	{Name: "keys-forwarded-during-output", Queue: 16, Body: func(w *schedrig.World) {
		h := start(w, 4, 2)
		h.output("1", "ab")
		schedrig.TypeBytes(w, "keys", "xy")
		h.until(func() bool { return w.Seen("key:x") && w.Seen("key:y") && strings.HasPrefix(h.vt.String(), "ab") })
		if in := string(h.child.Input()); in != "xy" {
			w.Failf("forwarded-input", "the child received %q for the keys x y", in)
		}
		h.finish()
	}},
	{Name: "close-while-output-pending", Queue: 16, Body: func(w *schedrig.World) {
		h := start(w, 4, 2)
		h.output("1", "ab\x07")
		h.output("2", "cd\x1b]2;t\x07")
		h.step()
		h.finish()
	}},
	{Name: "query-replies-during-draw", Queue: 16, Body: func(w *schedrig.World) {
		// the child asks (DA1, DSR 6): replies are written to the PTY from the emulator's goroutine while the host draws
		h := start(w, 4, 2)
		h.output("1", "a\x1b[c")
		h.output("2", "\x1b[6n")
		h.until(func() bool { return count(w.Got, "redraw") >= 1 && strings.Count(string(peek(h)), "\x1b[") >= 2 })
		h.finish()
	}},
}

var seenInput []byte

// peek accumulates what the child has received so far.
func peek(h *host) []byte {
	seenInput = append(seenInput, h.child.Input()...)
	return seenInput
}

func main() {
	schedrig.QuickFairOnly = true
	schedrig.Main("C05", scenarios, "the real StartWithSize goroutine on a socket pair, with a host modelled on _examples/term: child output in chunks, raised events overflowing both 2-slot queues, raised events in order, the host window shrinking during output (Draw resizes the emulator), keys forwarded while output arrives, Close while output is pending, DA1/DSR replies written while the host draws")
}
