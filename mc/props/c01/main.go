// C01 – rendered terminal equals the application's screen after every frame.
// Explicit-state BFS over pairs (real Vaxis, reference terminal); a transition is
// one frame; successors are obtained by replaying the frame path on a fresh
// session. Plus a history-free sweep of pen transitions.
package main

import (
	"fmt"
	"os"
	"strings"

	"git.sr.ht/~rockorager/vaxis"
	"verif.local/mc/explore"
	"verif.local/mc/refterm"
	"verif.local/mc/screenmodel"
	"verif.local/mc/session"
)

var r *explore.Run

// ---- alphabets ----------------------------------------------------------------------

func ch(g string, w int) vaxis.Character { return vaxis.Character{Grapheme: g, Width: w} }

var cellAlphabet = []vaxis.Cell{
	{},                      // 0: the zero cell
	{Character: ch(" ", 1)}, // 1: Clear's space
	{Character: ch("a", 1)}, // 2
	{Character: ch("a", 1), Style: vaxis.Style{Attribute: vaxis.AttrBold, Foreground: vaxis.IndexColor(1)}},                                                        // 3
	{Character: ch("a", 1), Style: vaxis.Style{Hyperlink: "http://x", HyperlinkParams: "id=1"}},                                                                    // 4
	{Character: ch("b", 1), Style: vaxis.Style{Background: vaxis.RGBColor(0x5f, 0, 0), UnderlineStyle: vaxis.UnderlineCurly, UnderlineColor: vaxis.IndexColor(2)}}, // 5
	{Character: ch("世", 2)}, // 6: explicit width
	{Character: ch("世", 0)}, // 7: auto-measured
	{Character: ch("世", 2), Style: vaxis.Style{Attribute: vaxis.AttrReverse, Foreground: vaxis.IndexColor(9)}}, // 8
	{Character: ch("​", 0)},   // 9: zero width
	{Character: ch("é", 0)},  // 10: combining
	{Character: ch("👩‍🚀", 0)}, // 11: ZWJ sequence
}

var cellNames = []string{"zero", "space", "a", "a-bold-red", "a-link", "b-bg-curly", "世/2", "世/auto", "世/2-rev", "ZWSP", "é", "ZWJ-emoji"}

type frame struct {
	Pre    int // 0 none, 1 Clear, 2 Fill(b styled)
	Write  int // 0 none, 1 SetCell, 2 SetStyle, 3 Print "a世"
	Col    int
	Row    int
	Val    int // cell alphabet index (SetCell) / style index (SetStyle)
	Cursor int // 0 keep, 1 Hide, 2 Show(0,0,block), 3 Show(last col,last row,beam), 4 Show then Hide, 5 Show(0,0,beam)
	Finish int // 0 Render, 1 Refresh, 2 scramble+Refresh, 3.. resize to sizes[Finish-3] (+scramble), redraw, Render
}

func (f frame) String() string {
	var sb strings.Builder
	switch f.Pre {
	case 1:
		sb.WriteString("Clear ")
	case 2:
		sb.WriteString("Fill(b-bg-curly) ")
	}
	switch f.Write {
	case 1:
		fmt.Fprintf(&sb, "SetCell(%d,%d,%s) ", f.Col, f.Row, cellNames[f.Val])
	case 2:
		fmt.Fprintf(&sb, "SetStyle(%d,%d,style%d) ", f.Col, f.Row, f.Val)
	case 3:
		fmt.Fprintf(&sb, "Print@(%d,%d)(\"a世\") ", f.Col, f.Row)
	}
	switch f.Cursor {
	case 1:
		sb.WriteString("HideCursor ")
	case 2:
		sb.WriteString("ShowCursor(0,0,block) ")
	case 3:
		sb.WriteString("ShowCursor(last,last,beam) ")
	case 4:
		sb.WriteString("ShowCursor(0,0,block);HideCursor ")
	case 5:
		sb.WriteString("ShowCursor(0,0,beam) ")
	}
	switch f.Finish {
	case 0:
		sb.WriteString("Render")
	case 1:
		sb.WriteString("Refresh")
	case 2:
		sb.WriteString("scramble;Refresh")
	default:
		fmt.Fprintf(&sb, "resize#%d;Render;redraw;Render", f.Finish-3)
	}
	return sb.String()
}

var setStyles = []vaxis.Style{
	{},
	{Attribute: vaxis.AttrDim | vaxis.AttrItalic, Background: vaxis.IndexColor(200)},
}

type config struct {
	Name       string
	Cols, Rows int
	Prof       refterm.Profile
	Sizes      [][2]int // resize targets
	Frames     []frame
}

// cellFrames: the cell search alphabet for a screen.
func cellFrames(cols, rows int, sizes [][2]int) []frame {
	var fs []frame
	for pre := 0; pre <= 2; pre++ {
		var writes []frame
		writes = append(writes, frame{Pre: pre})
		for row := 0; row < rows; row++ {
			for col := 0; col < cols; col++ {
				for v := range cellAlphabet {
					writes = append(writes, frame{Pre: pre, Write: 1, Col: col, Row: row, Val: v})
				}
				for s := range setStyles {
					writes = append(writes, frame{Pre: pre, Write: 2, Col: col, Row: row, Val: s})
				}
			}
			writes = append(writes, frame{Pre: pre, Write: 3, Col: 0, Row: row})
		}
		for _, w := range writes {
			for fin := 0; fin < 3+len(sizes); fin++ {
				if fin >= 3 && (w.Write != 0 && pre != 0) {
					continue // resize frames: keep a modest variety
				}
				f := w
				f.Finish = fin
				fs = append(fs, f)
			}
		}
	}
	return fs
}

// wideFrames: a small alphabet for deep searches of wide/narrow/never-written overlaps.
func wideFrames(cols int) []frame {
	var fs []frame
	for fin := 0; fin <= 1; fin++ {
		fs = append(fs, frame{Finish: fin})
		for col := 0; col < cols; col++ {
			for _, v := range []int{0, 2, 6, 7} {
				fs = append(fs, frame{Write: 1, Col: col, Val: v, Finish: fin})
			}
		}
	}
	return fs
}

func cursorFrames() []frame {
	var fs []frame
	for w := 0; w <= 2; w++ {
		for cur := 0; cur <= 5; cur++ {
			for fin := 0; fin <= 1; fin++ {
				f := frame{Cursor: cur, Finish: fin}
				switch w {
				case 1:
					f.Write, f.Val = 1, 2 // a at 0,0
				case 2:
					f.Write, f.Val = 1, 5 // b styled at 0,0
				}
				fs = append(fs, f)
			}
		}
	}
	return fs
}

// ---- one execution ---------------------------------------------------------------------

type world struct {
	cfg   *config
	s     *session.Session
	m     *screenmodel.Model
	flush string // first per-flush violation seen
}

func open(cfg *config) (*world, error) {
	s, err := session.Open(cfg.Prof, cfg.Cols, cfg.Rows, vaxis.Options{})
	if err != nil {
		return nil, err
	}
	w := &world{cfg: cfg, s: s, m: screenmodel.New(cfg.Cols, cfg.Rows)}
	s.Con.OnWrite = func(b []byte) {
		t := s.Con.T
		if w.flush != "" {
			return
		}
		pen := t.Pen()
		switch {
		case pen.Link != "":
			w.flush = "flush-link|hyperlink left open after a write"
		case pen != (refterm.Style{}):
			w.flush = "flush-pen|pen not reset after a write: " + pen.String()
		case t.Modes[2026]:
			w.flush = "flush-sync|synchronized update left set after a write"
		case t.SyncSetInWrite != t.SyncResetInWrite:
			w.flush = fmt.Sprintf("flush-sync|%d sets and %d resets of mode 2026 in one write", t.SyncSetInWrite, t.SyncResetInWrite)
		}
	}
	if os.Getenv("VERIF_TRACE") != "" {
		s.Con.Record = true
	}
	s.Drain()
	return w, nil
}

func (w *world) close() { w.s.Vx.Close() }

// fits: a wide glyph is only placed where it fits (the last column is undefined
// behaviour at the terminal and outside the alphabet).
func (w *world) fits(col int, c vaxis.Cell) bool {
	wd := screenmodel.ExpectedWidth(c, w.cfg.Prof)
	if wd < 1 {
		wd = 1
	}
	return col+wd <= w.m.Cols
}

// apply performs one frame on the real Vaxis and on the model. ok=false: frame
// not applicable in this state.
func (w *world) apply(f frame) (ok bool) {
	vx := w.s.Vx
	win := vx.Window()
	if f.Write != 0 && (f.Col >= w.m.Cols || f.Row >= w.m.Rows) {
		return false
	}
	fillCell := cellAlphabet[5]
	switch f.Pre {
	case 1:
		win.Clear()
		w.m.Clear()
	case 2:
		win.Fill(fillCell)
		w.m.Fill(fillCell)
	}
	switch f.Write {
	case 1:
		c := cellAlphabet[f.Val]
		if !w.fits(f.Col, c) {
			return false
		}
		win.SetCell(f.Col, f.Row, c)
		w.m.SetCell(f.Col, f.Row, c)
	case 2:
		win.SetStyle(f.Col, f.Row, setStyles[f.Val])
		w.m.SetStyle(f.Col, f.Row, setStyles[f.Val])
	case 3:
		if w.m.Cols < 3 {
			return false
		}
		// Print through a 1-row child window at (0,row): "a世" needs 3 columns
		child := win.New(0, f.Row, 3, 1)
		st := vaxis.Style{Attribute: vaxis.AttrItalic}
		child.Print(vaxis.Segment{Text: "a世", Style: st})
		w.m.SetCell(0, f.Row, vaxis.Cell{Character: ch("a", 1), Style: st})
		w.m.SetCell(1, f.Row, vaxis.Cell{Character: ch("世", 2), Style: st})
	}
	switch f.Cursor {
	case 1:
		vx.HideCursor()
		w.m.Cursor.Visible = false
	case 2:
		vx.ShowCursor(0, 0, vaxis.CursorBlock)
		w.m.Cursor = screenmodel.Cursor{Visible: true, Row: 0, Col: 0, Shape: vaxis.CursorBlock}
	case 3:
		vx.ShowCursor(w.m.Cols-1, w.m.Rows-1, vaxis.CursorBeam)
		w.m.Cursor = screenmodel.Cursor{Visible: true, Row: w.m.Rows - 1, Col: w.m.Cols - 1, Shape: vaxis.CursorBeam}
	case 4:
		vx.ShowCursor(0, 0, vaxis.CursorBlock)
		vx.HideCursor()
		w.m.Cursor = screenmodel.Cursor{Visible: false}
	case 5:
		vx.ShowCursor(0, 0, vaxis.CursorBeam)
		w.m.Cursor = screenmodel.Cursor{Visible: true, Row: 0, Col: 0, Shape: vaxis.CursorBeam}
	}
	switch {
	case f.Finish == 0:
		vx.Render()
	case f.Finish == 1:
		vx.Refresh()
	case f.Finish == 2:
		w.s.Con.With(func(t *refterm.Terminal) { t.Scramble() })
		vx.Refresh()
	default:
		sz := w.cfg.Sizes[f.Finish-3]
		if sz[0] == w.m.Cols && sz[1] == w.m.Rows {
			return false
		}
		inband := w.cfg.Prof.Has(refterm.CapInBandResize)
		w.s.Con.ResizeTerm(sz[0], sz[1])
		w.s.Con.With(func(t *refterm.Terminal) { t.Scramble() })
		if inband {
			// the terminal reports the new size in band; wait for the library to have seen it
			w.s.Barrier()
		} else {
			vx.Resize()
		}
		vx.Render() // absorbs the size change
		// the application redraws what it had, on the new screen
		old := w.m
		w.m = screenmodel.New(sz[0], sz[1])
		w.m.Cursor = old.Cursor
		if w.m.Cursor.Visible && (w.m.Cursor.Col >= sz[0] || w.m.Cursor.Row >= sz[1]) {
			w.m.Cursor = screenmodel.Cursor{}
			vx.HideCursor()
		}
		nwin := vx.Window()
		for rr := 0; rr < old.Rows && rr < sz[1]; rr++ {
			for cc := 0; cc < old.Cols && cc < sz[0]; cc++ {
				c := old.Cells[rr][cc]
				if c == (vaxis.Cell{}) || !w.fitsIn(cc, c, sz[0]) {
					continue
				}
				nwin.SetCell(cc, rr, c)
				w.m.SetCell(cc, rr, c)
			}
		}
		vx.Render()
		w.s.Drain()
	}
	return true
}

func (w *world) fitsIn(col int, c vaxis.Cell, cols int) bool {
	wd := screenmodel.ExpectedWidth(c, w.cfg.Prof)
	if wd < 1 {
		wd = 1
	}
	return col+wd <= cols
}

type detail struct {
	Search  string   `json:"search"`
	Profile string   `json:"profile"`
	Screen  string   `json:"screen"`
	Frames  []string `json:"frames"`
	Path    string   `json:"path"`
	Why     string   `json:"why"`
}

func prevKind(w *world, row, col int, before [][]refterm.Cell) string {
	if row < len(before) && col < len(before[row]) {
		c := before[row][col]
		switch {
		case c.Poison:
			return "poison"
		case c.Width == 0:
			return "wide-tail"
		case c.Width > 1:
			return "wide"
		case c.Text == "" || c.Text == " ":
			return "blank"
		}
		return "narrow"
	}
	return "none"
}

func finishName(f frame) string {
	switch f.Finish {
	case 0:
		return "Render"
	case 1, 2:
		return "Refresh"
	}
	return "resize"
}

// check evaluates the oracle after the last frame; returns a signature or "".
func (w *world) check(last frame, before [][]refterm.Cell) (sig, why string) {
	if w.flush != "" {
		clause, _, _ := strings.Cut(w.flush, "|")
		return "C01|" + clause, w.flush
	}
	var mm *screenmodel.Mismatch
	var ub []string
	w.s.Con.With(func(t *refterm.Terminal) {
		mm = w.m.Compare(t, w.cfg.Prof)
		ub = t.UB
	})
	if len(ub) > 0 {
		return "C01|unspecified-behaviour|" + strings.SplitN(ub[0], " ", 2)[0], "terminal-specific behaviour relied upon: " + ub[0]
	}
	if mm == nil {
		return "", ""
	}
	switch mm.Clause {
	case "cursor-visible", "cursor-pos", "cursor-shape":
		cellsChanged := "no-cell-change"
		if last.Write != 0 || last.Pre != 0 {
			cellsChanged = "cell-change"
		}
		return fmt.Sprintf("C01|%s|%s|%s|want-visible=%v", mm.Clause, finishName(last), cellsChanged, w.m.Cursor.Visible), mm.Detail
	}
	return fmt.Sprintf("C01|cell-%s|%s|want=%s|shows=%s|before=%s", mm.Clause, finishName(last), mm.WantKind, mm.GotKind, prevKind(w, mm.Row, mm.Col, before)),
		fmt.Sprintf("row %d col %d: %s", mm.Row, mm.Col, mm.Detail)
}

func snapshotGrid(w *world) [][]refterm.Cell {
	var out [][]refterm.Cell
	w.s.Con.With(func(t *refterm.Terminal) {
		for _, row := range t.Grid() {
			out = append(out, append([]refterm.Cell(nil), row...))
		}
	})
	return out
}

func runPath(cfg *config, path []uint16) (uint64, explore.Status) {
	w, err := open(cfg)
	if err != nil {
		r.Fault("session: %v", err)
	}
	defer w.close()
	// the initial frame: the application clears and renders once
	var names []string
	all := append([]uint16{0xFFFF}, path...)
	var before [][]refterm.Cell
	var last frame
	for i, op := range all {
		var f frame
		if op == 0xFFFF {
			f = frame{Pre: 1, Finish: 0}
		} else {
			f = cfg.Frames[op]
		}
		if i == len(all)-1 {
			before = snapshotGrid(w)
		}
		if !w.apply(f) {
			if i == len(all)-1 {
				return 0, explore.StInvalid
			}
			r.Fault("path prefix became invalid on replay: %v", path)
		}
		names = append(names, f.String())
		last = f
	}
	sig, why := w.check(last, before)
	if os.Getenv("VERIF_TRACE") != "" {
		for _, wr := range w.s.Con.Writes {
			fmt.Printf("  write %q\n", strings.ReplaceAll(string(wr), "\x00", ""))
		}
		w.s.Con.With(func(t *refterm.Terminal) { fmt.Print(t.Dump()) })
		fmt.Println("  verdict:", sig, why)
	}
	if sig != "" {
		r.Violation(sig, len(path)*1000+int(func() uint16 {
			if len(path) > 0 {
				return path[len(path)-1]
			}
			return 0
		}()), detail{Search: cfg.Name, Profile: cfg.Prof.String(), Screen: fmt.Sprintf("%dx%d", cfg.Cols, cfg.Rows), Frames: names, Path: fmt.Sprint(path), Why: why})
		return 0, explore.StStop
	}
	var dump string
	w.s.Con.With(func(t *refterm.Terminal) { dump = t.Dump() })
	return explore.Hash(w.s.Vx.VerifState(), dump, w.m.Dump()), explore.StOK
}

// ---- pen sweep (history-free) -------------------------------------------------------------

func colorClasses() []vaxis.Color {
	return []vaxis.Color{0, vaxis.IndexColor(3), vaxis.IndexColor(12), vaxis.IndexColor(200), vaxis.RGBColor(0x87, 0xaf, 0x00)}
}

func penSweep(cfgName string, prof refterm.Profile, shard, nshard int) {
	cfg := &config{Name: cfgName, Cols: 2, Rows: 1, Prof: prof}
	w, err := open(cfg)
	if err != nil {
		r.Fault("session: %v", err)
	}
	defer w.close()
	cc := colorClasses()
	links := []vaxis.Style{{}, {Hyperlink: "A"}, {Hyperlink: "A", HyperlinkParams: "id=7"}, {Hyperlink: "B"}}
	var styles [][2]vaxis.Style
	for a := 0; a < 128; a++ {
		for b := 0; b < 128; b++ {
			styles = append(styles, [2]vaxis.Style{{Attribute: vaxis.AttributeMask(a << 1)}, {Attribute: vaxis.AttributeMask(b << 1)}})
		}
	}
	var cols []vaxis.Style
	for _, fg := range cc {
		for _, bg := range cc {
			for _, ul := range cc {
				cols = append(cols, vaxis.Style{Foreground: fg, Background: bg, UnderlineColor: ul, UnderlineStyle: vaxis.UnderlineSingle})
			}
		}
	}
	for _, a := range cols {
		for _, b := range cols {
			styles = append(styles, [2]vaxis.Style{a, b})
		}
	}
	for a := 0; a < 6; a++ {
		for b := 0; b < 6; b++ {
			styles = append(styles, [2]vaxis.Style{{UnderlineStyle: vaxis.UnderlineStyle(a), UnderlineColor: vaxis.IndexColor(5)}, {UnderlineStyle: vaxis.UnderlineStyle(b)}})
		}
	}
	for _, a := range links {
		for _, b := range links {
			styles = append(styles, [2]vaxis.Style{a, b})
		}
	}
	win := w.s.Vx.Window()
	for i, p := range styles {
		if i%nshard != shard {
			continue
		}
		for k := 0; k < 2; k++ {
			c := vaxis.Cell{Character: ch("x", 1), Style: p[k]}
			win.SetCell(k, 0, c)
			w.m.SetCell(k, 0, c)
		}
		fin := frame{Finish: i % 2} // alternate Render (diff against the previous pair) and Refresh
		if fin.Finish == 0 {
			w.s.Vx.Render()
		} else {
			w.s.Vx.Refresh()
		}
		r.Count("pen_pairs", 1)
		sig, why := w.check(fin, nil)
		if sig != "" {
			sig = strings.Replace(sig, "C01|", "C01|pen-sweep|", 1)
			r.Violation(sig, i, map[string]any{"search": "pen-sweep", "profile": prof.String(), "left": fmt.Sprintf("%+v", p[0]), "right": fmt.Sprintf("%+v", p[1]), "finish": finishName(fin), "why": why})
			return
		}
		r.Distinct(explore.Hash("pen", cfgName, fmt.Sprintf("%+v", p)))
	}
}

// largeFrameSweep: frames of several tens of kilobytes (every cell of a 100x40 screen styled): whatever the
// writer does with its buffer inside a frame, the pen the renderer tracks and the terminal's pen stay the same.
func largeFrameSweep(cfgName string, prof refterm.Profile) {
	cfg := &config{Name: cfgName, Cols: 100, Rows: 40, Prof: prof}
	w, err := open(cfg)
	if err != nil {
		r.Fault("session: %v", err)
	}
	defer w.close()
	win := w.s.Vx.Window()
	paint := func(variant int) {
		for y := 0; y < cfg.Rows; y++ {
			for x := 0; x < cfg.Cols; x++ {
				st := vaxis.Style{Background: vaxis.IndexColor(4), Foreground: vaxis.IndexColor(uint8(100 + 100*((x+variant)%2)))}
				switch variant {
				case 1:
					st.Attribute = vaxis.AttrBold
					st.UnderlineStyle = vaxis.UnderlineCurly
					st.UnderlineColor = vaxis.RGBColor(1, 2, uint8(x))
				case 2:
					st.Hyperlink = "http://example.com/a/rather/long/link"
					st.Background = vaxis.RGBColor(uint8(y), 20, 30)
				}
				c := vaxis.Cell{Character: ch(string(rune('a'+(x+y+variant)%26)), 1), Style: st}
				win.SetCell(x, y, c)
				w.m.SetCell(x, y, c)
			}
		}
	}
	for i := 0; i < 6; i++ {
		paint(i % 3)
		fin := frame{Finish: i / 3} // three Renders, then three Refreshes
		if fin.Finish == 0 {
			w.s.Vx.Render()
		} else {
			w.s.Vx.Refresh()
		}
		r.Count("large_frames", 1)
		sig, why := w.check(fin, nil)
		if sig != "" {
			sig = strings.Replace(sig, "C01|", "C01|large-frame|", 1)
			r.Violation(sig, i, map[string]any{"search": "large-frame", "profile": prof.String(), "frame": i, "finish": finishName(fin), "why": why})
			return
		}
		r.Distinct(explore.Hash("large", cfgName, fmt.Sprint(i)))
	}
}

// resizeHistorySweep: every sequence of up to three size changes (same width with other heights, same height
// with other widths, both) of a fully painted 3x3 screen; after each one the application draws a single cell,
// and every other cell must be blank - whatever the screen buffers held before.
func resizeHistorySweep(cfgName string, prof refterm.Profile) {
	sizes := [][2]int{{3, 1}, {3, 2}, {3, 3}, {2, 3}, {4, 3}, {3, 4}}
	inband := prof.Has(refterm.CapInBandResize)
	var rec func(seq []int)
	rec = func(seq []int) {
		if len(seq) > 0 {
			cfg := &config{Name: cfgName, Cols: 3, Rows: 3, Prof: prof}
			w, err := open(cfg)
			if err != nil {
				r.Fault("session: %v", err)
			}
			win := w.s.Vx.Window()
			for y := 0; y < 3; y++ {
				for x := 0; x < 3; x++ {
					c := vaxis.Cell{Character: ch("Q", 1), Style: vaxis.Style{Attribute: vaxis.AttrBold, Background: vaxis.IndexColor(4)}}
					win.SetCell(x, y, c)
					w.m.SetCell(x, y, c)
				}
			}
			w.s.Vx.Render()
			var names []string
			ok := true
			for _, si := range seq {
				sz := sizes[si]
				names = append(names, fmt.Sprintf("resize to %dx%d, draw one cell, Render", sz[0], sz[1]))
				if sz[0] == w.m.Cols && sz[1] == w.m.Rows {
					ok = false // not a change: the sequence is covered by a shorter one
					break
				}
				w.s.Con.ResizeTerm(sz[0], sz[1])
				if inband {
					w.s.Barrier()
				} else {
					w.s.Vx.Resize()
				}
				w.s.Vx.Render() // absorbs the size change
				w.m = screenmodel.New(sz[0], sz[1])
				c := vaxis.Cell{Character: ch("x", 1)}
				w.s.Vx.Window().SetCell(0, 0, c)
				w.m.SetCell(0, 0, c)
				w.s.Vx.Render()
				w.s.Drain()
				r.Count("resize_histories", 1)
				if sig, why := w.check(frame{Finish: 0}, nil); sig != "" {
					sig = strings.Replace(sig, "C01|", "C01|resize-history|", 1)
					r.Violation(sig, len(seq), map[string]any{"search": "resize-history", "profile": prof.String(), "steps": names, "why": why})
					ok = false
					break
				}
			}
			if ok {
				r.Distinct(explore.Hash("resize-history", cfgName, fmt.Sprint(seq)))
			}
			w.close()
		}
		if len(seq) == 3 {
			return
		}
		for i := range sizes {
			rec(append(append([]int{}, seq...), i))
		}
	}
	rec(nil)
}

// controlCellSweep: a cell whose grapheme is a lone control byte (a stray TAB, LF, BS, CR or ESC in text the
// application printed; display width 0) shows as a blank and leaves its neighbours where they are - the byte must
// never reach the terminal, which would execute it. Every C0 byte and DEL, at every column of a 4x2 screen,
// drawn over an empty and over a painted screen, by Render and by Refresh.
func controlCellSweep(cfgName string, prof refterm.Profile) {
	for b := 0; b <= 0x20; b++ {
		g := string(rune(b))
		if b == 0x20 {
			g = "\x7f"
		}
		for col := 0; col < 4; col++ {
			for variant := 0; variant < 4; variant++ {
				cfg := &config{Name: cfgName, Cols: 4, Rows: 2, Prof: prof}
				w, err := open(cfg)
				if err != nil {
					r.Fault("session: %v", err)
				}
				win := w.s.Vx.Window()
				row := func() {
					for x := 0; x < 4; x++ {
						for y := 0; y < 2; y++ {
							c := vaxis.Cell{Character: ch(string(rune('a'+x+4*y)), 1), Style: vaxis.Style{Foreground: vaxis.IndexColor(uint8(1 + x))}}
							win.SetCell(x, y, c)
							w.m.SetCell(x, y, c)
						}
					}
				}
				if variant&1 != 0 {
					row()
					w.s.Vx.Render()
				}
				row()
				st := vaxis.Style{Attribute: vaxis.AttrBold}
				win.SetCell(col, 0, vaxis.Cell{Character: ch(g, 0), Style: st})
				w.m.SetCell(col, 0, vaxis.Cell{Character: ch(" ", 1), Style: st})
				fin := frame{Finish: variant / 2}
				if fin.Finish == 0 {
					w.s.Vx.Render()
				} else {
					w.s.Vx.Refresh()
				}
				r.Count("control_cells", 1)
				if sig, why := w.check(fin, nil); sig != "" {
					sig = strings.Replace(sig, "C01|", "C01|control-cell|", 1)
					r.Violation(sig, b, map[string]any{"search": "control-cell", "profile": prof.String(), "cell": fmt.Sprintf("SetCell(%d,0,%q width 0)", col, g), "painted_before": variant&1 != 0, "finish": finishName(fin), "why": why})
				} else {
					r.Distinct(explore.Hash("control", cfgName, fmt.Sprint(b, col, variant)))
				}
				w.close()
			}
		}
	}
}

// ---- main -----------------------------------------------------------------------------------

func profiles() map[string]refterm.Profile {
	gatingAll := refterm.Cap(1<<refterm.NumGatingCaps - 1)
	mk := func(c refterm.Cap) refterm.Profile { return refterm.DefaultProfile(c, refterm.VersionOther) }
	return map[string]refterm.Profile{
		"none":      mk(0),
		"all":       mk(gatingAll | refterm.CapSizeReports | refterm.CapDECRQSS),
		"sync":      mk(refterm.CapSync),
		"rgb":       mk(refterm.CapRGB),
		"styledul":  mk(refterm.CapSmulx),
		"explicitw": mk(refterm.CapExplicitWidth | refterm.CapRGB),
		"unicode":   mk(refterm.CapUnicodeCore | refterm.CapSync),
		"inband":    mk(refterm.CapInBandResize),
		"kitty":     refterm.DefaultProfile(refterm.CapRGB|refterm.CapSmulx|refterm.CapKittyKB, refterm.VersionKitty),
	}
}

func configs(thorough bool) []*config {
	p := profiles()
	var cs []*config
	add := func(name string, cols, rows int, prof string, sizes [][2]int, cursor bool) {
		c := &config{Name: name, Cols: cols, Rows: rows, Prof: p[prof], Sizes: sizes}
		if cursor {
			c.Frames = cursorFrames()
		} else {
			c.Frames = cellFrames(cols, rows, sizes)
		}
		cs = append(cs, c)
	}
	add("cells-3x1-none", 3, 1, "none", [][2]int{{4, 1}, {2, 2}}, false)
	add("cells-3x1-all", 3, 1, "all", [][2]int{{4, 1}}, false)
	add("cells-4x1-unicode", 4, 1, "unicode", nil, false)
	add("cells-2x2-rgb", 2, 2, "rgb", nil, false)
	add("cells-3x1-styledul", 3, 1, "styledul", nil, false)
	add("cells-3x1-explicitw", 3, 1, "explicitw", nil, false)
	add("cells-3x1-sync", 3, 1, "sync", nil, false)
	add("cells-3x1-inband", 3, 1, "inband", [][2]int{{4, 1}, {2, 2}}, false)
	add("cells-4x1-kitty", 4, 1, "kitty", nil, false)
	for _, wc := range []struct {
		name string
		cols int
		prof string
	}{{"wide-3x1-none", 3, "none"}, {"wide-4x1-unicode", 4, "unicode"}} {
		cs = append(cs, &config{Name: wc.name, Cols: wc.cols, Rows: 1, Prof: p[wc.prof], Frames: wideFrames(wc.cols)})
	}
	add("cursor-2x2-none", 2, 2, "none", nil, true)
	add("cursor-2x2-all", 2, 2, "all", nil, true)
	if thorough {
		add("cells-3x2-none", 3, 2, "none", [][2]int{{2, 3}}, false)
		add("cells-5x1-all", 5, 1, "all", [][2]int{{3, 1}}, false)
		add("cells-2x3-unicode", 2, 3, "unicode", nil, false)
	}
	return cs
}

func main() {
	r = explore.Start("C01")
	cfgs := configs(r.Thorough())
	byName := map[string]*config{}
	for _, c := range cfgs {
		byName[c.Name] = c
	}
	depthCells := r.Pick(2, 3)
	depthCursor := r.Pick(4, 5)
	mkBFS := func(c *config) *explore.BFS {
		d := depthCells
		if strings.HasPrefix(c.Name, "cursor") {
			d = depthCursor
		}
		if strings.HasPrefix(c.Name, "wide") {
			d = r.Pick(4, 6)
		}
		return &explore.BFS{R: r, Name: c.Name, NumOps: len(c.Frames), MaxDepth: d,
			RunPath: func(p []uint16) (uint64, explore.Status) { return runPath(c, p) }}
	}
	if r.Replay != "" {
		var d detail
		sig := r.LoadReplay(&d)
		c := byName[d.Search]
		var path []uint16
		for _, x := range strings.Fields(strings.Trim(d.Path, "[]")) {
			var v int
			fmt.Sscan(x, &v)
			path = append(path, uint16(v))
		}
		fmt.Printf("replaying %s\n  %s on %s: %v\n", sig, d.Search, d.Profile, d.Frames)
		runPath(c, path)
		r.Finish(explore.Coverage{States: 1, Transitions: 1, Traces: 1, Evaluations: 1, Rule: "replay"})
	}
	if idx, n, arg, ok := r.Worker(); ok {
		r.Watchdog(60e9)
		if strings.HasPrefix(arg, "bfs:") {
			name := strings.SplitN(arg, ":", 3)[1]
			mkBFS(byName[name]).WorkerMain(arg)
		}
		if arg == "pen" {
			for name, prof := range profiles() {
				switch name {
				case "none", "all", "rgb", "styledul", "sync":
					penSweep(name, prof, idx, n)
				}
			}
			for i, name := range []string{"none", "all", "rgb", "styledul", "sync"} {
				if i%n == idx {
					largeFrameSweep(name, profiles()[name])
				}
			}
			for i, name := range []string{"none", "inband"} {
				if (i+5)%n == idx {
					resizeHistorySweep(name, profiles()[name])
				}
			}
			for i, name := range []string{"none", "all"} {
				if (i+7)%n == idx {
					controlCellSweep(name, profiles()[name])
				}
			}
			r.WorkerDone()
		}
		r.Fault("unknown worker arg %q", arg)
	}
	var states, trans int64
	bounds := map[string]any{}
	exhaustive := true
	for _, c := range cfgs {
		b := mkBFS(c)
		b.Search()
		states += b.States
		trans += b.Transitions
		bounds[c.Name] = map[string]any{"screen": fmt.Sprintf("%dx%d", c.Cols, c.Rows), "profile": c.Prof.String(), "frame_alphabet": len(c.Frames),
			"depth_completed": b.DepthDone, "states": b.States, "transitions": b.Transitions, "frontier_at_cutoff": b.Frontier, "frontier_empty": b.Exhausted}
		if b.DepthDone < b.MaxDepth && !b.Exhausted {
			exhaustive = false
		}
	}
	r.Spawn(16, "pen", 0)
	trans += r.Get("pen_pairs")
	r.Finish(explore.Coverage{
		States: states, Transitions: trans, Traces: trans, Evaluations: trans,
		Rule:       "explicit-state BFS over (real Vaxis, reference terminal) pairs; transition = one frame (optional Clear/Fill, one SetCell/SetStyle/Print from a 12-cell alphabet, optional cursor request, then Render | Refresh | scramble+Refresh | resize); successor = replay of the frame path on a fresh session; state key = hash(renderer state dump, terminal dump, application record); plus a history-free sweep of ordered style pairs on a 2x1 screen. distinct = distinct canonical states + distinct style pairs that passed; large frames: a 100x40 screen with every cell styled (three style variants incl. RGB, styled underline and a hyperlink per cell; tens of kilobytes per frame), three Renders and three Refreshes per capability profile; resize histories: every sequence of up to three size changes over six sizes (heights and widths around 3x3) of a fully painted screen, one cell drawn after each - every other cell must be blank; control cells: a cell holding a lone C0 byte or DEL (width 0) at every column of a 4x2 screen, over an empty and a painted screen, by Render and Refresh, on two profiles - it shows as a blank and the byte never reaches the terminal",
		Exhaustive: exhaustive,
		Bounds:     bounds,
		Assumptions: []string{
			"the reference terminal's width tables (go-runewidth / uniseg data, applied by independent code) agree with the terminal in use",
			"a wide glyph in the terminal's last column is undefined behaviour at the terminal and outside the alphabet",
			"8192 leading NUL bytes of the first flush are ignored by a conforming terminal",
		},
	})
}
