// C12 – a Vaxis application renders correctly inside the embedded terminal.
// C01's frame BFS with the terminal side replaced by the real term.Model (guest
// bytes -> real ansi.Parser -> Model; the Model's replies are the guest's
// input), then the Model is drawn into a host Vaxis on the reference terminal.
package main

import (
	"fmt"
	"strings"
	"time"

	"git.sr.ht/~rockorager/vaxis"
	vsignal "git.sr.ht/~rockorager/vaxis/verifshim/vsignal"
	vtime "git.sr.ht/~rockorager/vaxis/verifshim/vtime"
	"verif.local/mc/emucon"
	"verif.local/mc/explore"
	"verif.local/mc/refterm"
	"verif.local/mc/screenmodel"
	"verif.local/mc/session"
)

var r *explore.Run

func ch(g string, w int) vaxis.Character { return vaxis.Character{Grapheme: g, Width: w} }

var cellAlphabet = []vaxis.Cell{
	{},
	{Character: ch(" ", 1)},
	{Character: ch("a", 1)},
	{Character: ch("a", 1), Style: vaxis.Style{Attribute: vaxis.AttrBold | vaxis.AttrItalic, Foreground: vaxis.IndexColor(1)}},
	{Character: ch("a", 1), Style: vaxis.Style{Hyperlink: "http://x", HyperlinkParams: "id=1"}},
	{Character: ch("b", 1), Style: vaxis.Style{Background: vaxis.RGBColor(0x5f, 0, 0), UnderlineStyle: vaxis.UnderlineCurly, UnderlineColor: vaxis.IndexColor(2)}},
	{Character: ch("b", 1), Style: vaxis.Style{Foreground: vaxis.IndexColor(12), Background: vaxis.IndexColor(200), Attribute: vaxis.AttrReverse | vaxis.AttrDim | vaxis.AttrStrikethrough | vaxis.AttrBlink | vaxis.AttrInvisible}},
	{Character: ch("世", 2)},
	{Character: ch("世", 0)},
	{Character: ch("e\u0301", 0)},
	{Character: ch("👩‍🚀", 0)},
	{Character: ch("🇺🇸", 0)},
	{Character: ch("❤️", 0)},
	{Character: ch("​", 0)},
}
var cellNames = []string{"zero", "space", "a", "a-bold-italic-red", "a-link", "b-bg-curly", "b-all-attrs", "世/2", "世/auto", "é", "ZWJ-emoji", "flag", "heart+VS16", "ZWSP"}

type frame struct {
	Clear  bool
	Write  bool
	Col    int
	Row    int
	Val    int
	Cursor int // 0 keep 1 hide 2 show(0,0,block) 3 show(last,last,beam blinking)
	Finish int // 0 Render 1 Refresh
}

func (f frame) String() string {
	var sb strings.Builder
	if f.Clear {
		sb.WriteString("Clear ")
	}
	if f.Write {
		fmt.Fprintf(&sb, "SetCell(%d,%d,%s) ", f.Col, f.Row, cellNames[f.Val])
	}
	sb.WriteString([]string{"", "HideCursor ", "ShowCursor(0,0,block) ", "ShowCursor(last,last,beam-blinking) "}[f.Cursor])
	sb.WriteString([]string{"Render", "Refresh"}[f.Finish])
	return sb.String()
}

type config struct {
	Name       string
	Cols, Rows int
	Frames     []frame
}

func frames(cols, rows int) []frame {
	var fs []frame
	for _, clear := range []bool{false, true} {
		for fin := 0; fin <= 1; fin++ {
			for cur := 0; cur <= 3; cur++ {
				fs = append(fs, frame{Clear: clear, Cursor: cur, Finish: fin})
			}
			for row := 0; row < rows; row++ {
				for col := 0; col < cols; col++ {
					for v := range cellAlphabet {
						fs = append(fs, frame{Clear: clear, Write: true, Col: col, Row: row, Val: v, Finish: fin})
					}
				}
			}
		}
	}
	return fs
}

type world struct {
	cfg  *config
	con  *emucon.Console
	vx   *vaxis.Vaxis
	m    *screenmodel.Model
	prof refterm.Profile // what the emulator advertised, as the guest understood it
}

func barrier(con *emucon.Console, vx *vaxis.Vaxis) {
	con.Inject([]byte("\x1b[I"))
	for ev := range vx.Events() {
		if _, ok := ev.(vaxis.FocusIn); ok {
			return
		}
	}
}

func open(cfg *config) *world {
	vtime.ResetClock()
	vsignal.ResetAll()
	con, err := emucon.New(cfg.Cols, cfg.Rows)
	if err != nil {
		r.Fault("emucon: %v", err)
	}
	vx, err := vaxis.New(vaxis.Options{WithConsole: con})
	if err != nil {
		r.Fault("guest New: %v", err)
	}
	barrier(con, vx)
	caps := vx.VerifCaps()
	var c refterm.Cap
	if caps["rgb"] {
		c |= refterm.CapRGB
	}
	if caps["styledUnderlines"] {
		c |= refterm.CapSmulx
	}
	if caps["unicodeCore"] {
		c |= refterm.CapUnicodeCore
	}
	if caps["explicitWidth"] {
		c |= refterm.CapExplicitWidth
	}
	return &world{cfg: cfg, con: con, vx: vx, m: screenmodel.New(cfg.Cols, cfg.Rows), prof: refterm.DefaultProfile(c, refterm.VersionNone)}
}

func (w *world) close() {
	w.vx.Close()
	w.con.Shutdown()
}

func (w *world) apply(f frame) bool {
	win := w.vx.Window()
	if f.Clear {
		win.Clear()
		w.m.Clear()
	}
	if f.Write {
		c := cellAlphabet[f.Val]
		wd := screenmodel.ExpectedWidth(c, w.prof)
		if wd < 1 {
			wd = 1
		}
		// the guest measures with the method the emulator's replies select; a glyph is only
		// placed where it fits under both that measure and the emulator's own
		ew := refterm.NaturalWidth(c.Grapheme, refterm.WidthCluster)
		if c.Width != 0 {
			ew = c.Width
		}
		if f.Col+wd > w.m.Cols || f.Col+ew > w.m.Cols {
			return false
		}
		win.SetCell(f.Col, f.Row, c)
		w.m.SetCell(f.Col, f.Row, c)
	}
	switch f.Cursor {
	case 1:
		w.vx.HideCursor()
		w.m.Cursor.Visible = false
	case 2:
		w.vx.ShowCursor(0, 0, vaxis.CursorBlock)
		w.m.Cursor = screenmodel.Cursor{Visible: true, Shape: vaxis.CursorBlock}
	case 3:
		w.vx.ShowCursor(w.m.Cols-1, w.m.Rows-1, vaxis.CursorBeamBlinking)
		w.m.Cursor = screenmodel.Cursor{Visible: true, Row: w.m.Rows - 1, Col: w.m.Cols - 1, Shape: vaxis.CursorBeamBlinking}
	}
	if f.Finish == 0 {
		w.vx.Render()
	} else {
		w.vx.Refresh()
	}
	return true
}

type detail struct {
	Search string   `json:"search"`
	Screen string   `json:"screen"`
	Frames []string `json:"frames"`
	Stage  string   `json:"stage"`
	Why    string   `json:"why"`
}

var hosts = map[string]*session.Session{}

func hostFor(cfg *config) *session.Session {
	if h, ok := hosts[cfg.Name]; ok {
		return h
	}
	all := refterm.Cap(1<<refterm.NumGatingCaps-1) &^ refterm.CapInBandResize
	h, err := session.Open(refterm.DefaultProfile(all, refterm.VersionOther), cfg.Cols, cfg.Rows, vaxis.Options{})
	if err != nil {
		r.Fault("host: %v", err)
	}
	hosts[cfg.Name] = h
	return h
}

func runPath(cfg *config, path []uint16) (uint64, explore.Status) {
	w := open(cfg)
	defer w.close()
	var names []string
	all := append([]uint16{0xFFFF}, path...)
	var last frame
	for i, op := range all {
		f := frame{Clear: true}
		if op != 0xFFFF {
			f = cfg.Frames[op]
		}
		if !w.apply(f) {
			if i == len(all)-1 {
				return 0, explore.StInvalid
			}
			r.Fault("prefix invalid on replay")
		}
		names = append(names, f.String())
		last = f
	}
	bad := func(stage string, mm *screenmodel.Mismatch) (uint64, explore.Status) {
		fin := []string{"Render", "Refresh"}[last.Finish]
		sig := fmt.Sprintf("C12|%s|%s|%s|want=%s|shows=%s", stage, mm.Clause, fin, mm.WantKind, mm.GotKind)
		if strings.HasPrefix(mm.Clause, "cursor") {
			sig = fmt.Sprintf("C12|%s|%s|%s|want-visible=%v", stage, mm.Clause, fin, w.m.Cursor.Visible)
		}
		r.Violation(sig, len(path)*1000+len(mm.Detail)%97, detail{Search: cfg.Name, Screen: fmt.Sprintf("%dx%d", cfg.Cols, cfg.Rows), Frames: names, Stage: stage, Why: fmt.Sprintf("row %d col %d: %s", mm.Row, mm.Col, mm.Detail)})
		return 0, explore.StStop
	}
	snap := w.con.M.VerifSnapshot()
	if mm := w.m.Compare(emucon.View{S: snap}, w.prof); mm != nil {
		return bad("emulator", mm)
	}
	// draw the emulator into a host window of the same size
	h := hostFor(cfg)
	hw := h.Vx.Window()
	hw.Clear()
	h.Vx.HideCursor()
	w.con.M.Focus()
	w.con.M.Draw(hw)
	h.Vx.Render()
	// the host's next frame, with nothing new from the child in between: the usual Clear / Draw / Render loop
	hw.Clear()
	h.Vx.HideCursor()
	w.con.M.Draw(hw)
	h.Vx.Render()
	var mm *screenmodel.Mismatch
	var ub []string
	h.Con.With(func(t *refterm.Terminal) {
		mm = w.m.Compare(t, w.prof)
		ub = t.UB
		t.UB = nil
	})
	if len(ub) > 0 {
		h.Vx.Refresh()
		r.Violation("C12|host|unspecified-behaviour", len(path)*1000, detail{Search: cfg.Name, Frames: names, Stage: "host", Why: ub[0]})
		return 0, explore.StStop
	}
	if mm != nil {
		h.Vx.Refresh()
		return bad("host", mm)
	}
	return explore.Hash(w.vx.VerifState(), fmt.Sprintf("%+v", snap), w.m.Dump()), explore.StOK
}

// paletteSweep: every palette index as foreground, background and underline colour, 16 per frame
// (each index class has its own SGR form: 30-37, 90-97, 38:5:n and the 4x/10x/48/58 twins).
func paletteSweep() {
	cfg := &config{Name: "palette", Cols: 16, Rows: 3}
	w := open(cfg)
	defer w.close()
	for base := 0; base < 256; base += 16 {
		win := w.vx.Window()
		for i := 0; i < 16; i++ {
			idx := vaxis.IndexColor(uint8(base + i))
			cells := []vaxis.Cell{
				{Character: ch("f", 1), Style: vaxis.Style{Foreground: idx}},
				{Character: ch("b", 1), Style: vaxis.Style{Background: idx}},
				{Character: ch("u", 1), Style: vaxis.Style{UnderlineStyle: vaxis.UnderlineSingle, UnderlineColor: idx}},
			}
			for row, c := range cells {
				win.SetCell(i, row, c)
				w.m.SetCell(i, row, c)
			}
		}
		w.vx.Render()
		r.Count("palette_frames", 1)
		snap := w.con.M.VerifSnapshot()
		if mm := w.m.Compare(emucon.View{S: snap}, w.prof); mm != nil {
			r.Violation(fmt.Sprintf("C12|emulator|palette|%s|want=%s|shows=%s", mm.Clause, mm.WantKind, mm.GotKind), base,
				detail{Search: "palette", Screen: "16x3", Frames: []string{fmt.Sprintf("indices %d..%d as fg / bg / underline colour", base, base+15)}, Stage: "emulator", Why: fmt.Sprintf("row %d col %d: %s", mm.Row, mm.Col, mm.Detail)})
			return
		}
	}
}

// attributeSweep: every combination of the seven attribute bits, 16 cells per frame.
func attributeSweep() {
	cfg := &config{Name: "attributes", Cols: 16, Rows: 1}
	w := open(cfg)
	defer w.close()
	for base := 0; base < 128; base += 16 {
		win := w.vx.Window()
		for i := 0; i < 16; i++ {
			c := vaxis.Cell{Character: ch("a", 1), Style: vaxis.Style{Attribute: vaxis.AttributeMask((base + i) << 1)}}
			win.SetCell(i, 0, c)
			w.m.SetCell(i, 0, c)
		}
		w.vx.Render()
		r.Count("attribute_frames", 1)
		snap := w.con.M.VerifSnapshot()
		if mm := w.m.Compare(emucon.View{S: snap}, w.prof); mm != nil {
			r.Violation(fmt.Sprintf("C12|emulator|attributes|%s|want=%s|shows=%s", mm.Clause, mm.WantKind, mm.GotKind), base,
				detail{Search: "attributes", Screen: "16x1", Frames: []string{fmt.Sprintf("attribute masks %d..%d", base, base+15)}, Stage: "emulator", Why: fmt.Sprintf("row %d col %d: %s", mm.Row, mm.Col, mm.Detail)})
			return
		}
	}
}

// linkSweep: every ordered pair of hyperlink states (none; two URLs; each with no id, id=1, id=2) in neighbouring
// cells of one row, written in one frame, then the second cell alone rewritten in the next frame.
func linkSweep() {
	cfg := &config{Name: "links", Cols: 14, Rows: 2}
	w := open(cfg)
	defer w.close()
	links := []vaxis.Style{{}}
	for _, u := range []string{"http://x", "http://y"} {
		for _, id := range []string{"", "id=1", "id=2"} {
			links = append(links, vaxis.Style{Hyperlink: u, HyperlinkParams: id})
		}
	}
	check := func(what string, cost int) bool {
		snap := w.con.M.VerifSnapshot()
		if mm := w.m.Compare(emucon.View{S: snap}, w.prof); mm != nil {
			r.Violation(fmt.Sprintf("C12|emulator|links|%s|want=%s|shows=%s", mm.Clause, mm.WantKind, mm.GotKind), cost,
				detail{Search: "links", Screen: "14x2", Frames: []string{what}, Stage: "emulator", Why: fmt.Sprintf("row %d col %d: %s", mm.Row, mm.Col, mm.Detail)})
			return false
		}
		return true
	}
	for ai, a := range links {
		win := w.vx.Window()
		// one row: a b0 a b1 a b2 ... (every b after this a), all written in one frame
		for bi, b := range links {
			for k, st := range []vaxis.Style{a, b} {
				c := vaxis.Cell{Character: ch(string(rune('a'+k)), 1), Style: st}
				win.SetCell(2*bi+k, 0, c)
				w.m.SetCell(2*bi+k, 0, c)
			}
		}
		w.vx.Render()
		r.Count("link_frames", 1)
		if !check(fmt.Sprintf("pairs (%+v, each link state) in one frame", a), ai) {
			return
		}
		// next frame: only the second cell of each pair changes its grapheme (and is rewritten alone)
		for bi, b := range links {
			c := vaxis.Cell{Character: ch("c", 1), Style: b}
			win.SetCell(2*bi+1, 0, c)
			w.m.SetCell(2*bi+1, 0, c)
		}
		w.vx.Render()
		r.Count("link_frames", 1)
		if !check(fmt.Sprintf("pairs (%+v, each link state), second cells rewritten", a), ai) {
			return
		}
	}
}

func accessorCheck() {
	cfg := &config{Name: "acc", Cols: 4, Rows: 2}
	w := open(cfg)
	defer w.close()
	vx := w.vx
	table := []struct {
		name string
		got  bool
		want bool
		why  string
	}{
		{"CanSixel", vx.CanSixel(), true, "the emulator decodes sixel (DCS q) and advertises it in DA1"},
		{"CanUnicodeCore", vx.CanUnicodeCore(), true, "the emulator places whole grapheme clusters with their UAX #11 width (it is a unicode-core terminal)"},
		{"CanKittyGraphics", vx.CanKittyGraphics(), false, "the emulator has no kitty graphics"},
		{"CanExplicitWidth", vx.CanExplicitWidth(), false, "the emulator has no OSC 66"},
		{"CanSetAppID", vx.CanSetAppID(), false, "the emulator has no OSC 176"},
		{"CanReportColor", vx.CanReportColor(), false, "the emulator does not answer OSC 4"},
		{"CanReportForegroundColor", vx.CanReportForegroundColor(), false, "the emulator does not answer OSC 10"},
	}
	caps := vx.VerifCaps()
	for _, k := range []string{"synchronizedUpdate", "kittyKeyboard", "colorThemeUpdates", "inBandResize"} {
		table = append(table, struct {
			name string
			got  bool
			want bool
			why  string
		}{k, caps[k], false, "the emulator does not implement it"})
	}
	for _, a := range table {
		r.Count("accessor_checks", 1)
		if a.got != a.want {
			r.Violation("C12|advertisement|"+a.name, 0, detail{Search: "start-up", Stage: "accessors", Why: fmt.Sprintf("guest sees %s=%v; %s", a.name, a.got, a.why)})
		}
	}
}

func main() {
	r = explore.Start("C12")
	cfgs := []*config{
		{Name: "3x1", Cols: 3, Rows: 1},
		{Name: "4x1", Cols: 4, Rows: 1},
		{Name: "2x2", Cols: 2, Rows: 2},
	}
	if r.Thorough() {
		cfgs = append(cfgs, &config{Name: "3x2", Cols: 3, Rows: 2}, &config{Name: "5x1", Cols: 5, Rows: 1})
	}
	byName := map[string]*config{}
	for _, c := range cfgs {
		c.Frames = frames(c.Cols, c.Rows)
		byName[c.Name] = c
	}
	mk := func(c *config) *explore.BFS {
		return &explore.BFS{R: r, Name: c.Name, NumOps: len(c.Frames), MaxDepth: r.Pick(2, 3),
			RunPath: func(p []uint16) (uint64, explore.Status) { return runPath(c, p) }}
	}
	if r.Replay != "" {
		r.ReplayBySearch()
	}
	if _, _, arg, ok := r.Worker(); ok {
		r.Watchdog(60 * time.Second)
		if arg == "accessors" {
			accessorCheck()
			paletteSweep()
			attributeSweep()
			linkSweep()
			r.WorkerDone()
		}
		name := strings.SplitN(arg, ":", 3)[1]
		mk(byName[name]).WorkerMain(arg)
	}
	r.Spawn(1, "accessors", 0)
	var states, trans int64
	bounds := map[string]any{}
	exhaustive := true
	for _, c := range cfgs {
		b := mk(c)
		b.Search()
		states += b.States
		trans += b.Transitions
		bounds[c.Name] = map[string]any{"frame_alphabet": len(c.Frames), "depth_completed": b.DepthDone, "states": b.States, "transitions": b.Transitions, "frontier_at_cutoff": b.Frontier}
		if b.DepthDone < b.MaxDepth && !b.Exhausted {
			exhaustive = false
		}
	}
	r.Finish(explore.Coverage{
		States: states, Transitions: trans + r.Get("accessor_checks"), Traces: trans, Evaluations: trans,
		Rule:        "explicit-state BFS over (guest Vaxis, real term.Model, host Vaxis + reference terminal): the guest's bytes go through the real ansi.Parser into the emulator, whose replies are the guest's input (so the guest runs under the capability set the emulator advertises); a transition is one frame (optional Clear, one SetCell from a 14-cell alphabet incl. ZWJ, flag, VS16, zero-width, all attributes, hyperlink, RGB background, styled+coloured underline; or a cursor request; Render or Refresh); after the last frame of every path the emulator's grid/cursor and, after Model.Draw into a host window of the same size and Render (twice: the second host frame follows without new output from the guest), the host terminal must equal the application's record (colours/underlines after the fallback the advertised capabilities imply); plus all 7x7 ordered pairs of hyperlink states (two URLs x no id / two ids) in neighbouring cells written in one frame and with the second cell rewritten alone, plus the start-up accessor table",
		Exhaustive:  exhaustive,
		Bounds:      bounds,
		Assumptions: []string{"width tables as in C01", "a write of the guest is delivered to the emulator's parser in one read (frames are far below bufio's 4096 bytes)"},
	})
}
