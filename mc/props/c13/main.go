// C13 – keys, pastes and mouse events forwarded into the embedded terminal
// arrive intact. Exhaustive over keys x modifier subsets x child modes, paste
// brackets x mode, mouse buttons x event types x positions x all 2^5 mouse/
// alt-scroll mode combinations; what the widget writes towards the child is read
// back from a pipe and re-parsed by a real Vaxis input pipeline.
package main

import (
	"fmt"
	"os"
	"strings"
	"syscall"
	"time"

	"git.sr.ht/~rockorager/vaxis"
	"git.sr.ht/~rockorager/vaxis/ansi"
	vtime "git.sr.ht/~rockorager/vaxis/verifshim/vtime"
	"git.sr.ht/~rockorager/vaxis/widgets/term"
	"verif.local/mc/explore"
	"verif.local/mc/refterm"
	"verif.local/mc/session"
)

var r *explore.Run

type detail struct {
	What  string `json:"what"`
	Modes string `json:"child_modes"`
	Bytes string `json:"bytes_written"`
	Why   string `json:"why"`
}

type rig struct {
	s   *session.Session
	rd  *os.File
	rfd int
	wr  *os.File
	m   *term.Model
	buf []byte
}

func newRig() *rig {
	s, err := session.Open(refterm.DefaultProfile(0, refterm.VersionOther), 10, 5, vaxis.Options{})
	if err != nil {
		r.Fault("session: %v", err)
	}
	rd, wr, err := os.Pipe()
	if err != nil {
		r.Fault("pipe: %v", err)
	}
	fd := int(rd.Fd()) // Fd() puts the file in blocking mode: call it once, then switch
	if err := syscall.SetNonblock(fd, true); err != nil {
		r.Fault("nonblock: %v", err)
	}
	return &rig{s: s, rd: rd, rfd: fd, wr: wr, buf: make([]byte, 4096)}
}

func (g *rig) freshModel(modes []string) {
	g.m = term.VerifNew(g.wr, 3, 3)
	for _, b := range modes {
		switch {
		case b == "\x1b=" || b == "\x1b>":
			g.m.VerifFeed(ansi.ESC{Final: rune(b[1])})
		default:
			// CSI ? n h|l
			var n int
			var f rune
			fmt.Sscanf(b, "\x1b[?%d%c", &n, &f)
			g.m.VerifFeed(ansi.CSI{Final: f, Intermediate: []rune("?"), Parameters: [][]int{{n}}})
		}
	}
}

// written returns what the widget wrote towards the child since the last call.
func (g *rig) written() string {
	var out []byte
	for {
		n, err := syscall.Read(g.rfd, g.buf)
		if err == syscall.EINTR {
			continue // the runtime's preemption signal
		}
		if n > 0 {
			out = append(out, g.buf[:n]...)
		}
		if n <= 0 || err != nil {
			break
		}
	}
	return string(out)
}

// parse feeds bytes to the Vaxis input pipeline and returns the events they yield.
func (g *rig) parse(b string) []vaxis.Event {
	if b != "" {
		g.s.Con.Inject([]byte(b))
		g.s.Con.WaitIdle()
		// a trailing lone ESC becomes the Escape key once the disambiguation delay has passed
		vtime.FireWhere(func(d vtime.Duration, isFunc bool) bool { return isFunc && d == 10*vtime.Millisecond })
	}
	return g.s.Barrier()
}

type keySpec struct {
	name string
	code rune
	kind string // letter digit punct special simple
}

func keySet() []keySpec {
	var ks []keySpec
	for c := 'a'; c <= 'z'; c++ {
		ks = append(ks, keySpec{string(c), c, "letter"})
	}
	for c := '0'; c <= '9'; c++ {
		ks = append(ks, keySpec{string(c), c, "digit"})
	}
	for _, c := range "`-=[]\\;',./" {
		ks = append(ks, keySpec{string(c), c, "punct"})
	}
	for _, c := range []rune{'é', 'ф', 'ß', 'ñ', 'λ', 'ø', 'ü', 'ç'} {
		ks = append(ks, keySpec{string(c), c, "nonascii"})
	}
	sp := []struct {
		n string
		c rune
	}{{"Up", vaxis.KeyUp}, {"Down", vaxis.KeyDown}, {"Left", vaxis.KeyLeft}, {"Right", vaxis.KeyRight}, {"Home", vaxis.KeyHome}, {"End", vaxis.KeyEnd},
		{"Insert", vaxis.KeyInsert}, {"Delete", vaxis.KeyDelete}, {"PgUp", vaxis.KeyPgUp}, {"PgDown", vaxis.KeyPgDown},
		{"F1", vaxis.KeyF01}, {"F2", vaxis.KeyF02}, {"F3", vaxis.KeyF03}, {"F4", vaxis.KeyF04}, {"F5", vaxis.KeyF05}, {"F6", vaxis.KeyF06},
		{"F7", vaxis.KeyF07}, {"F8", vaxis.KeyF08}, {"F9", vaxis.KeyF09}, {"F10", vaxis.KeyF10}, {"F11", vaxis.KeyF11}, {"F12", vaxis.KeyF12}}
	for _, s := range sp {
		ks = append(ks, keySpec{s.n, s.c, "special"})
	}
	for _, s := range []struct {
		n string
		c rune
	}{{"Enter", vaxis.KeyEnter}, {"Tab", vaxis.KeyTab}, {"Esc", vaxis.KeyEsc}, {"Backspace", vaxis.KeyBackspace}, {"Space", vaxis.KeySpace}} {
		ks = append(ks, keySpec{s.n, s.c, "simple"})
	}
	return ks
}

// expressible: chords the xterm legacy encoding can express unambiguously.
func expressible(k keySpec, mods vaxis.ModifierMask) bool {
	shift, alt, ctrl := mods&vaxis.ModShift != 0, mods&vaxis.ModAlt != 0, mods&vaxis.ModCtrl != 0
	switch k.kind {
	case "special":
		return true
	case "letter":
		switch {
		case ctrl && (alt || shift):
			return false
		case ctrl:
			return !strings.ContainsRune("himj", k.code) // ^H ^I ^M are BS/Tab/Enter; ^J is LF
		case alt && shift:
			return false
		}
		return true
	case "digit", "punct":
		if alt && strings.ContainsRune("'-,./[]\\", k.code) {
			// ESC followed by 0x20-0x2F starts an escape sequence with intermediates,
			// ESC [ ] \\ are CSI, OSC and ST: these chords are ambiguous in the legacy encoding
			return false
		}
		return !shift && !ctrl
	case "nonascii":
		// ESC followed by a non-ASCII scalar is outside the byte-defined escape state
		return mods == 0
	case "simple":
		if k.code == vaxis.KeyTab && mods == vaxis.ModShift {
			return true
		}
		return mods == 0
	}
	return false
}

func mkKey(k keySpec, mods vaxis.ModifierMask) vaxis.Key {
	key := vaxis.Key{Keycode: k.code, Modifiers: mods}
	printable := k.kind == "letter" || k.kind == "digit" || k.kind == "punct" || k.kind == "nonascii" || k.code == vaxis.KeySpace
	if printable && mods&(vaxis.ModCtrl|vaxis.ModAlt) == 0 {
		key.Text = string(k.code)
		if mods&vaxis.ModShift != 0 && k.kind == "letter" {
			key.ShiftedCode = k.code - 32
			key.Text = string(k.code - 32)
		}
	} else if mods&vaxis.ModShift != 0 && k.kind == "letter" {
		key.ShiftedCode = k.code - 32
	}
	return key
}

func modName(m vaxis.ModifierMask) string {
	var p []string
	if m&vaxis.ModCtrl != 0 {
		p = append(p, "Ctrl")
	}
	if m&vaxis.ModAlt != 0 {
		p = append(p, "Alt")
	}
	if m&vaxis.ModShift != 0 {
		p = append(p, "Shift")
	}
	if len(p) == 0 {
		return "plain"
	}
	return strings.Join(p, "+")
}

func keyCases(g *rig) {
	cursorApp := map[rune]string{vaxis.KeyUp: "\x1bOA", vaxis.KeyDown: "\x1bOB", vaxis.KeyRight: "\x1bOC", vaxis.KeyLeft: "\x1bOD", vaxis.KeyEnd: "\x1bOF", vaxis.KeyHome: "\x1bOH"}
	cursorNorm := map[rune]string{vaxis.KeyUp: "\x1b[A", vaxis.KeyDown: "\x1b[B", vaxis.KeyRight: "\x1b[C", vaxis.KeyLeft: "\x1b[D", vaxis.KeyEnd: "\x1b[F", vaxis.KeyHome: "\x1b[H"}
	for hm := 0; hm < 8; hm++ {
		// hist: the modes are set directly, or both were set first and the unwanted one reset again
		decckm, deckpam, hist := hm&1 != 0, hm&2 != 0, hm&4 != 0
		{
			var modes []string
			mname := fmt.Sprintf("decckm=%v deckpam=%v", decckm, deckpam)
			if hist {
				mname += " (both set first, then reset as needed)"
				modes = append(modes, "\x1b[?1h", "\x1b=")
				if !decckm {
					modes = append(modes, "\x1b[?1l")
				}
				if !deckpam {
					modes = append(modes, "\x1b>")
				}
			} else {
				if decckm {
					modes = append(modes, "\x1b[?1h")
				}
				if deckpam {
					modes = append(modes, "\x1b=")
				} else {
					modes = append(modes, "\x1b>")
				}
			}
			g.freshModel(modes)
			for _, k := range keySet() {
				for mi := 0; mi < 8; mi++ {
					var mods vaxis.ModifierMask
					if mi&1 != 0 {
						mods |= vaxis.ModShift
					}
					if mi&2 != 0 {
						mods |= vaxis.ModAlt
					}
					if mi&4 != 0 {
						mods |= vaxis.ModCtrl
					}
					if !expressible(k, mods) {
						continue
					}
					key := mkKey(k, mods)
					what := fmt.Sprintf("key %s %s", modName(mods), k.name)
					g.m.Update(key)
					b := g.written()
					r.Count("key_cases", 1)
					bad := func(clause, why string) {
						r.Violation(fmt.Sprintf("C13|key|%s|%s|%s", clause, k.kind, modName(mods)), int(k.code%1000)+mi*1000, detail{What: what, Modes: mname, Bytes: fmt.Sprintf("%q", b), Why: why})
					}
					if mods == 0 {
						if want, ok := cursorApp[k.code]; ok {
							if !decckm {
								want = cursorNorm[k.code]
							}
							if b != want {
								bad("cursor-key-mode", fmt.Sprintf("the child asked for %s cursor keys: want %q", map[bool]string{true: "application", false: "normal"}[decckm], want))
								continue
							}
						}
					}
					evs := g.parse(b)
					var keys []vaxis.Key
					for _, ev := range evs {
						if kk, ok := ev.(vaxis.Key); ok {
							keys = append(keys, kk)
						}
					}
					if len(keys) != 1 {
						bad("count", fmt.Sprintf("re-parsing yields %d key events %v", len(keys), keys))
						continue
					}
					if !keys[0].Matches(k.code, mods) {
						bad("mismatch", fmt.Sprintf("re-parsed event %q (%+v) does not match the original chord", keys[0].String(), keys[0]))
						continue
					}
					// the same key held down (auto-repeat) or arriving inside a bracketed paste is the same key for
					// the child: the legacy encoding has no other way to say it
					if mi == 0 || mi == 4 {
						okTypes := true
						for _, et := range []vaxis.EventType{vaxis.EventRepeat, vaxis.EventPaste} {
							k2 := key
							k2.EventType = et
							g.m.Update(k2)
							r.Count("key_cases", 1)
							if b2 := g.written(); b2 != b {
								bad("event-type", fmt.Sprintf("as an event of type %d (2 repeat, 4 paste) the key is written as %q, as a press as %q", et, b2, b))
								okTypes = false
								break
							}
						}
						if !okTypes {
							continue
						}
					}
					// Num Lock and Caps Lock are keyboard state, not part of the chord: a host that speaks the kitty
					// protocol reports them on every key, and the child must see the same key
					okLocks := true
					for _, lock := range []vaxis.ModifierMask{vaxis.ModNumLock, vaxis.ModCapsLock, vaxis.ModNumLock | vaxis.ModCapsLock} {
						if k.kind == "letter" && lock&vaxis.ModCapsLock != 0 {
							continue // Caps Lock changes the text a letter key produces
						}
						k2 := key
						k2.Modifiers |= lock
						g.m.Update(k2)
						r.Count("key_cases", 1)
						if b2 := g.written(); b2 != b {
							bad("lock-state", fmt.Sprintf("with lock bits %#x in the modifier mask the key is written as %q, without them as %q", int(lock), b2, b))
							okLocks = false
							break
						}
					}
					if !okLocks {
						continue
					}
					r.Distinct(explore.Hash("key", mname, what))
				}
			}
		}
	}
}

func pasteCases(g *rig) {
	for pi := 0; pi < 4; pi++ {
		on := pi == 1
		var modes []string
		if on {
			modes = []string{"\x1b[?2004h"}
		}
		if pi == 2 {
			modes = []string{"\x1b[?2004h", "\x1b[?2004l"} // switched on and off again
		}
		if pi == 3 {
			modes = []string{"\x1b[?2004h"}
		}
		g.freshModel(modes)
		if pi == 3 {
			// a paste was forwarded while the mode was on; then the child switched it off
			g.m.Update(vaxis.PasteStartEvent{})
			g.m.Update(vaxis.PasteEndEvent{})
			g.written()
			g.m.VerifFeed(ansi.CSI{Final: 'l', Intermediate: []rune("?"), Parameters: [][]int{{2004}}})
		}
		for i, ev := range []vaxis.Event{vaxis.PasteStartEvent{}, vaxis.PasteEndEvent{}} {
			g.m.Update(ev)
			b := g.written()
			r.Count("paste_cases", 1)
			name := []string{"paste start", "paste end"}[i]
			bad := func(clause, why string) {
				r.Violation("C13|paste|"+clause, i, detail{What: name, Modes: fmt.Sprintf("bracketed paste=%v", on), Bytes: fmt.Sprintf("%q", b), Why: why})
			}
			if !on {
				if b != "" {
					bad("not-enabled", "the child did not enable bracketed paste, yet something was written")
				}
				continue
			}
			evs := g.parse(b)
			ok := false
			for _, e := range evs {
				switch e.(type) {
				case vaxis.PasteStartEvent:
					ok = ok || i == 0
				case vaxis.PasteEndEvent:
					ok = ok || i == 1
				}
			}
			if !ok {
				bad("mismatch", fmt.Sprintf("re-parsing yields %v", evs))
				continue
			}
			r.Distinct(explore.Hash("paste", name))
		}
	}
	// keys between the brackets arrive marked as pasted
}

func mouseCases(g *rig) {
	buttons := []vaxis.MouseButton{vaxis.MouseLeftButton, vaxis.MouseMiddleButton, vaxis.MouseRightButton, vaxis.MouseNoButton,
		vaxis.MouseWheelUp, vaxis.MouseWheelDown, vaxis.MouseButton8, vaxis.MouseButton9, vaxis.MouseButton10, vaxis.MouseButton11}
	types := []vaxis.EventType{vaxis.EventPress, vaxis.EventRelease, vaxis.EventMotion}
	tname := map[vaxis.EventType]string{vaxis.EventPress: "press", vaxis.EventRelease: "release", vaxis.EventMotion: "motion"}
	// hist: how the child arrived at the mode combination - 0: by setting what it wants; 1: by setting all four
	// mouse modes and resetting the others again; 2: the same, set in the opposite order
	for mh := 0; mh < 64*3; mh++ {
		mask, hist := mh%64, mh/64
		m1000, m1002, m1003, m1006, alt, smcup := mask&1 != 0, mask&2 != 0, mask&4 != 0, mask&8 != 0, mask&16 != 0, mask&32 != 0
		var modes []string
		if smcup {
			modes = append(modes, "\x1b[?1049h") // also turns alt-scroll on
		}
		if alt {
			modes = append(modes, "\x1b[?1007h")
		} else {
			modes = append(modes, "\x1b[?1007l")
		}
		want := []struct {
			on bool
			n  int
		}{{m1000, 1000}, {m1002, 1002}, {m1003, 1003}, {m1006, 1006}}
		switch hist {
		case 0:
			for _, p := range want {
				if p.on {
					modes = append(modes, fmt.Sprintf("\x1b[?%dh", p.n))
				}
			}
		default:
			for i := range want {
				p := want[i]
				if hist == 2 {
					p = want[len(want)-1-i]
				}
				modes = append(modes, fmt.Sprintf("\x1b[?%dh", p.n))
			}
			for _, p := range want {
				if !p.on {
					modes = append(modes, fmt.Sprintf("\x1b[?%dl", p.n))
				}
			}
		}
		mname := fmt.Sprintf("1000=%v 1002=%v 1003=%v 1006=%v altscroll=%v altscreen=%v", m1000, m1002, m1003, m1006, alt, smcup)
		if hist > 0 {
			mname += fmt.Sprintf(" (all four set, the others reset again; history %d)", hist)
		}
		g.freshModel(modes)
		for _, btn := range buttons {
			for _, ty := range types {
				// positions: the first cells, and the values around the limits of the one-byte legacy
				// encoding (222/223) and of a byte (254..256), which SGR reports must carry unchanged
				for _, row := range []int{0, 1, 2, 222, 223, 300} {
					for _, col := range []int{0, 1, 2, 94, 222, 223, 255, 256, 1000} {
						if (row > 2 || col > 2) && !m1006 {
							continue // the legacy encoding cannot express them; its behaviour there is not specified
						}
						ev := vaxis.Mouse{Button: btn, Row: row, Col: col, EventType: ty}
						g.m.Update(ev)
						b := g.written()
						r.Count("mouse_cases", 1)
						what := fmt.Sprintf("mouse button=%d %s at col %d row %d", btn, tname[ty], col, row)
						bad := func(clause, why string) {
							after := ""
							if hist > 0 {
								after = "|after-reset"
							}
							r.Violation(fmt.Sprintf("C13|mouse|%s|%s|1000=%v,1002=%v,1003=%v,1006=%v%s", clause, tname[ty], m1000, m1002, m1003, m1006, after),
								mask*10000+int(btn)*10+row*3+col, detail{What: what, Modes: mname, Bytes: fmt.Sprintf("%q", b), Why: why})
						}
						wheel := btn == vaxis.MouseWheelUp || btn == vaxis.MouseWheelDown
						var enabled bool
						switch {
						case ty == vaxis.EventMotion && btn == vaxis.MouseNoButton:
							enabled = m1003
						case ty == vaxis.EventMotion:
							enabled = m1002 || m1003
						default:
							enabled = m1000 || m1002 || m1003
						}
						if !enabled {
							if b != "" {
								// the widget's documented wheel -> arrow translation in the alternate screen
								if wheel && alt && smcup && !m1000 && !m1002 && !m1003 && !m1006 && (strings.Trim(b, "\x1bOA") == "" || strings.Trim(b, "\x1bOB") == "") {
									continue
								}
								bad("not-enabled", "no mouse mode the child enabled covers this event, yet something was written")
							}
							continue
						}
						if b == "" {
							bad("dropped", "the child enabled a mode that covers this event, but nothing was written")
							continue
						}
						if !m1006 {
							continue // legacy X10 encoding: only presence is checked
						}
						evs := g.parse(b)
						var ms []vaxis.Mouse
						for _, e := range evs {
							if mm, ok := e.(vaxis.Mouse); ok {
								ms = append(ms, mm)
							}
						}
						if len(ms) != 1 {
							bad("count", fmt.Sprintf("re-parsing yields %d mouse events", len(ms)))
							continue
						}
						got := ms[0]
						if got.Button != btn || got.Row != row || got.Col != col || got.EventType != ty {
							bad("mismatch", fmt.Sprintf("re-parsed as %+v", got))
							continue
						}
						r.Distinct(explore.Hash("mouse", mname, what))
					}
				}
			}
		}
	}
}

func main() {
	r = explore.Start("C13")
	if r.Replay != "" {
		r.ReplayBySearch()
	}
	if _, _, arg, ok := r.Worker(); ok {
		r.Watchdog(60 * time.Second)
		g := newRig()
		switch arg {
		case "keys":
			keyCases(g)
		case "paste":
			pasteCases(g)
		case "mouse":
			mouseCases(g)
		}
		r.Sample(map[string]any{"part": arg})
		g.s.Vx.Close()
		r.WorkerDone()
	}
	r.Spawn(1, "keys", 0)
	r.Spawn(1, "paste", 0)
	r.Spawn(1, "mouse", 0)
	n := r.Get("key_cases") + r.Get("paste_cases") + r.Get("mouse_cases")
	r.Finish(explore.Coverage{
		States: -1, Transitions: n, Traces: n, Evaluations: n,
		Rule:       "keys {a-z, 0-9, 11 punctuation, 8 non-ASCII letters, arrows, Home, End, Ins, Del, PgUp, PgDn, F1-F12, Enter, Tab, Esc, Backspace, Space} x every subset of Shift/Alt/Ctrl that the xterm legacy encoding expresses unambiguously x decckm x deckpam, unmodified and Ctrl chords also as auto-repeat and paste-tagged events, every chord also with Num Lock / Caps Lock / both reported in the mask (each mode set directly, or both set and the unwanted one reset again); paste start/end x bracketed-paste mode (off, on, on and off again, on with a forwarded paste and then off); mouse buttons {left, middle, right, none, wheel up/down, 8-11} x press/release/motion x 3x3 positions x all 2^6 combinations of modes 1000/1002/1003/1006, alt-scroll and alternate screen, each reached in three ways (set only; all four set in either order and the others reset again); bytes written to the pipe standing in for the PTY are re-parsed by a real Vaxis on a fake console; distinct = cases that passed",
		Exhaustive: true,
		Assumptions: []string{"chords the legacy encoding cannot express (Ctrl+Shift+letter, Alt+Shift+letter, Alt+Ctrl+letter, Ctrl+h/i/j/m, modified Enter/Tab/Esc/Backspace/Space other than Shift+Tab, Shift/Ctrl+digit or punctuation) are outside the table",
			"wheel to arrow-key translation under alt-scroll in the alternate screen is the widget's documented feature, not a mouse report",
			"without mode 1006 only the presence of a report is checked (the legacy X10 encoding is not re-parsed)"},
	})
}
