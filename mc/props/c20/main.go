// C20 – images fit their box, keep their aspect and reproduce their pixels.
// Bounded-exhaustive over image sizes x box sizes x cell geometries x protocols
// for Resize; all pixel alphabets on small images for block rendering; explicit-
// state search over placement histories for kitty and sixel, with the graphics
// sequences observed by the reference terminal.
package main

import (
	"fmt"
	"image"
	"image/color"
	"strings"
	"time"

	"git.sr.ht/~rockorager/vaxis"
	"verif.local/mc/explore"
	"verif.local/mc/refterm"
	"verif.local/mc/session"
)

var r *explore.Run

type detail struct {
	Part string `json:"part"`
	Case string `json:"case"`
	Why  string `json:"why"`
}

func solid(w, h int, c color.Color) image.Image {
	img := image.NewNRGBA(image.Rect(0, 0, w, h))
	for y := 0; y < h; y++ {
		for x := 0; x < w; x++ {
			img.Set(x, y, c)
		}
	}
	return img
}

func ceilDiv(a, b int) int { return (a + b - 1) / b }

// fitOK: box, no upscale, aspect within one cell.
func fitOK(wPix, hPix, cw, chh, boxW, boxH, gotW, gotH int) string {
	cols0, lines0 := ceilDiv(wPix, cw), ceilDiv(hPix, chh)
	if gotW > boxW || gotH > boxH {
		return fmt.Sprintf("box|cell size %dx%d exceeds the box %dx%d", gotW, gotH, boxW, boxH)
	}
	if gotW > cols0 || gotH > lines0 {
		return fmt.Sprintf("upscaled|cell size %dx%d exceeds the source's own %dx%d", gotW, gotH, cols0, lines0)
	}
	if gotW < 0 || gotH < 0 {
		return "box|negative size"
	}
	// aspect: some scale s in (0,1] puts both dimensions within one cell of the result
	fw, fh := float64(wPix)/float64(cw), float64(hPix)/float64(chh)
	lo1, hi1 := (float64(gotW)-1)/fw, (float64(gotW)+1)/fw
	lo2, hi2 := (float64(gotH)-1)/fh, (float64(gotH)+1)/fh
	lo, hi := lo1, hi1
	if lo2 > lo {
		lo = lo2
	}
	if hi2 < hi {
		hi = hi2
	}
	if hi > 1 {
		hi = 1
	}
	if lo > hi+1e-9 {
		return fmt.Sprintf("aspect|%dx%d px (%.2fx%.2f cells) became %dx%d cells", wPix, hPix, fw, fh, gotW, gotH)
	}
	return ""
}

func openSession(caps refterm.Cap, cellW, cellH, cols, rows int) *session.Session {
	prof := refterm.DefaultProfile(caps, refterm.VersionOther)
	prof.CellW, prof.CellH = cellW, cellH
	s, err := session.Open(prof, cols, rows, vaxis.Options{})
	if err != nil {
		r.Fault("session: %v", err)
	}
	return s
}

func waitRedraw(s *session.Session) {
	s.WaitEvent(func(ev vaxis.Event) bool { _, ok := ev.(vaxis.Redraw); return ok })
}

func resizeSweep(idx, n int) {
	maxPx, maxBox := 12, 7
	type proto struct {
		name   string
		caps   refterm.Cap
		cw, ch int
	}
	protos := []proto{{"halfblock", 0, 1, 2}, {"fullblock", 0, 1, 2}}
	for _, g := range [][2]int{{1, 1}, {2, 2}, {2, 3}, {8, 16}, {10, 20}} {
		protos = append(protos, proto{"kitty", refterm.CapKittyGraphics | refterm.CapInBandResize | refterm.CapRGB, g[0], g[1]})
		protos = append(protos, proto{"sixel", refterm.CapSixelDA1 | refterm.CapInBandResize | refterm.CapRGB, g[0], g[1]})
	}
	k := 0
	for _, p := range protos {
		k++
		if k%n != idx {
			continue
		}
		s := openSession(p.caps, p.cw, p.ch, 8, 8)
		scale := 1
		if p.cw > 2 {
			scale = p.cw / 2 // larger geometries: image sizes in multiples so that several cells are covered
		}
		// small cell geometries: larger images too, so that pixel sizes that are not multiples of the
		// cell size meet boxes where the two scale factors are close (rounding decides the row count)
		mp := maxPx
		if p.cw <= 2 && (p.name == "kitty" || p.name == "sixel") {
			mp = 24
		}
		for wp := 1; wp <= mp; wp++ {
			for hp := 1; hp <= mp; hp++ {
				wPix, hPix := wp*scale, hp*scale
				img := solid(wPix, hPix, color.NRGBA{200, 10, 10, 255})
				for bw := 0; bw <= maxBox; bw++ {
					for bh := 0; bh <= maxBox; bh++ {
						cs := fmt.Sprintf("%s %dx%d px, cell %dx%d px, box %dx%d", p.name, wPix, hPix, p.cw, p.ch, bw, bh)
						r.Beat(func() (string, any) { return "C20|hang|resize", detail{Part: "resize", Case: cs, Why: "no progress"} })
						if p.name == "kitty" || p.name == "sixel" {
							// an image scaled down to zero pixels cannot be encoded: Resize logs the
							// encoder's error and posts no Redraw. Those cases are covered through the
							// block images, which share resizeImage.
							cols0, lines0 := ceilDiv(wPix, p.cw), ceilDiv(hPix, p.ch)
							if cols0 > bw || lines0 > bh {
								sf := float64(bw) / float64(cols0)
								if sy := float64(bh) / float64(lines0); sy < sf {
									sf = sy
								}
								if int(sf*float64(wPix)) == 0 || int(sf*float64(hPix)) == 0 {
									continue
								}
							}
						}
						// every other case: the image has been resized before, to the largest box (an image object
						// lives across frames and layouts; what it remembers must not leak into the next Resize)
						pre := (wp+hp+bw+bh)%2 == 0
						if pre {
							cols0, lines0 := ceilDiv(wPix, p.cw), ceilDiv(hPix, p.ch)
							if cols0 > maxBox || lines0 > maxBox {
								sf := float64(maxBox) / float64(cols0)
								if sy := float64(maxBox) / float64(lines0); sy < sf {
									sf = sy
								}
								if int(sf*float64(wPix)) == 0 || int(sf*float64(hPix)) == 0 {
									pre = false
								}
							}
						}
						if pre {
							cs += " (resized to the largest box before)"
						}
						var gw, gh int
						panicked, site, msg := explore.Guard(func() {
							switch p.name {
							case "halfblock":
								im := s.Vx.NewHalfBlockImage(img)
								if pre {
									im.Resize(maxBox, maxBox)
								}
								im.Resize(bw, bh)
								gw, gh = im.CellSize()
							case "fullblock":
								im := s.Vx.NewFullBlockImage(img)
								if pre {
									im.Resize(maxBox, maxBox)
								}
								im.Resize(bw, bh)
								gw, gh = im.CellSize()
							case "kitty":
								im := s.Vx.NewKittyGraphic(img)
								if pre {
									im.Resize(maxBox, maxBox)
									waitRedraw(s)
								}
								im.Resize(bw, bh)
								waitRedraw(s)
								gw, gh = im.CellSize()
							case "sixel":
								im := s.Vx.NewSixel(img)
								if pre {
									im.Resize(maxBox, maxBox)
									waitRedraw(s)
								}
								im.Resize(bw, bh)
								waitRedraw(s)
								gw, gh = im.CellSize()
							}
						})
						r.Count("resize_cases", 1)
						if panicked {
							r.Violation("C20|resize|panic|"+site, wPix*hPix, detail{Part: "resize", Case: cs, Why: "panic: " + msg})
							continue
						}
						if why := fitOK(wPix, hPix, p.cw, p.ch, bw, bh, gw, gh); why != "" {
							cl, rest, _ := strings.Cut(why, "|")
							equal := ""
							if bw*ceilDiv(hPix, p.ch) == bh*ceilDiv(wPix, p.cw) {
								equal = "|equal-scale-factors"
							}
							r.Violation("C20|resize|"+cl+equal, wPix*hPix+bw+bh, detail{Part: "resize", Case: cs, Why: rest})
							continue
						}
						r.Distinct(explore.Hash("resize", cs))
					}
				}
			}
		}
		s.Vx.Close()
	}
}

// geometryChangeSweep: the terminal's cell pixel size changes while the program runs (another font size): an
// image resized afterwards - one that was resized before, or a new one - fits its box under the new geometry.
func geometryChangeSweep() {
	type geo struct{ cw, ch int }
	for _, protoName := range []string{"kitty", "sixel"} {
		caps := refterm.CapKittyGraphics | refterm.CapInBandResize | refterm.CapRGB
		if protoName == "sixel" {
			caps = refterm.CapSixelDA1 | refterm.CapInBandResize | refterm.CapRGB
		}
		for _, ch := range [][2]geo{{{10, 20}, {10, 10}}, {{10, 20}, {5, 10}}, {{4, 8}, {8, 16}}, {{8, 16}, {8, 8}}} {
			from, to := ch[0], ch[1]
			s := openSession(caps, from.cw, from.ch, 8, 8)
			mk := func(img image.Image) vaxis.Image {
				if protoName == "kitty" {
					return s.Vx.NewKittyGraphic(img)
				}
				return s.Vx.NewSixel(img)
			}
			sizes := [][2]int{{40, 40}, {35, 30}, {80, 16}, {16, 80}}
			var old []vaxis.Image
			for _, sz := range sizes {
				im := mk(solid(sz[0], sz[1], color.NRGBA{10, 200, 10, 255}))
				im.Resize(6, 6)
				waitRedraw(s)
				old = append(old, im)
			}
			// the font size changes: the window keeps its pixel size, so the number of cells changes with the
			// cell size; the next frame applies it
			s.Con.With(func(t *refterm.Terminal) { t.Prof.CellW, t.Prof.CellH = to.cw, to.ch })
			s.Con.ResizeTerm(8*from.cw/to.cw, 8*from.ch/to.ch)
			s.Barrier() // the terminal reports the new size in band; wait for the library to have seen it
			s.Vx.Render()
			for i, sz := range sizes {
				for _, fresh := range []bool{false, true} {
					im := old[i]
					if fresh {
						im = mk(solid(sz[0], sz[1], color.NRGBA{10, 200, 10, 255}))
					}
					for _, box := range [][2]int{{6, 6}, {4, 2}, {3, 3}, {2, 5}} {
						cs := fmt.Sprintf("%s %dx%d px, cell %dx%d px after a change from %dx%d, box %dx%d, fresh image: %v", protoName, sz[0], sz[1], to.cw, to.ch, from.cw, from.ch, box[0], box[1], fresh)
						r.Count("resize_cases", 1)
						im.Resize(box[0], box[1])
						waitRedraw(s)
						gw, gh := im.CellSize()
						if why := fitOK(sz[0], sz[1], to.cw, to.ch, box[0], box[1], gw, gh); why != "" {
							cl, rest, _ := strings.Cut(why, "|")
							r.Violation("C20|resize|"+cl+"|after-geometry-change", sz[0]*sz[1], detail{Part: "resize", Case: cs, Why: rest})
							continue
						}
						r.Distinct(explore.Hash("resize-geo", cs))
					}
				}
			}
			s.Vx.Close()
		}
	}
}

// ---- block rendering -----------------------------------------------------------------------------

var pixelAlphabet = []color.Color{
	color.NRGBA{255, 0, 0, 255}, color.NRGBA{0, 255, 0, 255}, color.NRGBA{10, 20, 30, 0}, color.NRGBA{10, 20, 30, 49},
	color.NRGBA{10, 20, 30, 50}, color.NRGBA{200, 100, 50, 128}, color.RGBA{64, 32, 16, 128},
}

func nrgba(c color.Color) color.NRGBA { return color.NRGBAModel.Convert(c).(color.NRGBA) }

func near(a, b uint8) bool {
	d := int(a) - int(b)
	return d >= -1 && d <= 1
}

func colourIs(got vaxis.Color, want color.NRGBA) bool {
	ps := got.Params()
	return len(ps) == 3 && near(ps[0], want.R) && near(ps[1], want.G) && near(ps[2], want.B)
}

func blockSweep(idx, n int) {
	s := openSession(refterm.CapRGB, 8, 16, 6, 6)
	defer s.Vx.Close()
	k := 0
	for _, size := range [][2]int{{1, 1}, {1, 2}, {2, 2}, {1, 3}, {2, 3}} {
		w, h := size[0], size[1]
		total := 1
		for i := 0; i < w*h; i++ {
			total *= len(pixelAlphabet)
		}
		for code := 0; code < total; code++ {
			k++
			if k%n != idx {
				continue
			}
			img := image.NewNRGBA64(image.Rect(0, 0, w, h))
			px := make([]color.Color, w*h)
			x := code
			for i := range px {
				px[i] = pixelAlphabet[x%len(pixelAlphabet)]
				x /= len(pixelAlphabet)
				img.Set(i%w, i/w, px[i])
			}
			at := func(xx, yy int) (color.NRGBA, bool) {
				if yy >= h {
					return color.NRGBA{}, false
				}
				return nrgba(img.At(xx, yy)), true
			}
			cs := fmt.Sprintf("%dx%d pixels %v", w, h, px)
			for _, kind := range []string{"half", "full"} {
				r.Count("block_cases", 1)
				win := s.Vx.Window()
				win.Fill(vaxis.Cell{Character: vaxis.Character{Grapheme: "·", Width: 1}})
				var cw, chh int
				if kind == "half" {
					im := s.Vx.NewHalfBlockImage(img)
					im.Resize(6, 6)
					cw, chh = im.CellSize()
					im.Draw(win.New(1, 1, 4, 4))
				} else {
					im := s.Vx.NewFullBlockImage(img)
					im.Resize(6, 6)
					cw, chh = im.CellSize()
					im.Draw(win.New(1, 1, 4, 4))
				}
				if cw != w || chh != ceilDiv(h, 2) {
					r.Violation("C20|block|"+kind+"|size", code, detail{Part: "block", Case: cs, Why: fmt.Sprintf("cell size %dx%d, want %dx%d", cw, chh, w, ceilDiv(h, 2))})
					continue
				}
				s.Vx.Render()
				bad := ""
				s.Con.With(func(t *refterm.Terminal) {
					g := t.Grid()
					for cy := 0; cy < chh && bad == ""; cy++ {
						for cx := 0; cx < cw; cx++ {
							cell := g[1+cy][1+cx]
							top, _ := at(cx, 2*cy)
							bot, hasBot := at(cx, 2*cy+1)
							fg := vaxis.Color(0)
							bg := vaxis.Color(0)
							conv := func(c refterm.Color) vaxis.Color {
								if c.Kind == 2 {
									return vaxis.RGBColor(uint8(c.V>>16), uint8(c.V>>8), uint8(c.V))
								}
								return 0
							}
							fg, bg = conv(cell.Style.Fg), conv(cell.Style.Bg)
							tt := top.A < 50
							bt := !hasBot || bot.A < 50
							if kind == "half" {
								switch {
								case tt && bt:
									if !(cell.Text == " " || cell.Text == "") || fg != 0 || bg != 0 {
										bad = fmt.Sprintf("half|cell %d,%d: both pixels transparent, cell shows %q fg=%v bg=%v", cx, cy, cell.Text, fg.Params(), bg.Params())
									}
								case tt:
									if cell.Text != "▄" || !colourIs(fg, bot) || bg != 0 {
										bad = fmt.Sprintf("half|cell %d,%d: want lower block in %v, shows %q fg=%v bg=%v", cx, cy, bot, cell.Text, fg.Params(), bg.Params())
									}
								case bt:
									if cell.Text != "▀" || !colourIs(fg, top) || bg != 0 {
										bad = fmt.Sprintf("half|cell %d,%d: want upper block in %v, shows %q fg=%v bg=%v", cx, cy, top, cell.Text, fg.Params(), bg.Params())
									}
								default:
									if cell.Text != "▀" || !colourIs(fg, top) || !colourIs(bg, bot) {
										bad = fmt.Sprintf("half|cell %d,%d: want upper block %v on %v, shows %q fg=%v bg=%v", cx, cy, top, bot, cell.Text, fg.Params(), bg.Params())
									}
								}
							} else {
								// a full-block cell shows the average of the pixels it covers
								var want color.NRGBA
								if hasBot {
									want = color.NRGBA{uint8((int(top.R) + int(bot.R)) / 2), uint8((int(top.G) + int(bot.G)) / 2), uint8((int(top.B) + int(bot.B)) / 2), uint8((int(top.A) + int(bot.A)) / 2)}
								} else {
									want = top
								}
								if want.A < 50 {
									if bg != 0 {
										bad = fmt.Sprintf("full|cell %d,%d: covered pixels are transparent, background %v", cx, cy, bg.Params())
									}
								} else if !colourIs(bg, want) {
									odd := ""
									if !hasBot {
										odd = "|odd-height-last-row"
									}
									bad = fmt.Sprintf("full%s|cell %d,%d: covers %v / %v (exists=%v), want background %v, shows %v", odd, cx, cy, top, bot, hasBot, want, bg.Params())
								}
							}
							if bad != "" {
								break
							}
						}
					}
					// nothing outside the image area inside the window, nothing outside the window
					for y := range g {
						for x := range g[y] {
							inImg := x >= 1 && x < 1+cw && y >= 1 && y < 1+chh
							if !inImg && g[y][x].Text != "·" && bad == "" {
								bad = fmt.Sprintf("%s|escaped|cell %d,%d outside the image changed to %q", kind, x, y, g[y][x].Text)
							}
						}
					}
				})
				if bad != "" {
					cl, rest, _ := strings.Cut(bad, "|")
					if strings.HasPrefix(rest, "odd-height") || strings.HasPrefix(rest, "escaped") {
						var c2 string
						c2, rest, _ = strings.Cut(rest, "|")
						cl += "|" + c2
					}
					r.Violation("C20|block|"+cl, code+w*h*100000, detail{Part: "block", Case: cs, Why: rest})
					continue
				}
				r.Distinct(explore.Hash("block", kind, cs))
			}
		}
	}
}

// blockHistorySweep: one block image resized twice (first to the full box, then to a smaller one) must draw
// what a fresh image resized once to the smaller box draws (differential oracle: no expected colours).
func blockHistorySweep(idx, n int) {
	s := openSession(refterm.CapRGB, 8, 16, 6, 6)
	defer s.Vx.Close()
	k := 0
	quad := len(pixelAlphabet)
	total := quad * quad * quad * quad
	for code := 0; code < total; code++ {
		k++
		if k%n != idx {
			continue
		}
		// a 4x4 pixel image of four 2x2 quadrants
		img := image.NewNRGBA64(image.Rect(0, 0, 4, 4))
		var qs []color.Color
		x := code
		for q := 0; q < 4; q++ {
			c := pixelAlphabet[x%quad]
			x /= quad
			qs = append(qs, c)
			for dy := 0; dy < 2; dy++ {
				for dx := 0; dx < 2; dx++ {
					img.Set((q%2)*2+dx, (q/2)*2+dy, c)
				}
			}
		}
		for _, kind := range []string{"half", "full"} {
			for bi, box := range [][2]int{{2, 1}, {1, 1}, {2, 2}, {3, 1}, {4, 2}, {6, 6}} {
				r.Count("block_cases", 1)
				// the earlier box: the full one (nothing scaled), or a small one (the image was scaled down before)
				first := [][2]int{{6, 6}, {1, 1}, {2, 1}, {1, 2}}[(bi+code)%4]
				if first == box {
					first = [2]int{6, 6}
				}
				draw := func(history bool) [][]refterm.Cell {
					win := s.Vx.Window()
					win.Fill(vaxis.Cell{Character: vaxis.Character{Grapheme: "·", Width: 1}})
					var im vaxis.Image
					if kind == "half" {
						im = s.Vx.NewHalfBlockImage(img)
					} else {
						im = s.Vx.NewFullBlockImage(img)
					}
					if history {
						im.Resize(first[0], first[1])
					}
					im.Resize(box[0], box[1])
					im.Draw(win.New(1, 1, 4, 4))
					s.Vx.Render()
					var out [][]refterm.Cell
					s.Con.With(func(t *refterm.Terminal) {
						for _, row := range t.Grid() {
							out = append(out, append([]refterm.Cell(nil), row...))
						}
					})
					return out
				}
				fresh := draw(false)
				again := draw(true)
				bad := ""
				for y := range fresh {
					for x := range fresh[y] {
						if bad == "" && (fresh[y][x].Text != again[y][x].Text || fresh[y][x].Style != again[y][x].Style) {
							bad = fmt.Sprintf("cell %d,%d: an image resized to %dx%d and then to %dx%d shows %q %+v, a fresh image resized to %dx%d shows %q %+v", x, y, first[0], first[1], box[0], box[1],
								again[y][x].Text, again[y][x].Style, box[0], box[1], fresh[y][x].Text, fresh[y][x].Style)
						}
					}
				}
				cs := fmt.Sprintf("4x4 pixels in quadrants %v, box %dx%d", qs, box[0], box[1])
				if bad != "" {
					r.Violation("C20|block|"+kind+"|resize-history", code, detail{Part: "block", Case: cs, Why: bad})
					continue
				}
				r.Distinct(explore.Hash("block-history", kind, cs))
			}
		}
	}
}

// ---- containment of image drawing ---------------------------------------------------------------------

func containSweep() {
	for _, pr := range []struct {
		name string
		caps refterm.Cap
	}{{"kitty", refterm.CapKittyGraphics | refterm.CapInBandResize | refterm.CapRGB}, {"sixel", refterm.CapSixelDA1 | refterm.CapInBandResize | refterm.CapRGB}, {"halfblock", refterm.CapRGB}} {
		s := openSession(pr.caps, 2, 4, 6, 4)
		for iw := 1; iw <= 4; iw++ {
			for ih := 1; ih <= 3; ih++ {
				img := solid(iw*2, ih*4, color.NRGBA{0, 0, 255, 255})
				var im vaxis.Image
				switch pr.name {
				case "kitty":
					im = s.Vx.NewKittyGraphic(img)
				case "sixel":
					im = s.Vx.NewSixel(img)
				default:
					im = s.Vx.NewHalfBlockImage(solid(iw, ih*2, color.NRGBA{0, 0, 255, 255}))
				}
				im.Resize(6, 4)
				if pr.name != "halfblock" {
					waitRedraw(s)
				}
				cw, chh := im.CellSize()
				for _, wg := range [][4]int{{0, 0, 6, 4}, {1, 1, 2, 2}, {2, 0, 3, 1}, {4, 2, 2, 2}, {0, 0, 1, 1}} {
					r.Count("contain_cases", 1)
					cs := fmt.Sprintf("%s image %dx%d cells drawn into window at %d,%d size %dx%d", pr.name, cw, chh, wg[0], wg[1], wg[2], wg[3])
					root := s.Vx.Window()
					root.Clear()
					root.Fill(vaxis.Cell{Character: vaxis.Character{Grapheme: "·", Width: 1}})
					win := root.New(wg[0], wg[1], wg[2], wg[3])
					var before int
					s.Con.With(func(t *refterm.Terminal) { before = len(t.Graphics) })
					im.Draw(win)
					s.Vx.Render()
					bad := ""
					s.Con.With(func(t *refterm.Terminal) {
						for _, op := range t.Graphics[before:] {
							if op.Action == "place" || op.Action == "transmit+place" {
								// the image covers cw x chh cells from the cursor position
								if op.Col < wg[0] || op.Row < wg[1] || op.Col+cw > wg[0]+win.Width || op.Row+chh > wg[1]+win.Height {
									bad = fmt.Sprintf("%s places %dx%d cells at %d,%d: outside the window", op.Proto, cw, chh, op.Col, op.Row)
								}
							}
						}
						g := t.Grid()
						for y := range g {
							for x := range g[y] {
								inside := x >= wg[0] && x < wg[0]+win.Width && y >= wg[1] && y < wg[1]+win.Height
								if !inside && g[y][x].Text != "·" && bad == "" {
									bad = fmt.Sprintf("cell %d,%d outside the window changed to %q", x, y, g[y][x].Text)
								}
							}
						}
					})
					if bad != "" {
						r.Violation("C20|contain|"+pr.name, cw*chh, detail{Part: "containment", Case: cs, Why: bad})
					} else {
						r.Distinct(explore.Hash("contain", cs))
					}
					// clean up placements for the next case
					s.Vx.Window().Clear()
					s.Vx.Refresh()
				}
			}
		}
		s.Vx.Close()
	}
}

// ---- placement histories -----------------------------------------------------------------------------------

type pframe struct {
	A       int // 0 absent, 1 at p1, 2 at p2
	B       bool
	Refresh bool
	ResizeA bool // A re-sized (to a smaller box) before this frame
}

func (f pframe) String() string {
	var p []string
	if f.ResizeA {
		p = append(p, "resize A")
	}
	switch f.A {
	case 1:
		p = append(p, "draw A at (0,0)")
	case 2:
		p = append(p, "draw A at (3,1)")
	}
	if f.B {
		p = append(p, "draw B at (0,2)")
	}
	if len(p) == 0 {
		p = append(p, "draw nothing")
	}
	if f.Refresh {
		p = append(p, "Refresh")
	} else {
		p = append(p, "Render")
	}
	return strings.Join(p, ", ")
}

func placementFrames() []pframe {
	var fs []pframe
	for a := 0; a <= 2; a++ {
		for _, b := range []bool{false, true} {
			for _, rf := range []bool{false, true} {
				fs = append(fs, pframe{A: a, B: b, Refresh: rf})
			}
		}
	}
	fs = append(fs, pframe{A: 1, ResizeA: true}, pframe{A: 1, B: true, ResizeA: true})
	return fs
}

type placed struct {
	id       int
	col, row int
	w, h     int
}

func runPlacement(proto string, path []uint16) (uint64, explore.Status) {
	caps := refterm.CapInBandResize | refterm.CapRGB
	if proto == "kitty" {
		caps |= refterm.CapKittyGraphics
	} else {
		caps |= refterm.CapSixelDA1
	}
	s := openSession(caps, 2, 4, 8, 4)
	defer s.Vx.Close()
	frames := placementFrames()
	mk := func(c color.NRGBA) vaxis.Image {
		var im vaxis.Image
		if proto == "kitty" {
			im = s.Vx.NewKittyGraphic(solid(4, 8, c))
		} else {
			im = s.Vx.NewSixel(solid(4, 8, c))
		}
		im.Resize(2, 2)
		waitRedraw(s)
		return im
	}
	A, B := mk(color.NRGBA{255, 0, 0, 255}), mk(color.NRGBA{0, 255, 0, 255})
	idOf := map[vaxis.Image]int{A: 1, B: 2}
	var last []placed
	var names []string
	uploaded := map[int]bool{}
	for i, op := range path {
		f := frames[op]
		names = append(names, f.String())
		if f.ResizeA {
			A.Resize(1, 1)
			waitRedraw(s)
			uploaded[1] = false
		}
		win := s.Vx.Window()
		win.Clear()
		var next []placed
		draw := func(im vaxis.Image, col, row int) {
			w, h := im.CellSize()
			im.Draw(win.New(col, row, w, h))
			next = append(next, placed{idOf[im], col, row, w, h})
		}
		switch f.A {
		case 1:
			draw(A, 0, 0)
		case 2:
			draw(A, 3, 1)
		}
		if f.B {
			draw(B, 0, 2)
		}
		var before int
		s.Con.With(func(t *refterm.Terminal) { before = len(t.Graphics) })
		if f.Refresh {
			s.Vx.Refresh()
		} else {
			s.Vx.Render()
		}
		if i != len(path)-1 {
			last = next
			for _, p := range next {
				uploaded[p.id] = true
			}
			continue
		}
		// expected actions for this frame
		same := func(a, b placed) bool { return a == b }
		var wantDel, wantPlace []placed
		for _, p := range last {
			keep := false
			for _, q := range next {
				keep = keep || same(p, q)
			}
			if f.Refresh || !keep {
				wantDel = append(wantDel, p)
			}
		}
		for _, q := range next {
			had := false
			for _, p := range last {
				had = had || same(p, q)
			}
			if f.Refresh || !had {
				wantPlace = append(wantPlace, q)
			}
		}
		var ops []refterm.GraphicsOp
		s.Con.With(func(t *refterm.Terminal) { ops = append(ops, t.Graphics[before:]...) })
		count := func(action string, id int) int {
			n := 0
			for _, o := range ops {
				if o.Action == action && (id == 0 || o.ID == id) {
					n++
				}
			}
			return n
		}
		bad := func(clause, why string) (uint64, explore.Status) {
			r.Violation("C20|placement|"+proto+"|"+clause, len(path)*100+int(op), detail{Part: "placement history (" + proto + ")", Case: strings.Join(names, " ; "), Why: why})
			return 0, explore.StStop
		}
		if proto == "kitty" {
			for _, id := range []int{1, 2} {
				wp, wd := 0, 0
				for _, p := range wantPlace {
					if p.id == id {
						wp++
					}
				}
				for _, p := range wantDel {
					if p.id == id {
						wd++
					}
				}
				if got := count("place", id); got != wp {
					return bad("place", fmt.Sprintf("image %d: %d place commands, want %d (ops: %v)", id, got, wp, opsStr(ops)))
				}
				if got := count("delete", id); got != wd {
					return bad("delete", fmt.Sprintf("image %d: %d delete commands, want %d (ops: %v)", id, got, wd, opsStr(ops)))
				}
				tx := count("transmit", id) + count("chunk", id)
				if wp > 0 && !uploaded[id] && tx == 0 {
					return bad("transmit", fmt.Sprintf("image %d placed but never transmitted", id))
				}
				if (wp == 0 || uploaded[id]) && tx > 0 {
					return bad("retransmit", fmt.Sprintf("image %d transmitted again although unchanged (ops: %v)", id, opsStr(ops)))
				}
			}
		} else {
			if got := count("transmit+place", 0); got != len(wantPlace) {
				return bad("place", fmt.Sprintf("%d sixel images written, want %d", got, len(wantPlace)))
			}
		}
		last = next
	}
	return explore.Hash(proto, fmt.Sprint(last), s.Vx.VerifState()), explore.StOK
}

// replaceSweep: an image is shown, destroyed and replaced by a new image object that is drawn in the next frame (at
// the same place with the same cell size, or elsewhere; with or without an empty frame in between; by Render or by
// Refresh): the new image is a placement that first appears - it must be placed, and (kitty) its data transmitted
// after the old image was deleted, whatever ids the library hands out.
func replaceSweep() {
	for _, proto := range []string{"kitty", "sixel"} {
		for v := 0; v < 8; v++ {
			samePlace, gap, refresh := v&1 == 0, v&2 != 0, v&4 != 0
			caps := refterm.CapInBandResize | refterm.CapRGB
			if proto == "kitty" {
				caps |= refterm.CapKittyGraphics
			} else {
				caps |= refterm.CapSixelDA1
			}
			s := openSession(caps, 2, 4, 8, 4)
			mk := func(c color.NRGBA) vaxis.Image {
				var im vaxis.Image
				if proto == "kitty" {
					im = s.Vx.NewKittyGraphic(solid(4, 8, c))
				} else {
					im = s.Vx.NewSixel(solid(4, 8, c))
				}
				im.Resize(2, 2)
				waitRedraw(s)
				return im
			}
			names := []string{"draw A at (0,0), Render", "A.Destroy(), new image A'"}
			A := mk(color.NRGBA{255, 0, 0, 255})
			win := s.Vx.Window()
			w, h := A.CellSize()
			A.Draw(win.New(0, 0, w, h))
			s.Vx.Render()
			var mark int
			s.Con.With(func(t *refterm.Terminal) { mark = len(t.Graphics) })
			A.Destroy()
			A2 := mk(color.NRGBA{0, 0, 255, 255})
			if gap {
				names = append(names, "draw nothing, Render")
				s.Vx.Window().Clear()
				s.Vx.Render()
			}
			col, row := 0, 0
			if !samePlace {
				col, row = 3, 1
			}
			win = s.Vx.Window()
			win.Clear()
			w, h = A2.CellSize()
			A2.Draw(win.New(col, row, w, h))
			var before int
			s.Con.With(func(t *refterm.Terminal) { before = len(t.Graphics) })
			if refresh {
				names = append(names, fmt.Sprintf("draw A' at (%d,%d), Refresh", col, row))
				s.Vx.Refresh()
			} else {
				names = append(names, fmt.Sprintf("draw A' at (%d,%d), Render", col, row))
				s.Vx.Render()
			}
			var since, frame []refterm.GraphicsOp
			s.Con.With(func(t *refterm.Terminal) {
				since = append(since, t.Graphics[mark:]...)
				frame = append(frame, t.Graphics[before:]...)
			})
			r.Count("replace_cases", 1)
			why := ""
			if proto == "kitty" {
				placedID := -1
				for _, o := range frame {
					if o.Action == "place" && o.Col == col && o.Row == row {
						placedID = o.ID
					}
				}
				sent := false
				for _, o := range since {
					if (o.Action == "transmit" || o.Action == "chunk") && o.ID == placedID {
						sent = true
					}
				}
				switch {
				case placedID < 0:
					why = fmt.Sprintf("the new image was not placed at (%d,%d) (graphics commands of the frame: %v)", col, row, opsStr(frame))
				case !sent:
					why = fmt.Sprintf("image %d was placed but its data were never transmitted after the old image was deleted (commands since: %v)", placedID, opsStr(since))
				}
			} else {
				n := 0
				for _, o := range frame {
					if o.Action == "transmit+place" {
						n++
					}
				}
				if n != 1 {
					why = fmt.Sprintf("%d sixel images written in the frame that first shows the new image, want 1", n)
				}
			}
			if why != "" {
				r.Violation("C20|placement|"+proto+"|replaced-image", v, detail{Part: "image destroyed and replaced (" + proto + ")", Case: strings.Join(names, " ; "), Why: why})
			} else {
				r.Distinct(explore.Hash("replace", proto, fmt.Sprint(v)))
			}
			s.Vx.Close()
		}
	}
}

func opsStr(ops []refterm.GraphicsOp) string {
	var p []string
	for _, o := range ops {
		p = append(p, fmt.Sprintf("%s#%d@%d,%d", o.Action, o.ID, o.Col, o.Row))
	}
	return strings.Join(p, " ")
}

func main() {
	r = explore.Start("C20")
	mkBFS := func(proto string) *explore.BFS {
		return &explore.BFS{R: r, Name: "placements-" + proto, NumOps: len(placementFrames()), MaxDepth: r.Pick(4, 6),
			RunPath: func(p []uint16) (uint64, explore.Status) { return runPlacement(proto, p) }}
	}
	if r.Replay != "" {
		r.ReplayBySearch()
	}
	if idx, n, arg, ok := r.Worker(); ok {
		r.Watchdog(60 * time.Second)
		switch {
		case arg == "resize":
			resizeSweep(idx, n)
			if idx == 0 {
				geometryChangeSweep()
			}
		case arg == "block":
			blockSweep(idx, n)
			blockHistorySweep(idx, n)
		case arg == "contain":
			containSweep()
			replaceSweep()
		case strings.HasPrefix(arg, "bfs:"):
			name := strings.SplitN(arg, ":", 3)[1]
			mkBFS(strings.TrimPrefix(name, "placements-")).WorkerMain(arg)
		}
		if idx == 0 {
			r.Sample(map[string]any{"part": arg})
		}
		r.WorkerDone()
	}
	r.Spawn(10, "resize", 0)
	r.Spawn(16, "block", 0)
	r.Spawn(1, "contain", 0)
	var states, trans int64
	for _, proto := range []string{"kitty", "sixel"} {
		b := mkBFS(proto)
		b.Search()
		states += b.States
		trans += b.Transitions
	}
	n := r.Get("resize_cases") + r.Get("block_cases") + r.Get("contain_cases") + r.Get("replace_cases") + trans
	r.Finish(explore.Coverage{
		States: -1, Transitions: n, Traces: n, Evaluations: n,
		Rule:        "Resize: every image size 1..12 x 1..12 px (scaled with the cell geometry) x every box 0..7 x 0..7 for half-block and full-block (cell 1x2) and for kitty and sixel under cell geometries 1x1, 2x2, 2x3 (images up to 24x24 px), 8x16, 10x20 (pixel sizes learnt through the in-band resize report): box, no-upscale and aspect-within-one-cell. Block rendering: every assignment of a 7-value pixel alphabet (opaque, alpha 0/49/50/128, premultiplied half alpha) to images of 1x1..2x3 pixels, drawn and rendered, cell colours read from the reference terminal. Containment: kitty, sixel and half-block images of 1..4 x 1..3 cells into 5 windows. Placement histories: BFS to depth n over 14 frames {A absent / at two positions} x {B} x {Render, Refresh} + resize A, for kitty and sixel; the graphics commands of the last frame are compared with what the placement diff requires. distinct = cases/states that passed; block resize history: every 4x4 px image of four quadrants over the pixel alphabet, resized to an earlier box (the full one, or a small one that forces a downscale) and then to each of six boxes, must draw exactly what a fresh image resized once draws; in every other resize case the image object has been resized to the largest box before; geometry change: the terminal's cell pixel size changes while the program runs (4 changes, kitty and sixel): images resized before the change and new ones fit 4 boxes under the new geometry; replaced image: an image is shown, destroyed and replaced by a new object drawn in the next frame (same place or elsewhere, with or without an empty frame between, Render or Refresh; kitty and sixel) - the new image is placed and its data are sent",
		Exhaustive:  true,
		Bounds:      map[string]any{"placement_depth": r.Pick(4, 6), "placement_states": states},
		Assumptions: []string{"un-premultiplied colours are compared with a tolerance of 1 per channel (rounding)", "aspect within one cell: some scale in (0,1] puts both dimensions within one cell of the result"},
	})
}
