// C15 – vxfw routes events capture-target-bubble and keeps focus and hover
// consistent. Exhaustive over widget trees x capturer masks x focus positions x
// per-node consume behaviour x event kinds, and over short sequences of pointer /
// focus events, all run through the real App.Run stepped deterministically.
package main

import (
	"fmt"
	"strings"
	"time"

	"git.sr.ht/~rockorager/vaxis"
	"git.sr.ht/~rockorager/vaxis/vxfw"
	"verif.local/mc/apprig"
	"verif.local/mc/explore"
	"verif.local/mc/refterm"
)

var r *explore.Run

type detail struct {
	Tree  string   `json:"tree"`
	Setup string   `json:"setup"`
	Event string   `json:"event"`
	Got   []string `json:"got"`
	Want  []string `json:"want"`
	Why   string   `json:"why"`
}

// ---- instrumented widgets -----------------------------------------------------------------------

type world struct {
	rig     *apprig.Rig
	log     []string
	consume map[string]string // node -> "capture" | "target" | "bubble" | ""
	cmdOn   map[string]vxfw.Command
	// delegate: a widget that answers FocusIn by handing the focus on to another widget
	delegate map[string]string
	// hidden: nodes their parent leaves out of the layout; revealOnEnter: a node that answers MouseEnter by
	// revealing another node (a menu growing an item under the pointer) and asking for a redraw
	hidden        map[string]bool
	revealOnEnter map[string]string
	nodes         map[string]vxfw.Widget
	draws         int
	lastN         int
	lastKey       int
	// consumeNotes: every node answers MouseEnter / MouseLeave / FocusIn / FocusOut with
	// ConsumeEventCmd (as vxfw/button does): a consume outside a dispatch must not leak into the next event
	consumeNotes bool
	// a leaf that the layout places under a different parent from one frame to the next
	dynChild  *nodeSpec
	dynParent string
}

type setFocus struct{ target string }
type reveal struct{ name string }
type hide struct{ name string }
type custom struct{}
type marked struct{ id string } // a node configured in cmdOn returns its command when it sees this

type nodeSpec struct {
	name           string
	col, row, w, h int
	z              int
	children       []*nodeSpec
	pass           bool // a controller: Draw hands back its only child's surface unchanged
}

type node struct {
	spec *nodeSpec
	wd   *world
	kids []vxfw.Widget
}

type capNode struct{ node }

func evName(ev vaxis.Event) string {
	switch ev := ev.(type) {
	case vaxis.Key:
		return "key"
	case custom:
		return "custom"
	case vaxis.Mouse:
		if ev.EventType == vaxis.EventMotion {
			return "motion"
		}
		return "press"
	case vaxis.FocusIn:
		return "focus-in"
	case vaxis.FocusOut:
		return "focus-out"
	case vxfw.MouseEnter:
		return "enter"
	case vxfw.MouseLeave:
		return "leave"
	case vxfw.Init:
		return "init"
	case marked:
		return "marked"
	}
	return fmt.Sprintf("%T", ev)
}

func (n *node) special(ev vaxis.Event) (vxfw.Command, bool) {
	if tag, ok := apprig.KeySentinel(ev); ok {
		if n.wd.lastKey != tag {
			n.wd.lastKey = tag
			n.wd.rig.SeenKey(tag)
		}
		return vxfw.ConsumeEventCmd{}, true
	}
	switch ev := ev.(type) {
	case apprig.Sentinel:
		if n.wd.lastN != ev.N {
			n.wd.lastN = ev.N
			n.wd.rig.Seen(ev)
		}
		return vxfw.ConsumeEventCmd{}, true
	case apprig.QuitNow:
		return vxfw.BatchCmd{vxfw.QuitCmd{}, vxfw.ConsumeEventCmd{}}, true
	case setFocus:
		return vxfw.BatchCmd{vxfw.FocusWidgetCmd(n.wd.nodes[ev.target]), vxfw.ConsumeEventCmd{}}, true
	case reveal:
		delete(n.wd.hidden, ev.name)
		return vxfw.BatchCmd{vxfw.RedrawCmd{}, vxfw.ConsumeEventCmd{}}, true
	case hide:
		if n.wd.hidden == nil {
			n.wd.hidden = map[string]bool{}
		}
		n.wd.hidden[ev.name] = true
		return vxfw.BatchCmd{vxfw.RedrawCmd{}, vxfw.ConsumeEventCmd{}}, true
	case vaxis.Resize:
		return nil, true
	}
	return nil, false
}

func (n *node) handle(ev vaxis.Event, phase string) (vxfw.Command, error) {
	if cmd, ok := n.special(ev); ok {
		return cmd, nil
	}
	n.wd.log = append(n.wd.log, fmt.Sprintf("%s:%s:%s", n.spec.name, evName(ev), phase))
	if m, ok := ev.(marked); ok {
		if cmd, ok := n.wd.cmdOn[n.spec.name+":"+m.id]; ok {
			return cmd, nil
		}
	}
	if _, ok := ev.(vxfw.MouseEnter); ok {
		if other, ok := n.wd.revealOnEnter[n.spec.name]; ok && n.wd.hidden[other] {
			delete(n.wd.hidden, other)
			return vxfw.RedrawCmd{}, nil
		}
	}
	if _, ok := ev.(vaxis.FocusIn); ok {
		if to, ok := n.wd.delegate[n.spec.name]; ok {
			return vxfw.FocusWidgetCmd(n.wd.nodes[to]), nil
		}
	}
	if n.wd.consumeNotes {
		switch ev.(type) {
		case vxfw.MouseEnter, vxfw.MouseLeave, vaxis.FocusIn, vaxis.FocusOut:
			return vxfw.BatchCmd{vxfw.RedrawCmd{}, vxfw.ConsumeEventCmd{}}, nil
		}
	}
	if _, ok := ev.(marked); !ok && n.wd.consume[n.spec.name] == phase {
		switch ev.(type) {
		case vaxis.Key, custom, vaxis.Mouse:
			return vxfw.ConsumeEventCmd{}, nil
		}
	}
	return nil, nil
}

func (n *node) HandleEvent(ev vaxis.Event, ph vxfw.EventPhase) (vxfw.Command, error) {
	name := map[vxfw.EventPhase]string{vxfw.CapturePhase: "capture", vxfw.TargetPhase: "target", vxfw.BubblePhase: "bubble"}[ph]
	return n.handle(ev, name)
}

func (n *capNode) CaptureEvent(ev vaxis.Event) (vxfw.Command, error) { return n.handle(ev, "capture") }

func (n *node) Draw(ctx vxfw.DrawContext) (vxfw.Surface, error) {
	if n.spec.name == "root" {
		n.wd.draws++
	}
	if n.spec.pass {
		return n.kids[0].Draw(ctx)
	}
	var self vxfw.Widget = n.wd.nodes[n.spec.name]
	s := vxfw.NewSurface(uint16(n.spec.w), uint16(n.spec.h), self)
	for i, c := range n.spec.children {
		if n.wd.hidden[c.name] {
			continue
		}
		cs, _ := n.kids[i].Draw(ctx)
		ss := vxfw.NewSubSurface(c.col, c.row, cs)
		ss.ZIndex = c.z
		s.Children = append(s.Children, ss)
	}
	if d := n.wd.dynChild; d != nil && n.wd.dynParent == n.spec.name {
		cs, _ := n.wd.nodes[d.name].Draw(ctx)
		s.Children = append(s.Children, vxfw.NewSubSurface(d.col, d.row, cs))
	}
	return s, nil
}

func build(spec *nodeSpec, capMask map[string]bool, wd *world) vxfw.Widget {
	n := node{spec: spec, wd: wd}
	var w vxfw.Widget
	if capMask[spec.name] {
		cn := &capNode{n}
		w = cn
		wd.nodes[spec.name] = w
		for _, c := range spec.children {
			cn.kids = append(cn.kids, build(c, capMask, wd))
		}
		return w
	}
	pn := &n
	w = pn
	wd.nodes[spec.name] = w
	for _, c := range spec.children {
		pn.kids = append(pn.kids, build(c, capMask, wd))
	}
	return w
}

// ---- trees ------------------------------------------------------------------------------------------

const scrW, scrH = 6, 3

type tree struct {
	name    string
	root    *nodeSpec
	overlap bool
}

// passTrees: the widget given to the App is a controller that draws nothing of its own and returns its child's
// surface, so the root of the frame's surface tree belongs to another widget. It is still the first to capture and
// the last to bubble for key and custom events (mouse events follow the surfaces and are not judged here).
func passTrees() []tree {
	mk := func(name string, col, row, w, h, z int, kids ...*nodeSpec) *nodeSpec {
		return &nodeSpec{name: name, col: col, row: row, w: w, h: h, z: z, children: kids}
	}
	ctl := func(kid *nodeSpec) *nodeSpec {
		return &nodeSpec{name: "ctl", w: kid.w, h: kid.h, children: []*nodeSpec{kid}, pass: true}
	}
	return []tree{
		{"ctl>root", ctl(mk("root", 0, 0, 5, 3, 0)), false},
		{"ctl>root(A(C))", ctl(mk("root", 0, 0, 5, 3, 0, mk("A", 0, 0, 3, 2, 0, mk("C", 1, 0, 2, 1, 0)))), false},
	}
}

func trees() []tree {
	mk := func(name string, col, row, w, h, z int, kids ...*nodeSpec) *nodeSpec {
		return &nodeSpec{name: name, col: col, row: row, w: w, h: h, z: z, children: kids}
	}
	return []tree{
		{"root", mk("root", 0, 0, 5, 3, 0), false},
		{"root(A)", mk("root", 0, 0, 5, 3, 0, mk("A", 0, 0, 3, 2, 0)), false},
		{"root(A,B)", mk("root", 0, 0, 5, 3, 0, mk("A", 0, 0, 2, 2, 0), mk("B", 3, 0, 2, 2, 0)), false},
		{"root(A(C))", mk("root", 0, 0, 5, 3, 0, mk("A", 0, 0, 3, 2, 0, mk("C", 1, 0, 2, 1, 0))), false},
		{"root(A(C),B)", mk("root", 0, 0, 5, 3, 0, mk("A", 0, 0, 3, 2, 0, mk("C", 1, 0, 2, 1, 0)), mk("B", 3, 1, 2, 2, 0)), false},
		{"root(A(C,D))", mk("root", 0, 0, 5, 3, 0, mk("A", 0, 0, 4, 2, 0, mk("C", 0, 0, 2, 1, 0), mk("D", 2, 1, 2, 1, 0))), false},
		{"overlap A<B", mk("root", 0, 0, 5, 3, 0, mk("A", 0, 0, 3, 2, 0), mk("B", 2, 0, 3, 2, 1)), true},
		{"overlap A>B", mk("root", 0, 0, 5, 3, 0, mk("A", 0, 0, 3, 2, 1), mk("B", 2, 0, 3, 2, 0)), true},
	}
}

func names(s *nodeSpec) []string {
	out := []string{s.name}
	for _, c := range s.children {
		out = append(out, names(c)...)
	}
	return out
}

// pathTo returns the chain root..name.
func pathTo(s *nodeSpec, name string) []string {
	if s.name == name {
		return []string{s.name}
	}
	for _, c := range s.children {
		if p := pathTo(c, name); p != nil {
			return append([]string{s.name}, p...)
		}
	}
	return nil
}

// chainAt: widgets containing the point, root first (disjoint siblings); for overlapping siblings the
// topmost (highest z, later on ties) subtree is the target's.
func chainAt(s *nodeSpec, col, row int) []string {
	if col < 0 || row < 0 || col >= s.w || row >= s.h {
		return nil
	}
	out := []string{s.name}
	var best *nodeSpec
	for _, c := range s.children {
		if col >= c.col && col < c.col+c.w && row >= c.row && row < c.row+c.h {
			if best == nil || c.z >= best.z {
				best = c
			}
		}
	}
	if best != nil {
		out = append(out, chainAt(best, col-best.col, row-best.row)...)
	}
	return out
}

// reference router: capture (root down), target, bubble (nearest up), stop at the first consumer.
// The target's own capture handler is left open: returned separately.
func route(chain []string, caps map[string]bool, consume map[string]string, ev string) (want []string, optional string) {
	target := chain[len(chain)-1]
	for _, n := range chain[:len(chain)-1] {
		if caps[n] {
			want = append(want, n+":"+ev+":capture")
			if consume[n] == "capture" {
				return want, ""
			}
		}
	}
	if caps[target] {
		optional = target + ":" + ev + ":capture"
		if consume[target] == "capture" {
			// whether it runs is open; if it does, it consumes
			return want, optional + "!"
		}
	}
	want = append(want, target+":"+ev+":target")
	if consume[target] == "target" {
		return want, optional
	}
	for i := len(chain) - 2; i >= 0; i-- {
		want = append(want, chain[i]+":"+ev+":bubble")
		if consume[chain[i]] == "bubble" {
			return want, optional
		}
	}
	return want, optional
}

func filterRouting(log []string, ev string) []string {
	var out []string
	for _, l := range log {
		if strings.Contains(l, ":"+ev+":") {
			out = append(out, l)
		}
	}
	return out
}

func matches(got, want []string, optional string) bool {
	// optional entry (the target's own capture) may or may not be present, right before the target phase
	try := func(w []string) bool {
		if len(got) != len(w) {
			return false
		}
		for i := range w {
			if got[i] != w[i] {
				return false
			}
		}
		return true
	}
	if try(want) {
		return true
	}
	if optional == "" {
		return false
	}
	opt := strings.TrimSuffix(optional, "!")
	// insert before the first ":target" entry
	var withOpt []string
	inserted := false
	for _, w := range want {
		if !inserted && strings.HasSuffix(w, ":target") {
			withOpt = append(withOpt, opt)
			inserted = true
			if strings.HasSuffix(optional, "!") {
				break // it consumed
			}
		}
		withOpt = append(withOpt, w)
	}
	if !inserted {
		withOpt = append(withOpt, opt)
	}
	return try(withOpt)
}

// ---- the sweeps ------------------------------------------------------------------------------------------

var phases = []string{"", "capture", "target", "bubble"}

func startRig(t tree, caps map[string]bool) (*world, *apprig.Rig) {
	wd := &world{consume: map[string]string{}, cmdOn: map[string]vxfw.Command{}, nodes: map[string]vxfw.Widget{}}
	root := build(t.root, caps, wd)
	rig, err := apprig.Start(refterm.DefaultProfile(0, refterm.VersionOther), scrW, scrH, root, func(g *apprig.Rig) { wd.rig = g })
	if err != nil {
		r.Fault("rig: %v", err)
	}
	// first frame so that the hit-test frame and the focus path exist
	rig.Post(vaxis.Redraw{})
	rig.Tick()
	return wd, rig
}

func (wd *world) focus(name string) {
	wd.rig.Post(setFocus{name})
	wd.rig.Post(vaxis.Redraw{})
	wd.rig.Tick()
}

func mouseBytes(col, row int, motion bool) string {
	b := 0
	if motion {
		b = 35 // motion, no button
	}
	return fmt.Sprintf("\x1b[<%d;%d;%dM", b, col+1, row+1)
}

func routingSweep(idx, n int) {
	k := 0
	for _, t := range append(trees(), passTrees()...) {
		ns := names(t.root)
		for mask := 0; mask < 1<<len(ns); mask++ {
			k++
			if k%n != idx {
				continue
			}
			caps := map[string]bool{}
			for i, nm := range ns {
				caps[nm] = mask>>i&1 == 1
			}
			wd, rig := startRig(t, caps)
			// consume configurations: every assignment of a phase to one or two nodes (others never consume)
			var cfgs []map[string]string
			cfgs = append(cfgs, map[string]string{})
			for _, a := range ns {
				for _, pa := range phases[1:] {
					cfgs = append(cfgs, map[string]string{a: pa})
					for _, b := range ns {
						if b <= a {
							continue
						}
						for _, pb := range phases[1:] {
							cfgs = append(cfgs, map[string]string{a: pa, b: pb})
						}
					}
				}
			}
			for _, f := range ns {
				wd.focus(f)
				chain := pathTo(t.root, f)
				for _, cfg := range cfgs {
					wd.consume = cfg
					for _, evk := range []string{"key", "custom"} {
						wd.log = nil
						if evk == "key" {
							rig.Inject("x")
						} else {
							rig.Post(custom{})
						}
						r.Count("routing_cases", 1)
						got := filterRouting(wd.log, evk)
						want, opt := route(chain, caps, cfg, evk)
						if !matches(got, want, opt) {
							r.Violation(fmt.Sprintf("C15|routing|%s|focus-depth=%d", evk, len(chain)), len(cfg)*100+mask, detail{Tree: t.name, Setup: fmt.Sprintf("capturers %v, focus %s, consume %v", caps, f, cfg), Event: evk, Got: got, Want: want,
								Why: "the per-widget (event, phase) log differs from capture -> target -> bubble with stop at the first consumer"})
						} else {
							r.Distinct(explore.Hash("route", t.name, fmt.Sprint(mask), f, fmt.Sprint(cfg), evk))
						}
					}
				}
			}
			if t.root.pass {
				rig.Stop()
				continue
			}
			// mouse routing at every screen cell (focus irrelevant)
			wd.focus("root")
			for _, cfg := range cfgs {
				if len(cfg) > 1 && mask%3 != 0 {
					continue
				}
				wd.consume = cfg
				for row := 0; row < scrH; row++ {
					for col := 0; col < scrW; col++ {
						wd.log = nil
						rig.Inject(mouseBytes(col, row, false))
						r.Count("routing_cases", 1)
						got := filterRouting(wd.log, "press")
						chain := chainAt(t.root, col, row)
						if chain == nil {
							if len(got) != 0 {
								r.Violation("C15|mouse-routing|outside", mask, detail{Tree: t.name, Setup: fmt.Sprintf("capturers %v consume %v", caps, cfg), Event: fmt.Sprintf("press at %d,%d", col, row), Got: got, Why: "a press outside the root surface was delivered"})
							}
							continue
						}
						if t.overlap {
							// only the target is constrained when siblings overlap
							tgt := ""
							for _, g := range got {
								if strings.HasSuffix(g, ":target") {
									tgt = strings.Split(g, ":")[0]
								}
							}
							consumedEarlier := false
							for _, nm := range chain[:len(chain)-1] {
								if caps[nm] && cfg[nm] == "capture" {
									consumedEarlier = true
								}
							}
							for nm, ph := range cfg {
								if ph == "capture" && caps[nm] {
									consumedEarlier = consumedEarlier || nm != chain[len(chain)-1] || true
								}
							}
							if !consumedEarlier && tgt != chain[len(chain)-1] {
								r.Violation("C15|mouse-routing|target|overlap", mask, detail{Tree: t.name, Setup: fmt.Sprintf("capturers %v consume %v", caps, cfg), Event: fmt.Sprintf("press at %d,%d", col, row), Got: got, Want: []string{chain[len(chain)-1] + ":press:target"}, Why: "the target is not the topmost deepest widget under the pointer"})
							}
							continue
						}
						want, opt := route(chain, caps, cfg, "press")
						if !matches(got, want, opt) {
							r.Violation(fmt.Sprintf("C15|mouse-routing|depth=%d", len(chain)), len(cfg)*100+mask, detail{Tree: t.name, Setup: fmt.Sprintf("capturers %v consume %v", caps, cfg), Event: fmt.Sprintf("press at %d,%d", col, row), Got: got, Want: want,
								Why: "the per-widget (event, phase) log differs from capture -> target -> bubble along the chain under the pointer"})
						} else {
							r.Distinct(explore.Hash("mroute", t.name, fmt.Sprint(mask), fmt.Sprint(cfg), fmt.Sprint(col, row)))
						}
					}
				}
			}
			rig.Stop()
		}
	}
}

// hover / focus sequences
func hoverSweep(idx, n int) {
	type step struct {
		name string
		do   func(wd *world)
	}
	var steps []step
	for _, p := range [][2]int{{0, 0}, {1, 0}, {2, 1}, {3, 1}, {4, 2}, {5, 0}} {
		pp := p
		steps = append(steps, step{fmt.Sprintf("motion(%d,%d)", p[0], p[1]), func(wd *world) { wd.rig.Inject(mouseBytes(pp[0], pp[1], true)) }})
	}
	steps = append(steps, step{"terminal focus out", func(wd *world) { wd.rig.Inject("\x1b[O") }})
	steps = append(steps, step{"terminal focus in", func(wd *world) { wd.rig.Inject("\x1b[I") }})
	steps = append(steps, step{"frame", func(wd *world) { wd.rig.Post(vaxis.Redraw{}); wd.rig.Tick() }})
	k := 0
	maxLen := r.Pick(3, 4)
	for _, t := range trees() {
		if t.overlap {
			continue
		}
		var rec func(seq []int)
		rec = func(seq []int) {
			if len(seq) > 0 {
				k++
				if k%n == idx {
					wd, rig := startRig(t, map[string]bool{})
					var sn []string
					for _, si := range seq {
						wd.log = append(wd.log, "#"+steps[si].name)
						steps[si].do(wd)
						sn = append(sn, steps[si].name)
					}
					// close: the terminal loses focus; every widget must end with its hover closed, and stay
					// closed over the next frame
					wd.log = append(wd.log, "#terminal focus out")
					rig.Inject("\x1b[O")
					wd.log = append(wd.log, "#frame")
					rig.Post(vaxis.Redraw{})
					rig.Tick()
					r.Count("hover_cases", 1)
					bad := ""
					for _, nm := range names(t.root) {
						inside := false
						away := false // the terminal lost focus and the pointer has not been heard of since
						for _, l := range wd.log {
							if strings.HasPrefix(l, "#") {
								switch {
								case l == "#terminal focus out":
									away = true
								case l == "#terminal focus in" || strings.HasPrefix(l, "#motion"):
									away = false
								}
								continue
							}
							switch l {
							case nm + ":enter:target":
								if inside {
									bad = fmt.Sprintf("%s received mouse-enter twice without a leave in between", nm)
								}
								if away && bad == "" {
									bad = fmt.Sprintf("%s received mouse-enter while-unfocused: the terminal has lost focus and no pointer event has arrived since", nm)
								}
								inside = true
							case nm + ":leave:target":
								if !inside {
									bad = fmt.Sprintf("%s received mouse-leave without a preceding enter", nm)
								}
								inside = false
							}
						}
						if inside && bad == "" {
							bad = fmt.Sprintf("%s is still hovered after the terminal lost focus", nm)
						}
						if bad != "" {
							break
						}
					}
					if bad != "" {
						fi := "no-focus-in"
						if strings.Contains(strings.Join(sn, " "), "focus in") {
							fi = "after-terminal-focus-in"
						}
						kind := strings.Split(bad, " ")[1]
						if strings.Contains(bad, "while-unfocused") {
							kind = "enter-while-unfocused"
						}
						r.Violation("C15|hover|"+kind+"|"+fi, len(seq), detail{Tree: t.name, Event: strings.Join(sn, " ; ") + " ; terminal focus out ; frame", Got: wd.log, Why: bad})
					} else {
						r.Distinct(explore.Hash("hover", t.name, fmt.Sprint(seq)))
					}
					rig.Stop()
				}
			}
			if len(seq) == maxLen {
				return
			}
			for i := range steps {
				rec(append(append([]int{}, seq...), i))
			}
		}
		rec(nil)
	}
}

// hoverRelayoutSweep: a menu opens under the resting pointer; its MouseEnter handler, called while the frame
// is being prepared, adds an item under the pointer and asks for a redraw, so the frame is laid out a second
// time before it is shown. The next press is routed along the widgets of the frame that was shown.
func hoverRelayoutSweep() {
	mk := func(name string, col, row, w, h int, kids ...*nodeSpec) *nodeSpec {
		return &nodeSpec{name: name, col: col, row: row, w: w, h: h, children: kids}
	}
	for _, item := range [][4]int{{1, 0, 2, 1}, {0, 0, 3, 2}, {0, 1, 1, 1}} {
		t := tree{fmt.Sprintf("root(menu(item@%v))", item), mk("root", 0, 0, 5, 3, mk("A", 0, 0, 3, 2, mk("C", item[0], item[1], item[2], item[3]))), false}
		for row := 0; row < scrH; row++ {
			for col := 0; col < scrW; col++ {
				wd, rig := startRig(t, map[string]bool{})
				wd.hidden = map[string]bool{"A": true, "C": true}
				wd.revealOnEnter = map[string]string{"A": "C"}
				rig.Post(vaxis.Redraw{})
				rig.Tick()
				rig.Inject(mouseBytes(col, row, true))
				rig.Post(reveal{"A"})
				rig.Tick()
				wd.log = nil
				rig.Inject(mouseBytes(col, row, false))
				r.Count("routing_cases", 1)
				got := filterRouting(wd.log, "press")
				var want []string
				inA := col < 3 && row < 2
				inC := inA && col >= item[0] && col < item[0]+item[2] && row >= item[1] && row < item[1]+item[3]
				switch {
				case col >= 5 || row >= 3:
				case inC:
					want = []string{"C:press:target", "A:press:bubble", "root:press:bubble"}
				case inA:
					want = []string{"A:press:target", "root:press:bubble"}
				default:
					want = []string{"root:press:target"}
				}
				if strings.Join(got, " ") != strings.Join(want, " ") {
					r.Violation("C15|mouse-routing|after-relayout-within-a-frame", 0, detail{Tree: t.name, Setup: fmt.Sprintf("pointer resting at %d,%d; a menu opens under it and grows an item from its MouseEnter handler (second layout of the same frame)", col, row),
						Event: fmt.Sprintf("press at %d,%d", col, row), Got: got, Why: fmt.Sprintf("want %v: the chain of widgets under the pointer in the frame that was shown", want)})
				} else {
					r.Distinct(explore.Hash("hover-relayout", t.name, fmt.Sprint(col, row)))
				}
				rig.Stop()
			}
		}
	}
}

// relayoutSweep: the focused leaf keeps the focus while the layout moves it under another parent;
// after the next frame a key follows the new ancestor chain.
func relayoutSweep(idx, n int) {
	mk := func(name string, col, row, w, h int, kids ...*nodeSpec) *nodeSpec {
		return &nodeSpec{name: name, col: col, row: row, w: w, h: h, children: kids}
	}
	t := tree{"root(A,B)+moving L", mk("root", 0, 0, 5, 3, mk("A", 0, 0, 2, 2), mk("B", 3, 0, 2, 2)), false}
	leaf := mk("L", 0, 0, 1, 1)
	ns := []string{"root", "A", "B", "L"}
	k := 0
	for mask := 0; mask < 1<<len(ns); mask++ {
		k++
		if k%n != idx {
			continue
		}
		caps := map[string]bool{}
		for i, nm := range ns {
			caps[nm] = mask>>i&1 == 1
		}
		wd, rig := startRig(t, caps)
		build(leaf, caps, wd)
		wd.dynChild, wd.dynParent = leaf, "A"
		rig.Post(vaxis.Redraw{})
		rig.Tick()
		wd.focus("L")
		for step, parent := range []string{"A", "B", "A", "B"} {
			wd.dynParent = parent
			rig.Post(vaxis.Redraw{})
			rig.Tick()
			wd.log = nil
			rig.Inject("x")
			r.Count("relayout_cases", 1)
			got := filterRouting(wd.log, "key")
			want, opt := route([]string{"root", parent, "L"}, caps, map[string]string{}, "key")
			if !matches(got, want, opt) {
				r.Violation("C15|routing-after-relayout|key", mask, detail{Tree: t.name, Setup: fmt.Sprintf("capturers %v, focus L, step %d: L drawn under %s", caps, step, parent), Event: "key x", Got: got, Want: want,
					Why: "the key does not follow the focused widget's ancestor chain of the last frame"})
				break
			}
			r.Distinct(explore.Hash("relayout", fmt.Sprint(mask), fmt.Sprint(step)))
		}
		rig.Stop()
	}
}

// notificationSweep: widgets that consume hover / focus notifications (delivered outside the three
// phases). Whatever notification came before, the next key, custom event or press is routed in full.
func notificationSweep(idx, n int) {
	k := 0
	for _, t := range trees() {
		if t.overlap {
			continue
		}
		ns := names(t.root)
		for mask := 0; mask < 1<<len(ns); mask++ {
			k++
			if k%n != idx {
				continue
			}
			caps := map[string]bool{}
			for i, nm := range ns {
				caps[nm] = mask>>i&1 == 1
			}
			wd, rig := startRig(t, caps)
			wd.consumeNotes = true
			// the notification-raising input and the probe key travel in one read: nothing (not even
			// the harness's own sentinel key) is dispatched between them
			pres := []struct{ name, bytes string }{
				{"motion(0,0)", mouseBytes(0, 0, true)},
				{"motion(2,1)", mouseBytes(2, 1, true)},
				{"motion(5,0)", mouseBytes(5, 0, true)},
				{"motion(1,0) motion(4,2)", mouseBytes(1, 0, true) + mouseBytes(4, 2, true)},
				{"terminal focus out", "\x1b[O"},
				{"terminal focus in", "\x1b[I"},
			}
			for _, f := range ns {
				wd.focus(f)
				chain := pathTo(t.root, f)
				for _, p := range pres {
					// start from a neutral hover state so that the step raises notifications again
					rig.Inject(mouseBytes(5, 2, true))
					wd.log = nil
					rig.Inject(p.bytes + "x")
					r.Count("notification_cases", 1)
					got := filterRouting(wd.log, "key")
					want, opt := route(chain, caps, map[string]string{}, "key")
					if !matches(got, want, opt) {
						r.Violation("C15|routing-after-notification|key", mask, detail{Tree: t.name, Setup: fmt.Sprintf("capturers %v, focus %s, every widget consumes hover and focus notifications", caps, f), Event: p.name + " ; key x (same read)", Got: got, Want: want,
							Why: "after a consumed notification the next event is not routed capture -> target -> bubble in full"})
					} else {
						r.Distinct(explore.Hash("note", t.name, fmt.Sprint(mask), f, p.name))
					}
				}
			}
			rig.Stop()
		}
	}
}

// focus changes and commands
func commandSweep() {
	for _, t := range trees() {
		if t.overlap {
			continue
		}
		ns := names(t.root)
		for _, from := range ns {
			for _, to := range ns {
				wd, rig := startRig(t, map[string]bool{"root": true})
				wd.focus(from)
				wd.log = nil
				rig.Post(setFocus{to})
				r.Count("command_cases", 1)
				var outs, ins []string
				for _, l := range wd.log {
					if strings.HasSuffix(l, ":focus-out:target") {
						outs = append(outs, l)
					}
					if strings.HasSuffix(l, ":focus-in:target") {
						ins = append(ins, l)
					}
				}
				ok := true
				if from == to {
					ok = len(outs) == 0 && len(ins) == 0
				} else {
					ok = len(outs) == 1 && len(ins) == 1 && outs[0] == from+":focus-out:target" && ins[0] == to+":focus-in:target"
				}
				if !ok {
					r.Violation("C15|focus-change", 0, detail{Tree: t.name, Setup: "focus " + from, Event: "FocusWidgetCmd(" + to + ")", Got: wd.log, Why: "want exactly one focus-out to the old widget and one focus-in to the new one"})
				} else {
					r.Distinct(explore.Hash("focus", t.name, from, to))
				}
				rig.Stop()
			}
		}
		// the focused widget leaves the tree (a dialog is closed): the next frame moves the focus to the root -
		// one focus-out to the widget that left, one focus-in to the root, the next event targeted at the root
		for _, gone := range ns[1:] {
			wd, rig := startRig(t, map[string]bool{})
			wd.focus(gone)
			wd.log = nil
			rig.Post(hide{gone})
			rig.Tick()
			rig.Post(custom{})
			r.Count("command_cases", 1)
			var notes []string
			target := ""
			for _, l := range wd.log {
				if strings.HasSuffix(l, ":focus-out:target") || strings.HasSuffix(l, ":focus-in:target") {
					notes = append(notes, strings.TrimSuffix(l, ":target"))
				}
				if strings.HasSuffix(l, ":custom:target") {
					target = strings.TrimSuffix(l, ":custom:target")
				}
			}
			want := []string{gone + ":focus-out", "root:focus-in"}
			bad := ""
			switch {
			case strings.Join(notes, " ") != strings.Join(want, " "):
				bad = fmt.Sprintf("focus notifications %v, want %v", notes, want)
			case target != "root":
				bad = fmt.Sprintf("the next event had %q as its target, want the root", target)
			}
			if bad != "" {
				r.Violation("C15|focus-leaves-tree", 0, detail{Tree: t.name, Setup: "focus " + gone + ", then " + gone + " is left out of the layout", Event: "frame, then a custom event", Got: wd.log, Why: bad})
			} else {
				r.Distinct(explore.Hash("focus-gone", t.name, gone))
			}
			rig.Stop()
		}
		// RefreshCmd takes effect once: the frame after a refresh frame is an ordinary one again (it writes
		// what an ordinary frame of the unchanged screen wrote before the refresh)
		{
			other := ns[len(ns)-1]
			wd, rig := startRig(t, map[string]bool{})
			wd.focus(other)
			wd.cmdOn[other+":m"] = vxfw.RedrawCmd{}
			wd.cmdOn[other+":r"] = vxfw.BatchCmd{vxfw.RefreshCmd{}, vxfw.RedrawCmd{}}
			frameBytes := func(id string) int {
				var b0, b1 int
				rig.Con.With(func(*refterm.Terminal) {})
				b0 = rig.Con.Bytes
				rig.Post(marked{id})
				rig.Tick()
				b1 = rig.Con.Bytes
				return b1 - b0
			}
			frameBytes("m")
			ordinary := frameBytes("m")
			refresh := frameBytes("r")
			after := frameBytes("m")
			r.Count("command_cases", 1)
			if after != ordinary {
				r.Violation("C15|command|RefreshCmd|sticks", 0, detail{Tree: t.name, Setup: "focus " + other, Event: "RedrawCmd, RedrawCmd, RefreshCmd+RedrawCmd, RedrawCmd",
					Why: fmt.Sprintf("an ordinary frame of the unchanged screen wrote %d bytes, the refresh frame %d, the ordinary frame after it %d: the refresh is still in effect", ordinary, refresh, after)})
			} else {
				r.Distinct(explore.Hash("refresh-once", t.name))
			}
			rig.Stop()
		}
		// delegation: the newly focused widget hands the focus on from its FocusIn handler (a container
		// passing it to its input field): two focus changes, each with one focus-out and one focus-in, and
		// the next event goes to the final widget
		for _, from := range ns {
			for _, via := range ns {
				for _, to := range ns {
					if from == via || via == to {
						continue
					}
					wd, rig := startRig(t, map[string]bool{})
					wd.focus(from)
					wd.delegate = map[string]string{via: to}
					wd.log = nil
					rig.Post(setFocus{via})
					r.Count("command_cases", 1)
					var notes []string
					for _, l := range wd.log {
						if strings.HasSuffix(l, ":focus-out:target") || strings.HasSuffix(l, ":focus-in:target") {
							notes = append(notes, strings.TrimSuffix(l, ":target"))
						}
					}
					want := []string{from + ":focus-out", via + ":focus-in", via + ":focus-out", to + ":focus-in"}
					bad := ""
					if strings.Join(notes, " ") != strings.Join(want, " ") {
						bad = fmt.Sprintf("focus notifications %v, want %v", notes, want)
					} else {
						wd.log = nil
						rig.Post(custom{})
						got := ""
						for _, l := range wd.log {
							if strings.HasSuffix(l, ":custom:target") {
								got = strings.TrimSuffix(l, ":custom:target")
							}
						}
						if got != to {
							bad = fmt.Sprintf("the next event had %q as its target, want %q", got, to)
						}
					}
					if bad != "" {
						r.Violation("C15|focus-delegation", 0, detail{Tree: t.name, Setup: "focus " + from + "; " + via + " answers FocusIn with FocusWidgetCmd(" + to + ")", Event: "FocusWidgetCmd(" + via + ")", Got: wd.log, Why: bad})
					} else {
						r.Distinct(explore.Hash("delegate", t.name, from, via, to))
					}
					rig.Stop()
				}
			}
		}
		// commands: each takes effect exactly once
		type cmdCase struct {
			name string
			cmd  vxfw.Command
		}
		other := ns[len(ns)-1]
		cases := []cmdCase{
			{"RedrawCmd", vxfw.RedrawCmd{}},
			{"RefreshCmd+RedrawCmd", vxfw.BatchCmd{vxfw.RefreshCmd{}, vxfw.RedrawCmd{}}},
			{"QuitCmd", vxfw.QuitCmd{}},
			{"batch(RedrawCmd,ConsumeEventCmd)", vxfw.BatchCmd{vxfw.RedrawCmd{}, vxfw.ConsumeEventCmd{}}},
			{"[]Command{RedrawCmd}", []vxfw.Command{vxfw.RedrawCmd{}}},
			{"nested batch", vxfw.BatchCmd{vxfw.BatchCmd{vxfw.RedrawCmd{}}, vxfw.ConsumeEventCmd{}}},
		}
		for _, c := range cases {
			wd, rig := startRig(t, map[string]bool{})
			wd.focus(other)
			wd.cmdOn[other+":m"] = c.cmd
			d0 := wd.draws
			var full0 int
			rig.Con.With(func(tt *refterm.Terminal) { full0 = tt.Bells })
			_ = full0
			wd.log = nil
			alive := rig.Post(marked{"m"})
			r.Count("command_cases", 1)
			bad := ""
			switch {
			case strings.Contains(c.name, "QuitCmd"):
				if alive {
					if fin, _ := rig.Finished(); !fin {
						bad = "Run did not return after QuitCmd"
					}
				}
			default:
				if !alive {
					bad = "Run returned"
					break
				}
				rig.Tick()
				if wd.draws-d0 != 1 {
					bad = fmt.Sprintf("%d frames laid out after one redraw command and one tick, want 1", wd.draws-d0)
				}
				rig.Tick()
				if bad == "" && wd.draws-d0 != 1 {
					bad = fmt.Sprintf("a second frame was drawn without a new redraw command (%d)", wd.draws-d0)
				}
				if strings.Contains(c.name, "Consume") {
					// consumed at the target: ancestors must not see it in the bubble phase
					for _, l := range wd.log {
						if strings.HasSuffix(l, ":marked:bubble") {
							bad = "the event bubbled although the target returned ConsumeEventCmd: " + l
						}
					}
				}
			}
			if bad != "" {
				r.Violation("C15|command|"+c.name, 0, detail{Tree: t.name, Setup: "focus " + other, Event: "marked event answered with " + c.name, Got: wd.log, Why: bad})
			} else {
				r.Distinct(explore.Hash("cmd", t.name, c.name))
			}
			if fin, _ := rig.Finished(); !fin {
				rig.Stop()
			}
		}
	}
}

func main() {
	r = explore.Start("C15")
	if r.Replay != "" {
		r.ReplayBySearch()
	}
	if idx, n, arg, ok := r.Worker(); ok {
		r.Watchdog(60 * time.Second)
		switch arg {
		case "routing":
			routingSweep(idx, n)
		case "hover":
			hoverSweep(idx, n)
		case "notifications":
			notificationSweep(idx, n)
			relayoutSweep(idx, n)
		case "commands":
			commandSweep()
			hoverRelayoutSweep()
		}
		if idx == 0 {
			r.Sample(map[string]any{"part": arg})
		}
		r.WorkerDone()
	}
	r.Spawn(16, "routing", 0)
	r.Spawn(16, "hover", 0)
	r.Spawn(16, "notifications", 0)
	r.Spawn(1, "commands", 0)
	n := r.Get("routing_cases") + r.Get("hover_cases") + r.Get("command_cases") + r.Get("notification_cases") + r.Get("relayout_cases")
	r.Finish(explore.Coverage{
		States: -1, Transitions: n, Traces: n, Evaluations: n,
		Rule:       "8 widget trees (1-4 nodes, depth <= 3, disjoint and overlapping siblings with both z orders) on a 6x3 screen with a 5x3 root; routing: every capturer mask x every focus position x every assignment of a consuming phase to at most two nodes x {key (injected as terminal input), custom event}, and a press at every screen cell, each compared with a reference router (capture root-down, target, bubble up, stop at the first consumer; the target's own capture handler left open); hover: every sequence of <= n steps over {pointer motion at 6 points incl. outside the root, terminal focus out/in, frame} followed by a focus-out and a frame: per widget enter/leave must alternate starting with enter, end closed, and no enter may arrive between a terminal focus-out and the next pointer or focus-in event; notifications: with every widget consuming MouseEnter/MouseLeave/FocusIn/FocusOut (delivered outside the three phases), after each of 6 notification-raising steps the next key (arriving in the same read) is routed in full, for every capturer mask and focus position; re-layout within a frame: a menu opening under the resting pointer grows an item from its MouseEnter handler (the frame is laid out twice), the next press at each of the 15 cells follows the frame that was shown; re-layout: a focused leaf drawn alternately under two parents, a key after each frame follows the new ancestor chain, for every capturer mask; focus: every (old, new) pair gets exactly one focus-out and one focus-in; delegation: for every (old, via, new) triple with via answering FocusIn by focusing new, the four notifications in order and the next event targeted at new; focused widget leaving the tree: one focus-out to it, one focus-in to the root, next event at the root; commands: Redraw, Refresh, Quit, batches, nested batches each take effect exactly once (incl.: the frame after a refresh frame writes what an ordinary frame wrote before). All through the real App.Run on a fake console, stepped with virtual frame ticks. distinct = cases that passed",
		Exhaustive: true,
		Bounds:     map[string]any{"hover_sequence_len": r.Pick(3, 4)},
		Assumptions: []string{"whether the focused/target widget's own CaptureEvent runs is not fixed by the property and is accepted either way",
			"with overlapping siblings only the target (topmost deepest widget under the pointer) is checked"},
	})
}
