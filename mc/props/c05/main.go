// C05 – the embedded terminal never crashes or hangs on child output.
// Explicit-state BFS on the real term.Model (verif hooks: no PTY, no child):
// a transition feeds one control function / print / resize / draw; successors by
// replaying the operation path on a fresh Model (a step costs microseconds).
package main

import (
	"fmt"
	"os"
	"sort"
	"strconv"
	"strings"
	"time"

	"git.sr.ht/~rockorager/vaxis"
	"git.sr.ht/~rockorager/vaxis/ansi"
	"git.sr.ht/~rockorager/vaxis/widgets/term"
	"verif.local/mc/explore"
	"verif.local/mc/refterm"
	"verif.local/mc/session"
)

var r *explore.Run

type op struct {
	Name    string
	Family  string // stable name for signatures
	Seq     ansi.Sequence
	Resize  [2]int  // w,h if >0
	Draw    *[4]int // host window col,row,w,h
	NoDrain bool    // feed without draining raised events
	Drain   bool    // consume one raised event
}

// huge is the largest parameter the parser delivers (it saturates there); a
// negative parameter can only come from an overflow in the parser and is kept as
// a separate, small class
const (
	huge = 1<<31 - 1
	neg  = -(1 << 62)
)

var withNeg = false

func csi(final rune, inter string, params ...[]int) ansi.CSI {
	c := ansi.CSI{Final: final}
	if inter != "" {
		c.Intermediate = []rune(inter)
	}
	if len(params) > 0 {
		c.Parameters = params
	}
	return c
}

func pname(v int) string {
	switch v {
	case huge:
		return "2^31-1"
	case neg:
		return "-2^62"
	}
	return fmt.Sprint(v)
}

func buildOps(maxW, maxH int) []op {
	var ops []op
	add := func(name, fam string, seq ansi.Sequence) {
		ops = append(ops, op{Name: name, Family: fam, Seq: seq})
	}
	add("print a", "print", ansi.Print{Grapheme: "a", Width: 1})
	add("print 世", "print-wide", ansi.Print{Grapheme: "世", Width: 2})
	add("print U+0301", "print-zero", ansi.Print{Grapheme: "́", Width: 0})
	for _, c := range []rune{0x07, 0x08, 0x09, 0x0A, 0x0B, 0x0D, 0x0E, 0x0F} {
		add(fmt.Sprintf("C0 %02X", c), fmt.Sprintf("C0-%02X", c), ansi.C0(c))
	}
	for _, e := range []string{"7", "8", "D", "E", "H", "M", "N", "O", "=", ">", "c", "(0", "(B", "#8"} {
		rs := []rune(e)
		esc := ansi.ESC{Final: rs[len(rs)-1]}
		if len(rs) > 1 {
			esc.Intermediate = rs[:len(rs)-1]
		}
		add("ESC "+e, "ESC-"+e, esc)
	}
	// one-parameter CSI functions
	vert := "ABEFLMSTde"
	for _, f := range "@ABCDEFGILMPSTXZ`abde" {
		dim := maxW
		if strings.ContainsRune(vert, f) {
			dim = maxH
		}
		seen := map[int]bool{}
		add(fmt.Sprintf("CSI %c", f), fmt.Sprintf("CSI-%c", f), csi(f, ""))
		for _, v := range []int{0, 1, 2, dim - 1, dim, dim + 1, huge, neg} {
			if seen[v] || v < 0 && v != neg || v == neg && !withNeg {
				continue
			}
			seen[v] = true
			add(fmt.Sprintf("CSI %s %c", pname(v), f), fmt.Sprintf("CSI-%c", f), csi(f, "", []int{v}))
		}
	}
	for _, f := range "JKg" {
		add(fmt.Sprintf("CSI %c", f), fmt.Sprintf("CSI-%c", f), csi(f, ""))
		for _, v := range []int{0, 1, 2, 3} {
			add(fmt.Sprintf("CSI %d %c", v, f), fmt.Sprintf("CSI-%c", f), csi(f, "", []int{v}))
		}
	}
	pairs := [][]int{{}, {0, 0}, {1, 1}, {0, 1}, {1, 0}, {maxH, maxW}, {maxH + 1, maxW + 1}, {0, 2}, {2}, {huge, huge}, {neg, neg}, {neg, 1}, {1, neg}, {2, 2}}
	for _, f := range "Hf" {
		for _, p := range pairs {
			var ps [][]int
			var names []string
			for _, v := range p {
				ps = append(ps, []int{v})
				names = append(names, pname(v))
			}
			add(fmt.Sprintf("CSI %s %c", strings.Join(names, ";"), f), fmt.Sprintf("CSI-%c", f), csi(f, "", ps...))
		}
	}
	for _, p := range [][]int{{}, {0, 0}, {1, 1}, {1, 2}, {2, 1}, {2, 3}, {0, 2}, {1, maxH}, {1, maxH + 1}, {1, 100}, {2}, {maxH}, {huge, huge}, {neg, 1}, {neg, neg}, {1, neg}} {
		var ps [][]int
		var names []string
		for _, v := range p {
			ps = append(ps, []int{v})
			names = append(names, pname(v))
		}
		add(fmt.Sprintf("CSI %s r", strings.Join(names, ";")), "CSI-r", csi('r', "", ps...))
	}
	for _, m := range []int{4, 20, 2, 12} {
		add(fmt.Sprintf("CSI %d h", m), "CSI-h", csi('h', "", []int{m}))
		add(fmt.Sprintf("CSI %d l", m), "CSI-l", csi('l', "", []int{m}))
	}
	for _, m := range []int{1, 6, 7, 25, 1000, 1002, 1003, 1006, 1007, 1049, 2004} {
		add(fmt.Sprintf("CSI ? %d h", m), "CSI-?h", csi('h', "?", []int{m}))
		add(fmt.Sprintf("CSI ? %d l", m), "CSI-?l", csi('l', "?", []int{m}))
	}
	sgrs := [][][]int{nil, {{0}}, {{1}}, {{7}}, {{38}, {5}}, {{38}, {2}, {1}}, {{38, 5}}, {{38, 2, 1, 2}}, {{48}, {5}, {1}}, {{58}, {2}, {1}, {2}, {3}}, {{4, 3}}, {{4, 9}}, {{48}}, {{41}}, {{38}, {9}, {1}}}
	for _, ps := range sgrs {
		add(fmt.Sprintf("CSI %v m", ps), "CSI-m", csi('m', "", ps...))
	}
	add("CSI 5 n", "CSI-n", csi('n', "", []int{5}))
	add("CSI 6 n", "CSI-n", csi('n', "", []int{6}))
	add("CSI c", "CSI-c", csi('c', ""))
	add("CSI > c", "CSI->c", csi('c', ">"))
	for _, m := range []int{1, 2027, 9999} {
		add(fmt.Sprintf("CSI ? %d $ p", m), "CSI-?$p", csi('p', "?$", []int{m}))
	}
	add("CSI s", "CSI-s", csi('s', ""))
	add("CSI u", "CSI-u", csi('u', ""))
	for _, v := range []int{0, 6, 7, neg} {
		add(fmt.Sprintf("CSI %s SP q", pname(v)), "CSI-SPq", csi('q', " ", []int{v}))
	}
	add("CSI 1;2;3;4;5 T", "CSI-T5", csi('T', "", []int{1}, []int{2}, []int{3}, []int{4}, []int{5}))
	for _, o := range []string{"0;t", "2;t", "8;;http://x", "8;id=1;http://x", "8;;", "8", "9;n", "11;?", "11;x", "52;c;aGk=", "52;c;!!!", "52", "777;notify;a;b", "777;notify", "777", "", "1", "1;"} {
		add("OSC "+o, "OSC-"+strings.SplitN(o, ";", 2)[0], ansi.OSC{Payload: []rune(o)})
	}
	add("APC Gx", "APC", ansi.APC{Data: "Gx"})
	add("APC (empty)", "APC", ansi.APC{})
	add("DCS q (empty)", "DCS-q", ansi.DCS{Final: 'q'})
	add("DCS q sixel", "DCS-q", ansi.DCS{Final: 'q', Data: []rune("#0;2;0;0;0#0~~$-")})
	add("DCS 1 q", "DCS-q", ansi.DCS{Final: 'q', Parameters: []int{1}})
	add("DCS $ q", "DCS-other", ansi.DCS{Final: 'q', Intermediate: []rune("$"), Data: []rune(" q")})
	add("DCS p", "DCS-other", ansi.DCS{Final: 'p'})
	for _, sz := range [][2]int{{1, 1}, {1, 2}, {2, 1}, {2, 2}, {3, 3}, {3, 1}, {1, 3}, {2, 3}, {3, 2}} {
		if sz[0] <= maxW && sz[1] <= maxH {
			ops = append(ops, op{Name: fmt.Sprintf("Resize(%d,%d)", sz[0], sz[1]), Family: "Resize", Resize: sz})
		}
	}
	for _, d := range [][4]int{{0, 0, 1, 1}, {0, 0, 2, 2}, {0, 0, 3, 3}, {1, 1, 2, 1}, {2, 1, 3, 3}, {0, 0, 2, 3}} {
		if d[2] <= maxW && d[3] <= maxH {
			dd := d
			ops = append(ops, op{Name: fmt.Sprintf("Draw(host window %d,%d %dx%d)", d[0], d[1], d[2], d[3]), Family: "Draw", Draw: &dd})
		}
	}
	if !withNeg {
		// the parser saturates parameters: a negative value cannot reach the emulator
		var keep []op
		for _, o := range ops {
			drop := false
			if c, ok := o.Seq.(ansi.CSI); ok {
				for _, p := range c.Parameters {
					for _, v := range p {
						if v < 0 {
							drop = true
						}
					}
				}
			}
			if !drop {
				keep = append(keep, o)
			}
		}
		ops = keep
	}
	// Raised events: the PTY goroutine delivers what a sequence raised right after
	// update returns (VerifFeed does the same); how that loop interleaves with its
	// other select cases is explored on the real goroutine by the scheduler harness.
	return ops
}

// ---- state, invariants, keys ------------------------------------------------------------------

func preds(s term.VerifSnap) []string {
	var p []string
	add := func(c bool, name string) {
		if c {
			p = append(p, name)
		}
	}
	add(s.Col == s.Width, "col==width")
	add(s.Col > s.Width, "col>width")
	add(s.Col < 0, "col<0")
	add(s.Row < 0, "row<0")
	add(s.Row >= s.Height, "row>=height")
	add(s.Top < 0, "top<0")
	add(s.Bottom >= s.Height, "bottom>=height")
	add(s.Top > s.Bottom, "top>bottom")
	add(s.LastCol, "pending-wrap")
	return p
}

func invariant(s term.VerifSnap) string {
	switch {
	case s.Row < 0 || s.Row >= s.Height:
		return fmt.Sprintf("cursor-row|row %d outside 0..%d", s.Row, s.Height-1)
	case s.Col < 0 || s.Col > s.Width:
		return fmt.Sprintf("cursor-col|col %d outside 0..%d", s.Col, s.Width-1)
	case s.Col == s.Width && !s.LastCol:
		return fmt.Sprintf("cursor-col|col %d == width without a pending wrap", s.Col)
	case s.Top < 0 || s.Bottom >= s.Height || s.Top > s.Bottom:
		return fmt.Sprintf("margins|top %d bottom %d on %d rows", s.Top, s.Bottom, s.Height)
	case s.Top == s.Bottom && s.Height > 1:
		return fmt.Sprintf("margins|top == bottom == %d on %d rows", s.Top, s.Height)
	}
	for name, lens := range map[string][]int{"active": s.ActiveRowLens, "primary": s.PrimaryRowLens, "alt": s.AltRowLens} {
		if len(lens) != s.Height {
			return fmt.Sprintf("grid-rows|%s screen has %d rows, height %d", name, len(lens), s.Height)
		}
		for i, l := range lens {
			if l != s.Width {
				return fmt.Sprintf("row-width|%s row %d has %d cells, width %d", name, i, l, s.Width)
			}
		}
	}
	return ""
}

func cellClass(c term.VerifCell) byte {
	switch {
	case c.Grapheme == "" || c.Grapheme == " ":
		if c.Wrapped {
			return 'w'
		}
		return '.'
	case c.Width > 1:
		return 'W'
	}
	if c.Wrapped {
		return 'N'
	}
	return 'n'
}

func key(s term.VerifSnap, hostAttached bool) uint64 {
	var b strings.Builder
	fmt.Fprintf(&b, "%dx%d c%d,%d l%v m%d-%d alt%v h%v e%d|", s.Width, s.Height, s.Row, s.Col, s.LastCol, s.Top, s.Bottom, s.AltActive, hostAttached, s.EventsLen)
	for _, g := range [][][]term.VerifCell{s.Primary, s.Alt} {
		for _, row := range g {
			for _, c := range row {
				b.WriteByte(cellClass(c))
			}
			b.WriteByte('/')
		}
		b.WriteByte('|')
	}
	m := s.Modes
	fmt.Fprintf(&b, "%v%v%v%v%v%v|", m.Irm, m.Lnm, m.Decom, m.Decawm, m.Smcup, m.Dectcem)
	ts := []int{}
	for _, t := range s.TabStops {
		if t <= s.Width+1 {
			ts = append(ts, t)
		}
	}
	sort.Ints(ts)
	fmt.Fprintf(&b, "t%v n%d|", ts, len(s.TabStops))
	fmt.Fprintf(&b, "sp%d,%d sa%d,%d|cs%d%d%v%v", s.SavedPrimary.Row, s.SavedPrimary.Col, s.SavedAlt.Row, s.SavedAlt.Col, s.CharsetSel, s.CharsetSaved, s.SingleShift, s.Designations)
	pen := s.Pen != (vaxis.Style{})
	fmt.Fprintf(&b, "|pen%v", pen)
	return explore.Hash(b.String())
}

// ---- host for Draw ---------------------------------------------------------------------------------

var host *session.Session

// operations already reported as unbounded work in this process: not run again
var slowSkip = map[string]bool{}

var marker = vaxis.Cell{Character: vaxis.Character{Grapheme: "·", Width: 1}}

func hostInit() {
	var err error
	host, err = session.Open(refterm.DefaultProfile(0, refterm.VersionOther), 5, 4, vaxis.Options{})
	if err != nil {
		r.Fault("host: %v", err)
	}
}

type detail struct {
	Size string   `json:"initial_size"`
	Ops  []string `json:"operations"`
	Pre  string   `json:"state_before_last"`
	Why  string   `json:"why"`
}

type cfg struct {
	name string
	w, h int
	ops  []op
	// pre is child output processed before the explored path: the search starts from a
	// non-initial state (alternate screen with a saved cursor in the far corner, a scroll region, ...)
	pre string
}

// parse turns child output into sequences (retained: never handed back to the parser).
func parse(b string) []ansi.Sequence {
	var out []ansi.Sequence
	p := ansi.NewParser(strings.NewReader(b))
	for seq := range p.Next() {
		if _, ok := seq.(ansi.EOF); ok {
			break
		}
		out = append(out, seq)
	}
	return out
}

func describe(s term.VerifSnap) string {
	return fmt.Sprintf("%dx%d cursor row=%d col=%d lastCol=%v margins=%d..%d alt=%v events=%d", s.Width, s.Height, s.Row, s.Col, s.LastCol, s.Top, s.Bottom, s.AltActive, s.EventsLen)
}

// apply one op; returns panic info, stall, containment violation
func applyOp(m *term.Model, o op, attached *bool) (why string, clause string) {
	switch {
	case o.Resize[0] > 0:
		m.Resize(o.Resize[0], o.Resize[1])
	case o.Draw != nil:
		d := *o.Draw
		root := host.Vx.Window()
		root.Fill(marker)
		win := root.New(d[0], d[1], d[2], d[3])
		m.Draw(win)
		*attached = true
		host.Vx.HideCursor()
		host.Vx.Render()
		bad := ""
		host.Con.With(func(t *refterm.Terminal) {
			g := t.Grid()
			for y := range g {
				for x := range g[y] {
					inside := x >= d[0] && x < d[0]+win.Width && y >= d[1] && y < d[1]+win.Height
					if !inside && (g[y][x].Text != "·" || g[y][x].Poison) {
						bad = fmt.Sprintf("host cell (%d,%d) outside the window changed to %q", x, y, g[y][x].Text)
					}
				}
			}
			if len(t.UB) > 0 {
				t.UB = nil
			}
		})
		if bad != "" {
			host.Vx.Refresh()
			return bad, "draw-escaped"
		}
	case o.Drain:
		if _, ok := m.VerifDrainOne(); !ok {
			return "", "invalid"
		}
	case o.NoDrain:
		n, c := m.VerifEvents()
		if n == c {
			// update -> postEvent would block on the full queue; the PTY goroutine, which is
			// the queue's only consumer, is the one blocked: the emulator stalls for good
			return fmt.Sprintf("%d raised events are still queued (capacity %d); processing %s blocks the PTY goroutine forever", n, c, o.Name), "stall"
		}
		m.VerifFeedNoDrain(o.Seq)
	default:
		n, _ := m.VerifEvents()
		if n > 0 {
			return "", "invalid" // plain operations are explored from states with no pending events
		}
		m.VerifFeed(o.Seq)
	}
	return "", ""
}

func runPath(c *cfg, path []uint16) (uint64, explore.Status) {
	m := term.VerifNew(nil, c.w, c.h)
	for _, seq := range parse(c.pre) {
		m.VerifFeed(seq)
	}
	attached := false
	var names []string
	if c.pre != "" {
		names = append(names, fmt.Sprintf("(start state: child wrote %q)", c.pre))
	}
	for i, oi := range path {
		o := c.ops[oi]
		last := i == len(path)-1
		var pre term.VerifSnap
		if last {
			pre = m.VerifSnapshot()
		}
		var why, clause string
		var panicked bool
		var site, msg string
		if slowSkip[o.Name] && last {
			// (as a prefix step the operation ran in normal time when the path was explored: how long it takes
			// may depend on the state it meets)
			return 0, explore.StInvalid
		}
		done := make(chan struct{})
		go func() {
			defer close(done)
			panicked, site, msg = explore.Guard(func() { why, clause = applyOp(m, o, &attached) })
		}()
		select {
		case <-done:
		case <-time.After(10 * time.Second):
			// six orders of magnitude above the normal cost of a step: the work done for one
			// sequence grows with the value of its parameter, not with the screen
			slowSkip[o.Name] = true
			pre := term.VerifSnap{}
			names = append(names, o.Name)
			r.Violation(fmt.Sprintf("C05|unbounded-work|op=%s", o.Family), len(path)*1000+int(oi),
				detail{Size: fmt.Sprintf("%dx%d", c.w, c.h), Ops: names, Pre: describe(pre), Why: "processing " + o.Name + " was still running after 10 s (a step normally takes microseconds): the loop count follows the parameter value"})
			<-done // let it finish so that it does not compete with the following cases
			return 0, explore.StStop
		}
		names = append(names, o.Name)
		if !last {
			if panicked || clause != "" {
				r.Fault("prefix of path %v failed on replay (%s %s %s)", path, site, msg, clause)
			}
			continue
		}
		if clause == "invalid" {
			return 0, explore.StInvalid
		}
		cost := len(path)*1000 + int(oi)
		if panicked {
			sig := fmt.Sprintf("C05|panic|%s|%s|op=%s|pre=%s", site, explore.PanicClass(msg), o.Family, strings.Join(preds(pre), ","))
			r.Violation(sig, cost, detail{Size: fmt.Sprintf("%dx%d", c.w, c.h), Ops: names, Pre: describe(pre), Why: "panic: " + msg + " in " + site})
			return 0, explore.StStop
		}
		if clause != "" {
			sig := fmt.Sprintf("C05|%s|op=%s", clause, o.Family)
			r.Violation(sig, cost, detail{Size: fmt.Sprintf("%dx%d", c.w, c.h), Ops: names, Pre: describe(pre), Why: why})
			return 0, explore.StStop
		}
		post := m.VerifSnapshot()
		if inv := invariant(post); inv != "" {
			cl, _, _ := strings.Cut(inv, "|")
			sig := fmt.Sprintf("C05|invariant|%s|op=%s|pre=%s", cl, o.Family, strings.Join(preds(pre), ","))
			r.Violation(sig, cost, detail{Size: fmt.Sprintf("%dx%d", c.w, c.h), Ops: names, Pre: describe(pre), Why: "after the operation: " + inv + " (" + describe(post) + ")"})
			return 0, explore.StStop
		}
	}
	// the snapshot key plus a hash of everything else in the Model (unexported state included): two emulators
	// that look alike but differ in something no accessor shows (a nil map, a stale slot) have different futures
	// (the grids, pens and tab stops are in the snapshot key in abstracted form and are left out here)
	deep := explore.DeepHash(m, "mu", "vx", "cmd", "parser", "pty", "eventHandler", "events", "timer", "dirty", "focused",
		"activeScreen", "altScreen", "primaryScreen", "Style", "tabStop")
	return explore.Hash(fmt.Sprint(key(m.VerifSnapshot(), attached)), fmt.Sprint(deep)), explore.StOK
}

func main() {
	r = explore.Start("C05")
	cfgs := []*cfg{
		{name: "2x2", w: 2, h: 2, ops: buildOps(3, 3)},
		{name: "3x3", w: 3, h: 3, ops: buildOps(3, 3)},
		{name: "1x1", w: 1, h: 1, ops: buildOps(2, 2)},
		// non-initial start states
		{name: "3x3-alt-saved-corner", w: 3, h: 3, ops: buildOps(3, 3), pre: "\x1b[?1049h\x1b[3;3H\x1b7"},
		{name: "3x3-saved-corner-region", w: 3, h: 3, ops: buildOps(3, 3), pre: "ab\x1b[2;3r\x1b[3;3H\x1b7\x1b[?6h"},
		{name: "2x2-full-wide-pending", w: 2, h: 2, ops: buildOps(3, 3), pre: "\u4e16\r\nab"},
	}
	byName := map[string]*cfg{}
	for _, c := range cfgs {
		byName[c.name] = c
	}
	mk := func(c *cfg) *explore.BFS {
		d := r.Pick(3, 4)
		// a level that is still running after the budget is cut short (reported, exhaustive=false) instead of running
		// into the worker time limit: depth 4 takes 10-15 minutes per start state on 16 idle cores, several times that
		// on a loaded machine
		budget := 20 * time.Minute
		if v, err := strconv.Atoi(os.Getenv("VERIF_BFS_BUDGET_S")); err == nil && v > 0 {
			budget = time.Duration(v) * time.Second
		}
		return &explore.BFS{R: r, Name: c.name, NumOps: len(c.ops), MaxDepth: d, Budget: budget,
			RunPath: func(p []uint16) (uint64, explore.Status) { return runPath(c, p) }}
	}
	if r.Replay != "" {
		r.ReplayBySearch()
	}
	if _, _, arg, ok := r.Worker(); ok {
		r.Watchdog(60 * time.Second)
		hostInit()
		name := strings.SplitN(arg, ":", 3)[1]
		mk(byName[name]).WorkerMain(arg)
	}
	hostInit()
	var states, trans int64
	bounds := map[string]any{}
	exhaustive := true
	for _, c := range cfgs {
		b := mk(c)
		b.Search()
		states += b.States
		trans += b.Transitions
		bounds[c.name] = map[string]any{"operations": len(c.ops), "depth_completed": b.DepthDone, "states": b.States, "transitions": b.Transitions, "frontier_at_cutoff": b.Frontier, "frontier_empty": b.Exhausted}
		if b.DepthDone < b.MaxDepth && !b.Exhausted {
			exhaustive = false
		}
	}
	r.Finish(explore.Coverage{
		States: states, Transitions: trans, Traces: trans, Evaluations: trans,
		Rule:       "explicit-state BFS on the real term.Model from 2x2, 3x3 and 1x1 and from three non-initial start states (3x3 alternate screen with the cursor saved in the far corner; 3x3 scroll region + origin mode + saved corner cursor; 2x2 filled with a wide glyph and a pending wrap): alphabet of ~330 operations (print narrow/wide/zero-width, C0, ESC functions, every CSI function of csi.go with parameters omitted/0/1/2/size-1/size/size+1/2^31-1 (the parser's saturation value), modes, SGR incl. truncated extended colours, OSC, APC, DCS, Resize over {1,2,3}^2, Draw into host windows, event-raising sequences with and without the consumer draining); successor = replay of the operation path on a fresh Model; state key = abstraction (cell class blank/narrow/wide + wrapped flag, cursor, pending wrap, margins, modes, tab stops <= width+1, saved cursors, pen default-or-not, queued events, host attached); a state that violates an invariant or panics is reported and not expanded",
		Exhaustive: exhaustive,
		Bounds:     bounds,
		Assumptions: []string{"sequences are fed as parsed ansi.Sequence values (the byte-level parser is C02's subject, including that parameters saturate at 2^31-1 and are never negative)",
			"a stall is predicted when an event-raising sequence is processed while the 2-slot event queue is full: the PTY goroutine is the queue's only consumer"},
	})
}
