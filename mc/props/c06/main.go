// C06 – the embedded terminal shows what a VT/xterm would show (core vocabulary).
// Explicit-state BFS over pairs (real term.Model, reference terminal), both fed
// the same operation: grid and cursor must agree after every step.
package main

import (
	"encoding/binary"
	"fmt"
	"hash/fnv"
	"strings"
	"time"

	"git.sr.ht/~rockorager/vaxis"
	"git.sr.ht/~rockorager/vaxis/ansi"
	"git.sr.ht/~rockorager/vaxis/widgets/term"
	"verif.local/mc/explore"
	"verif.local/mc/refterm"
)

var r *explore.Run

type op struct {
	Name     string
	Family   string
	Seq      ansi.Sequence
	Bytes    string
	Absolute bool // allowed in the deferred-wrap state (print, CR, absolute positioning)
}

func num(v int) string {
	if v < 0 {
		return ""
	}
	return fmt.Sprint(v)
}

func buildOps(w, h int) []op {
	var ops []op
	add := func(name, fam string, seq ansi.Sequence, bytes string, abs bool) {
		ops = append(ops, op{Name: name, Family: fam, Seq: seq, Bytes: bytes, Absolute: abs})
	}
	add("print a", "print", ansi.Print{Grapheme: "a", Width: 1}, "a", true)
	add("print b", "print", ansi.Print{Grapheme: "b", Width: 1}, "b", true)
	add("print 世", "print-wide", ansi.Print{Grapheme: "世", Width: 2}, "世", true)
	add("CR", "CR", ansi.C0(0x0D), "\r", true)
	add("LF", "LF", ansi.C0(0x0A), "\n", false)
	one := func(final rune, fam string, dim int, abs bool) {
		seen := map[int]bool{}
		for _, v := range []int{-1, 0, 1, 2, dim - 1, dim, dim + 1} {
			if seen[v] {
				continue
			}
			seen[v] = true
			c := ansi.CSI{Final: final}
			if v >= 0 {
				c.Parameters = [][]int{{v}}
			}
			add(fmt.Sprintf("CSI %s %c", num(v), final), fam, c, fmt.Sprintf("\x1b[%s%c", num(v), final), abs)
		}
	}
	one('A', "CUU", h, false)
	one('B', "CUD", h, false)
	one('C', "CUF", w, false)
	one('D', "CUB", w, false)
	one('E', "CNL", h, false)
	one('F', "CPL", h, false)
	one('G', "CHA", w, true)
	one('`', "HPA", w, true)
	one('d', "VPA", h, true)
	one('X', "ECH", w, false)
	one('@', "ICH", w, false)
	one('P', "DCH", w, false)
	one('L', "IL", h, false)
	one('M', "DL", h, false)
	one('S', "SU", h, false)
	one('T', "SD", h, false)
	for _, f := range "JK" {
		fam := map[rune]string{'J': "ED", 'K': "EL"}[f]
		for _, v := range []int{-1, 0, 1, 2} {
			c := ansi.CSI{Final: f}
			if v >= 0 {
				c.Parameters = [][]int{{v}}
			}
			add(fmt.Sprintf("CSI %s %c", num(v), f), fam, c, fmt.Sprintf("\x1b[%s%c", num(v), f), false)
		}
	}
	two := func(final rune, fam string, pairs [][]int, abs bool) {
		for _, p := range pairs {
			c := ansi.CSI{Final: final}
			var parts []string
			for _, v := range p {
				if v < 0 {
					c.Parameters = append(c.Parameters, []int{0})
				} else {
					c.Parameters = append(c.Parameters, []int{v})
				}
				parts = append(parts, num(v))
			}
			add(fmt.Sprintf("CSI %s %c", strings.Join(parts, ";"), final), fam, c, fmt.Sprintf("\x1b[%s%c", strings.Join(parts, ";"), final), abs)
		}
	}
	pos := [][]int{{}, {0, 0}, {1, 1}, {2, 2}, {h, w}, {h + 1, w + 1}, {2}, {-1, 2}, {1, w}, {h, 1}}
	two('H', "CUP", pos, true)
	two('f', "HVP", pos, true)
	regions := [][]int{{}, {0, 0}, {1, 2}, {2, 3}, {2, 1}, {1, h}, {2, h}, {1, h + 1}, {2}, {-1, 2}, {h, h}}
	if h >= 5 {
		regions = append(regions, []int{2, h - 1}, []int{3, h - 1})
	}
	two('r', "DECSTBM", regions, false)
	add("IND", "IND", ansi.ESC{Final: 'D'}, "\x1bD", false)
	add("RI", "RI", ansi.ESC{Final: 'M'}, "\x1bM", false)
	add("NEL", "NEL", ansi.ESC{Final: 'E'}, "\x1bE", false)
	add("DECSC", "DECSC", ansi.ESC{Final: '7'}, "\x1b7", false)
	add("DECRC", "DECRC", ansi.ESC{Final: '8'}, "\x1b8", false)
	add("CSI ? 1049 h", "altscreen", ansi.CSI{Final: 'h', Intermediate: []rune("?"), Parameters: [][]int{{1049}}}, "\x1b[?1049h", false)
	add("CSI ? 1049 l", "altscreen", ansi.CSI{Final: 'l', Intermediate: []rune("?"), Parameters: [][]int{{1049}}}, "\x1b[?1049l", false)
	add("SGR 0", "SGR", ansi.CSI{Final: 'm'}, "\x1b[m", true)
	add("SGR 41", "SGR", ansi.CSI{Final: 'm', Parameters: [][]int{{41}}}, "\x1b[41m", true)
	add("SGR 42;7", "SGR", ansi.CSI{Final: 'm', Parameters: [][]int{{42}, {7}}}, "\x1b[42;7m", true)
	return ops
}

type cfg struct {
	name  string
	w, h  int
	ops   []op
	depth int // 0: the default depth
}

// ---- comparison ------------------------------------------------------------------------

func colorEq(v vaxis.Color, c refterm.Color) bool {
	ps := v.Params()
	switch len(ps) {
	case 0:
		return c.Kind == 0
	case 1:
		return c.Kind == 1 && c.V == uint32(ps[0])
	}
	return c.Kind == 2 && c.V == uint32(ps[0])<<16|uint32(ps[1])<<8|uint32(ps[2])
}

func blank(s string) bool { return s == "" || s == " " }

// cellDiff compares one emulator cell with the reference cell.
func cellDiff(e term.VerifCell, g refterm.Cell) string {
	if g.Poison {
		// what remains of a partly overwritten wide glyph is terminal-specific
		return ""
	}
	eb := blank(e.Grapheme)
	gb := blank(g.Text) || g.Width == 0 // the tail of a wide glyph is a blank cell in the emulator
	switch {
	case g.Width == 0:
		if !eb {
			return fmt.Sprintf("text|emulator shows %q under the tail of a wide glyph", e.Grapheme)
		}
	case eb != gb:
		return fmt.Sprintf("text|emulator %q, reference %q", e.Grapheme, g.Text)
	case !eb && e.Grapheme != g.Text:
		return fmt.Sprintf("text|emulator %q, reference %q", e.Grapheme, g.Text)
	case !eb && e.Width != g.Width:
		return fmt.Sprintf("width|emulator %d, reference %d", e.Width, g.Width)
	}
	if !colorEq(e.Background, g.Style.Bg) {
		return fmt.Sprintf("style|background: emulator %v, reference %s", e.Background.Params(), g.Style.Bg)
	}
	if uint8(e.Attribute) != g.Style.Attr<<1 {
		return fmt.Sprintf("style|attributes: emulator %07b, reference %07b", e.Attribute>>1, g.Style.Attr)
	}
	visibleFg := !eb || g.Style.Attr&refterm.AReverse != 0
	if visibleFg && !colorEq(e.Foreground, g.Style.Fg) {
		return fmt.Sprintf("style|foreground: emulator %v, reference %s", e.Foreground.Params(), g.Style.Fg)
	}
	return ""
}

type pair struct {
	m *term.Model
	t *refterm.Terminal
}

func compare(p pair) (clause, why string) {
	s := p.m.VerifSnapshot()
	grid := s.Primary
	if s.Modes.Smcup {
		grid = s.Alt
	}
	g := p.t.Grid()
	if p.t.OnAlt() != s.Modes.Smcup {
		return "altscreen", fmt.Sprintf("emulator on alternate screen: %v, reference: %v", s.Modes.Smcup, p.t.OnAlt())
	}
	for y := range g {
		for x := range g[y] {
			if d := cellDiff(grid[y][x], g[y][x]); d != "" {
				cl, rest, _ := strings.Cut(d, "|")
				return "cell-" + cl, fmt.Sprintf("row %d col %d: %s", y, x, rest)
			}
		}
	}
	row, col, pending := p.t.Cursor()
	if s.Row != row {
		return "cursor-row", fmt.Sprintf("emulator row %d, reference row %d", s.Row, row)
	}
	if s.Col != col {
		return "cursor-col", fmt.Sprintf("emulator col %d, reference col %d", s.Col, col)
	}
	if s.LastCol != pending {
		return "pending-wrap", fmt.Sprintf("emulator pending wrap %v, reference %v", s.LastCol, pending)
	}
	return "", ""
}

func preds(p pair) []string {
	var out []string
	row, col, pending := p.t.Cursor()
	top, bot := p.t.Margins()
	if pending {
		out = append(out, "pending-wrap")
	}
	if top != 0 || bot != p.t.Rows-1 {
		out = append(out, "region-set")
		if row < top || row > bot {
			out = append(out, "outside-region")
		}
	}
	if p.t.Pen() != (refterm.Style{}) {
		out = append(out, "pen-set")
	}
	if col == p.t.Cols-1 {
		out = append(out, "last-col")
	}
	g := p.t.Grid()
	if g[row][col].Width == 0 {
		out = append(out, "on-wide-tail")
	} else if g[row][col].Width > 1 {
		out = append(out, "on-wide")
	}
	return out
}

type detail struct {
	Screen string   `json:"screen"`
	Ops    []string `json:"operations"`
	Why    string   `json:"why"`
	Emu    string   `json:"emulator"`
	Ref    string   `json:"reference"`
}

func render(p pair) (string, string) {
	s := p.m.VerifSnapshot()
	grid := s.Primary
	if s.Modes.Smcup {
		grid = s.Alt
	}
	var e, g strings.Builder
	for _, row := range grid {
		for _, c := range row {
			if blank(c.Grapheme) {
				e.WriteString("·")
			} else {
				e.WriteString(c.Grapheme)
			}
		}
		e.WriteString("/")
	}
	fmt.Fprintf(&e, " cursor %d,%d pending=%v", s.Row, s.Col, s.LastCol)
	for _, row := range p.t.Grid() {
		for _, c := range row {
			switch {
			case c.Width == 0:
				g.WriteString("·")
			case blank(c.Text):
				g.WriteString("·")
			default:
				g.WriteString(c.Text)
			}
		}
		g.WriteString("/")
	}
	row, col, pend := p.t.Cursor()
	fmt.Fprintf(&g, " cursor %d,%d pending=%v", row, col, pend)
	return e.String(), g.String()
}

func runPath(c *cfg, path []uint16) (uint64, explore.Status) {
	p := pair{m: term.VerifNew(nil, c.w, c.h), t: refterm.New(c.w, c.h, refterm.DefaultProfile(refterm.CapRGB|refterm.CapSmulx, refterm.VersionOther))}
	var names []string
	for i, oi := range path {
		o := c.ops[oi]
		last := i == len(path)-1
		_, _, pending := p.t.Cursor()
		if pending && !o.Absolute {
			if last {
				return 0, explore.StInvalid
			}
			r.Fault("prefix invalid on replay")
		}
		if o.Family == "altscreen" {
			// switching to the screen that is already active is handled differently by
			// xterm-compatible terminals (xterm clears / restores the cursor, others ignore it)
			if set := strings.HasSuffix(o.Bytes, "h"); set == p.t.OnAlt() {
				if last {
					return 0, explore.StInvalid
				}
				r.Fault("prefix invalid on replay")
			}
		}
		var pre []string
		if last {
			pre = preds(p)
		}
		names = append(names, o.Name)
		panicked, site, msg := explore.Guard(func() { p.m.VerifFeed(o.Seq) })
		if panicked {
			if !last {
				r.Fault("prefix panicked on replay")
			}
			r.Violation(fmt.Sprintf("C06|panic|%s|op=%s", site, o.Family), len(path)*1000+int(oi), detail{Screen: c.name, Ops: names, Why: "panic: " + msg})
			return 0, explore.StStop
		}
		p.t.Write([]byte(o.Bytes))
		if !last {
			continue
		}
		if clause, why := compare(p); clause != "" {
			e, g := render(p)
			sig := fmt.Sprintf("C06|%s|op=%s|pre=%s", clause, o.Family, strings.Join(pre, ","))
			r.Violation(sig, len(path)*1000+int(oi), detail{Screen: c.name, Ops: names, Why: why, Emu: e, Ref: g})
			return 0, explore.StStop
		}
	}
	// the emulator's own state is part of the key as well: two emulators that look like the same reference
	// terminal but differ in something the comparison does not show (saved cursors, flags) have different futures
	return explore.Hash(p.t.Dump(), fmt.Sprint(emuKey(p.m.VerifSnapshot()))), explore.StOK
}

// emuKey hashes the emulator's own state (everything but the raised events, the dirty / focus flags and
// the tab stops, which no operation of this vocabulary reads).
func emuKey(s term.VerifSnap) uint64 {
	h := fnv.New64a()
	var b [8]byte
	num := func(vs ...int) {
		for _, v := range vs {
			binary.LittleEndian.PutUint64(b[:], uint64(int64(v)))
			h.Write(b[:])
		}
	}
	flag := func(vs ...bool) {
		for _, v := range vs {
			if v {
				h.Write([]byte{1})
			} else {
				h.Write([]byte{0})
			}
		}
	}
	str := func(x string) { num(len(x)); h.Write([]byte(x)) }
	style := func(st vaxis.Style) {
		num(int(st.Foreground), int(st.Background), int(st.UnderlineColor), int(st.UnderlineStyle), int(st.Attribute))
		str(st.Hyperlink)
		str(st.HyperlinkParams)
	}
	num(s.Width, s.Height, s.ActiveRows, s.Row, s.Col, int(s.CursorStyle), s.Top, s.Bottom, s.Left, s.Right, s.CharsetSel, s.CharsetSaved, s.Graphics)
	flag(s.AltActive, s.LastCol, s.SingleShift)
	style(s.Pen)
	for _, g := range [][][]term.VerifCell{s.Primary, s.Alt} {
		num(len(g))
		for _, row := range g {
			num(len(row))
			for _, c := range row {
				str(c.Grapheme)
				num(c.Width)
				style(c.Style)
				flag(c.Wrapped)
			}
		}
	}
	for _, l := range [][]int{s.ActiveRowLens, s.PrimaryRowLens, s.AltRowLens, s.Designations[:]} {
		num(len(l))
		num(l...)
	}
	for _, sv := range []term.VerifSaved{s.SavedPrimary, s.SavedAlt} {
		num(sv.Row, sv.Col, sv.CharsetSel, sv.CharsetSaved)
		num(sv.Designations[:]...)
		flag(sv.Decawm, sv.Decom)
		style(sv.Pen)
	}
	m := s.Modes
	flag(m.Kam, m.Irm, m.Srm, m.Lnm, m.Decckm, m.Decanm, m.Deccolm, m.Decsclm, m.Decom, m.Decawm, m.Decarm, m.Dectcem, m.Deckpam, m.Deckpnm, m.Smcup, m.Paste,
		m.MouseButtons, m.MouseDrag, m.MouseMotion, m.MouseSGR, m.Alt)
	return h.Sum64()
}

func main() {
	r = explore.Start("C06")
	var cfgs []*cfg
	sizes := [][2]int{{2, 2}, {3, 2}, {2, 3}, {3, 3}}
	if r.Thorough() {
		sizes = append(sizes, [2]int{4, 3})
	}
	for _, s := range sizes {
		cfgs = append(cfgs, &cfg{name: fmt.Sprintf("%dx%d", s[0], s[1]), w: s[0], h: s[1], ops: buildOps(s[0], s[1])})
	}
	// taller screens, where a scroll region can lie strictly inside the screen with the cursor above or
	// below it: the vertical vocabulary only (one column of text is enough to tell the rows apart)
	vertical := map[string]bool{"print": true, "CR": true, "LF": true, "CUU": true, "CUD": true, "CNL": true, "CPL": true, "VPA": true, "CUP": true, "IL": true, "DL": true,
		"SU": true, "SD": true, "DECSTBM": true, "IND": true, "RI": true, "NEL": true, "DECSC": true, "DECRC": true, "ED": true}
	for _, s := range [][2]int{{2, 4}, {2, 5}} {
		var ops []op
		for _, o := range buildOps(s[0], s[1]) {
			if vertical[o.Family] && o.Name != "print b" {
				ops = append(ops, o)
			}
		}
		cfgs = append(cfgs, &cfg{name: fmt.Sprintf("%dx%d-vertical", s[0], s[1]), w: s[0], h: s[1], ops: ops, depth: r.Pick(4, 5)})
	}
	byName := map[string]*cfg{}
	for _, c := range cfgs {
		byName[c.name] = c
	}
	mk := func(c *cfg) *explore.BFS {
		depth := r.Pick(5, 6)
		if c.depth > 0 {
			depth = c.depth
		}
		return &explore.BFS{R: r, Name: c.name, NumOps: len(c.ops), MaxDepth: depth,
			RunPath: func(p []uint16) (uint64, explore.Status) { return runPath(c, p) }}
	}
	if r.Replay != "" {
		r.ReplayBySearch()
	}
	if _, _, arg, ok := r.Worker(); ok {
		r.Watchdog(60 * time.Second)
		name := strings.SplitN(arg, ":", 3)[1]
		mk(byName[name]).WorkerMain(arg)
	}
	var states, trans int64
	bounds := map[string]any{}
	exhaustive := true
	for _, c := range cfgs {
		b := mk(c)
		b.Search()
		states += b.States
		trans += b.Transitions
		bounds[c.name] = map[string]any{"operations": len(c.ops), "depth_completed": b.DepthDone, "states": b.States, "transitions": b.Transitions, "frontier_at_cutoff": b.Frontier}
		if b.DepthDone < b.MaxDepth && !b.Exhausted {
			exhaustive = false
		}
	}
	r.Finish(explore.Coverage{
		States: states, Transitions: trans, Traces: trans, Evaluations: trans,
		Rule:       "explicit-state BFS over (real term.Model, reference terminal) pairs fed the same operation from the core vocabulary (print narrow/wide, CR, LF, CUU/CUD/CUF/CUB/CNL/CPL/CHA/HPA/VPA/CUP/HVP, ED, EL, ECH, ICH, DCH, IL, DL, SU, SD, DECSTBM, IND, RI, NEL, DECSC/DECRC, 1049, SGR) with parameters omitted/0/1/2/size-1/size/size+1; from the deferred-wrap state only print, CR and absolute positioning are offered; after every step grid (text, width, background, attributes, visible foreground) and cursor must be equal; state key = reference terminal dump (equal to the emulator's state when no divergence was reported)",
		Exhaustive: exhaustive,
		Bounds:     bounds,
		Assumptions: []string{"mc/refterm implements the DEC/xterm semantics of the core vocabulary (written from the xterm control sequence documentation)",
			"blank cells are compared modulo attributes that cannot be seen on a blank (foreground unless reversed, underline colour)"},
	})
}
