// C09 – key decoding and binding matching are exact and protocol-independent.
// Exhaustive enumeration of encodings through the real pipeline (bytes -> real
// ansi.Parser -> decodeKey, via a Vaxis on a fake console) against an
// independent decoder, and of (key event, binding) pairs for the matching rules.
package main

import (
	"fmt"
	"sort"
	"strings"
	"time"
	"unicode"

	"git.sr.ht/~rockorager/vaxis"
	vtime "git.sr.ht/~rockorager/vaxis/verifshim/vtime"
	"verif.local/mc/explore"
	"verif.local/mc/refterm"
	"verif.local/mc/session"
)

var r *explore.Run

type detail struct {
	Part  string `json:"part"`
	Input string `json:"input"`
	Got   string `json:"got,omitempty"`
	Want  string `json:"want,omitempty"`
	Why   string `json:"why"`
}

// ---- the independent decoder (xterm ctlseqs "PC-style function keys", kitty keyboard protocol) ----

type want struct {
	code, shifted, base rune
	mods                vaxis.ModifierMask
	ev                  vaxis.EventType
	text                string
	hasText             bool
	altCode             rune // acceptable alternative keycode (0 = none)
}

var csiLetter = map[byte]rune{'A': vaxis.KeyUp, 'B': vaxis.KeyDown, 'C': vaxis.KeyRight, 'D': vaxis.KeyLeft, 'E': vaxis.KeyKeyPadBegin,
	'F': vaxis.KeyEnd, 'H': vaxis.KeyHome, 'P': vaxis.KeyF01, 'Q': vaxis.KeyF02, 'R': vaxis.KeyF03, 'S': vaxis.KeyF04}

var csiTilde = map[int]rune{1: vaxis.KeyHome, 2: vaxis.KeyInsert, 3: vaxis.KeyDelete, 4: vaxis.KeyEnd, 5: vaxis.KeyPgUp, 6: vaxis.KeyPgDown, 7: vaxis.KeyHome, 8: vaxis.KeyEnd,
	11: vaxis.KeyF01, 12: vaxis.KeyF02, 13: vaxis.KeyF03, 14: vaxis.KeyF04, 15: vaxis.KeyF05, 17: vaxis.KeyF06, 18: vaxis.KeyF07, 19: vaxis.KeyF08, 20: vaxis.KeyF09, 21: vaxis.KeyF10,
	23: vaxis.KeyF11, 24: vaxis.KeyF12, 25: vaxis.KeyF13, 26: vaxis.KeyF14, 28: vaxis.KeyF15, 29: vaxis.KeyF16, 31: vaxis.KeyF17, 32: vaxis.KeyF18, 33: vaxis.KeyF19, 34: vaxis.KeyF20}

// kitty "functional key definitions": numbers in the Unicode private use area, in the order of the specification
func kittyFunctional() map[int]rune {
	m := map[int]rune{27: vaxis.KeyEsc, 13: vaxis.KeyEnter, 9: vaxis.KeyTab, 127: vaxis.KeyBackspace}
	seq := func(start int, keys ...rune) {
		for i, k := range keys {
			m[start+i] = k
		}
	}
	seq(57358, vaxis.KeyCapsLock, vaxis.KeyScrollLock, vaxis.KeyNumlock, vaxis.KeyPrintScreen, vaxis.KeyPause, vaxis.KeyMenu)
	// 57376.. F13-F35
	f := []rune{vaxis.KeyF13, vaxis.KeyF14, vaxis.KeyF15, vaxis.KeyF16, vaxis.KeyF17, vaxis.KeyF18, vaxis.KeyF19, vaxis.KeyF20, vaxis.KeyF21, vaxis.KeyF22, vaxis.KeyF23, vaxis.KeyF24,
		vaxis.KeyF25, vaxis.KeyF26, vaxis.KeyF27, vaxis.KeyF28, vaxis.KeyF29, vaxis.KeyF30, vaxis.KeyF31, vaxis.KeyF32, vaxis.KeyF33, vaxis.KeyF34, vaxis.KeyF35}
	seq(57376, f...)
	seq(57399, vaxis.KeyKeyPad0, vaxis.KeyKeyPad1, vaxis.KeyKeyPad2, vaxis.KeyKeyPad3, vaxis.KeyKeyPad4, vaxis.KeyKeyPad5, vaxis.KeyKeyPad6, vaxis.KeyKeyPad7, vaxis.KeyKeyPad8, vaxis.KeyKeyPad9,
		vaxis.KeyKeyPadDecimal, vaxis.KeyKeyPadDivide, vaxis.KeyKeyPadMultiply, vaxis.KeyKeyPadSubtract, vaxis.KeyKeyPadAdd, vaxis.KeyKeyPadEnter, vaxis.KeyKeyPadEqual, vaxis.KeyKeyPadSeparator,
		vaxis.KeyKeyPadLeft, vaxis.KeyKeyPadRight, vaxis.KeyKeyPadUp, vaxis.KeyKeyPadDown, vaxis.KeyKeyPadPageUp, vaxis.KeyKeyPadPageDown, vaxis.KeyKeyPadHome, vaxis.KeyKeyPadEnd,
		vaxis.KeyKeyPadInsert, vaxis.KeyKeyPadDelete, vaxis.KeyKeyPadBegin,
		vaxis.KeyMediaPlay, vaxis.KeyMediaPause, vaxis.KeyMediaPlayPause, vaxis.KeyMediaRev, vaxis.KeyMediaStop, vaxis.KeyMediaFF, vaxis.KeyMediaRewind, vaxis.KeyMediaNext, vaxis.KeyMediaPrev,
		vaxis.KeyMediaRecord, vaxis.KeyMediaVolDown, vaxis.KeyMediaVolUp, vaxis.KeyMediaMute,
		vaxis.KeyLeftShift, vaxis.KeyLeftControl, vaxis.KeyLeftAlt, vaxis.KeyLeftSuper, vaxis.KeyLeftHyper, vaxis.KeyLeftMeta,
		vaxis.KeyRightShift, vaxis.KeyRightControl, vaxis.KeyRightAlt, vaxis.KeyRightSuper, vaxis.KeyRightHyper, vaxis.KeyRightMeta,
		vaxis.KeyL3Shift, vaxis.KeyL5Shift)
	return m
}

var kittyFn = kittyFunctional()

func legacyByte(b rune) want {
	switch {
	case b == 0x00:
		return want{code: '@', mods: vaxis.ModCtrl}
	case b == 0x08:
		return want{code: vaxis.KeyBackspace}
	case b == 0x09:
		return want{code: vaxis.KeyTab}
	case b == 0x0D:
		return want{code: vaxis.KeyEnter}
	case b == 0x1B:
		return want{code: vaxis.KeyEsc}
	case b <= 0x1A:
		return want{code: b + 0x60, mods: vaxis.ModCtrl}
	case b < 0x20:
		return want{code: b + 0x40, mods: vaxis.ModCtrl}
	case b == 0x7F:
		return want{code: vaxis.KeyBackspace}
	}
	if unicode.IsUpper(b) {
		return want{code: unicode.ToLower(b), shifted: b, mods: vaxis.ModShift, text: string(b), hasText: true}
	}
	return want{code: b, text: string(b), hasText: true}
}

func (w want) String() string {
	return fmt.Sprintf("{code=%d shifted=%d base=%d mods=%08b event=%d text=%q}", w.code, w.shifted, w.base, w.mods, w.ev, w.text)
}

func keyStr(k vaxis.Key) string {
	return fmt.Sprintf("{code=%d shifted=%d base=%d mods=%08b event=%d text=%q}", k.Keycode, k.ShiftedCode, k.BaseLayoutCode, k.Modifiers, k.EventType, k.Text)
}

func agrees(k vaxis.Key, w want) bool {
	if k.Keycode != w.code && !(w.altCode != 0 && k.Keycode == w.altCode) {
		return false
	}
	if k.ShiftedCode != w.shifted || k.BaseLayoutCode != w.base || k.Modifiers != w.mods || k.EventType != w.ev {
		return false
	}
	if w.hasText && k.Text != w.text {
		return false
	}
	return true
}

// ---- the pipeline --------------------------------------------------------------------------------

type rig struct{ s *session.Session }

func newRig() *rig {
	s, err := session.Open(refterm.DefaultProfile(0, refterm.VersionOther), 10, 5, vaxis.Options{})
	if err != nil {
		r.Fault("session: %v", err)
	}
	return &rig{s: s}
}

func (g *rig) decode(b string) []vaxis.Key {
	g.s.Con.Inject([]byte(b))
	g.s.Con.WaitIdle()
	vtime.FireWhere(func(d vtime.Duration, isFunc bool) bool { return isFunc && d == 10*vtime.Millisecond })
	var keys []vaxis.Key
	for _, ev := range g.s.Barrier() {
		if k, ok := ev.(vaxis.Key); ok {
			keys = append(keys, k)
		}
	}
	return keys
}

func (g *rig) expect(part, enc string, bytes string, w want, cost int) (vaxis.Key, bool) {
	r.Count("decodes", 1)
	keys := g.decode(bytes)
	if len(keys) != 1 {
		r.Violation("C09|decode|"+part+"|count", cost, detail{Part: part, Input: fmt.Sprintf("%q", bytes), Why: fmt.Sprintf("%d key events delivered, want 1", len(keys))})
		return vaxis.Key{}, false
	}
	if !agrees(keys[0], w) {
		field := "keycode"
		k := keys[0]
		switch {
		case k.Keycode != w.code && k.Keycode != w.altCode:
		case k.Modifiers != w.mods:
			field = "modifiers"
		case k.ShiftedCode != w.shifted:
			field = "shifted"
		case k.BaseLayoutCode != w.base:
			field = "base-layout"
		case k.EventType != w.ev:
			field = "event-type"
		default:
			field = "text"
		}
		r.Violation("C09|decode|"+part+"|"+field, cost, detail{Part: part, Input: fmt.Sprintf("%q (%s)", bytes, enc), Got: keyStr(keys[0]), Want: w.String(), Why: "decoded differently from what the encoding specifies"})
		return keys[0], false
	}
	// String() is a function of the key alone: asked twice, and whatever was described before, it says the same
	if s1, s2 := keys[0].String(), keys[0].String(); s1 != s2 {
		r.Violation("C09|string|depends-on-history", cost, detail{Part: part, Input: fmt.Sprintf("%q (%s)", bytes, enc), Got: fmt.Sprintf("%q then %q", s1, s2), Why: "String() of one key gave two different descriptions in a row"})
		return keys[0], false
	}
	r.Distinct(explore.Hash("dec", bytes))
	return keys[0], true
}

var nonASCII = []rune{'é', 'ф', 'Ф', 'ß', 'ñ', 'λ', 'Λ', 'ø', 'ü', 'Ü', 'ç', 'א', 'ب', 'あ', '世', '한', '→', '€', '¿', 'ı', 'İ', 'ǆ', 'ά', '☃'}

func sortedKeys[K byte | int, V any](m map[K]V) []K {
	ks := make([]K, 0, len(m))
	for k := range m {
		ks = append(ks, k)
	}
	sort.Slice(ks, func(i, j int) bool { return ks[i] < ks[j] })
	return ks
}

func masks() []int {
	m := make([]int, 256)
	for i := range m {
		m[i] = i
	}
	return m
}

func decodeSweep(g *rig, idx, n int) {
	k := 0
	mine := func() bool { k++; return k%n == idx }
	// raw bytes
	for b := rune(0); b < 0x80; b++ {
		if !mine() {
			continue
		}
		g.expect("legacy-byte", "raw byte", string(b), legacyByte(b), int(b))
	}
	for _, c := range nonASCII {
		if !mine() {
			continue
		}
		g.expect("legacy-byte", "raw scalar", string(c), legacyByte(c), int(c))
	}
	// ESC-prefixed
	for b := rune(0x30); b < 0x80; b++ {
		if strings.ContainsRune("OPX[\\]^_", b) || !mine() {
			continue
		}
		w := want{code: b, mods: vaxis.ModAlt}
		if b == 0x7F {
			w.code = vaxis.KeyBackspace
		}
		if unicode.IsUpper(b) {
			// ESC A: Alt+Shift+a; either normalisation is accepted here (the chord is ambiguous in the legacy encoding)
			keys := g.decode("\x1b" + string(b))
			r.Count("decodes", 1)
			if len(keys) != 1 || keys[0].Modifiers&vaxis.ModAlt == 0 || unicode.ToLower(keys[0].Keycode) != unicode.ToLower(b) {
				r.Violation("C09|decode|esc-prefix|keycode", int(b), detail{Part: "esc-prefix", Input: fmt.Sprintf("ESC %c", b), Got: fmt.Sprint(keys), Why: "want an Alt chord of that letter"})
			}
			continue
		}
		g.expect("esc-prefix", "ESC + byte", "\x1b"+string(b), w, int(b))
	}
	// SS3
	ss3 := map[byte]rune{'A': vaxis.KeyUp, 'B': vaxis.KeyDown, 'C': vaxis.KeyRight, 'D': vaxis.KeyLeft, 'F': vaxis.KeyEnd, 'H': vaxis.KeyHome, 'P': vaxis.KeyF01, 'Q': vaxis.KeyF02, 'R': vaxis.KeyF03, 'S': vaxis.KeyF04}
	// every map is walked in key order: the shards are separate processes and must agree on the numbering of the cases
	for _, f := range sortedKeys(ss3) {
		code := ss3[f]
		if !mine() {
			continue
		}
		g.expect("ss3", "SS3", "\x1bO"+string(f), want{code: code}, int(f))
	}
	// CSI 1;m X and CSI X
	for _, f := range sortedKeys(csiLetter) {
		code := csiLetter[f]
		if mine() && f != 'R' {
			g.expect("csi-letter", "CSI final", "\x1b["+string(f), want{code: code}, int(f))
		}
		for _, m := range masks() {
			if !mine() {
				continue
			}
			g.expect("csi-letter", "CSI 1;mods final", fmt.Sprintf("\x1b[1;%d%c", m+1, f), want{code: code, mods: vaxis.ModifierMask(m)}, m*256+int(f))
			// with the kitty "report event types" flag these keys keep their legacy final and carry the
			// event type as a sub-parameter of the modifiers
			if evN := 1 + (m+int(f))%3; f != 'R' || m != 0 {
				g.expect("csi-letter", "CSI 1;mods:event final", fmt.Sprintf("\x1b[1;%d:%d%c", m+1, evN, f), want{code: code, mods: vaxis.ModifierMask(m), ev: vaxis.EventType(evN - 1)}, m*256+int(f))
			}
		}
	}
	if mine() {
		g.expect("csi-letter", "CSI Z", "\x1b[Z", want{code: vaxis.KeyTab, mods: vaxis.ModShift}, 0)
	}
	// CSI n;m ~
	for _, num := range sortedKeys(csiTilde) {
		code := csiTilde[num]
		if mine() {
			g.expect("csi-tilde", "CSI n ~", fmt.Sprintf("\x1b[%d~", num), want{code: code}, num)
		}
		for _, m := range masks() {
			if !mine() {
				continue
			}
			g.expect("csi-tilde", "CSI n;mods ~", fmt.Sprintf("\x1b[%d;%d~", num, m+1), want{code: code, mods: vaxis.ModifierMask(m)}, m*256+num)
			evN := 1 + (m+num)%3
			g.expect("csi-tilde", "CSI n;mods:event ~", fmt.Sprintf("\x1b[%d;%d:%d~", num, m+1, evN), want{code: code, mods: vaxis.ModifierMask(m), ev: vaxis.EventType(evN - 1)}, m*256+num)
		}
	}
	// CSI 27;m;k ~ (modifyOtherKeys)
	for _, key := range []rune{13, 9, 27, 32, 'a', '1', ';', 127} {
		for _, m := range masks() {
			if !mine() {
				continue
			}
			code := key
			if c, ok := kittyFn[int(key)]; ok {
				code = c
			}
			g.expect("csi-27", "CSI 27;mods;key ~", fmt.Sprintf("\x1b[27;%d;%d~", m+1, key), want{code: code, mods: vaxis.ModifierMask(m)}, m*256+int(key))
		}
	}
	// CSI u
	var codes []int
	for c := 0; c < 128; c++ {
		codes = append(codes, c)
	}
	for _, c := range nonASCII {
		codes = append(codes, int(c))
	}
	for _, c := range sortedKeys(kittyFn) {
		if c > 127 {
			codes = append(codes, c)
		}
	}
	for _, code := range codes {
		wcode := rune(code)
		if c, ok := kittyFn[code]; ok {
			wcode = c
		}
		if mine() {
			g.expect("csi-u", "CSI code u", fmt.Sprintf("\x1b[%du", code), want{code: wcode}, code)
		}
		for _, m := range masks() {
			if !mine() {
				continue
			}
			// rotate through the optional-field combinations so that every (code, mask) sees one,
			// and every combination is seen with every mask
			variant := (m + code) % 12
			evN := variant % 4 // 0 = omitted, 1 press, 2 repeat, 3 release
			alt := variant / 4 // 0 none, 1 shifted, 2 shifted+base
			var sb strings.Builder
			w := want{code: wcode, mods: vaxis.ModifierMask(m)}
			fmt.Fprintf(&sb, "\x1b[%d", code)
			switch alt {
			case 1:
				fmt.Fprintf(&sb, ":%d", code+1)
				w.shifted = rune(code + 1)
			case 2:
				fmt.Fprintf(&sb, ":%d:%d", code+1, code+2)
				w.shifted, w.base = rune(code+1), rune(code+2)
			}
			fmt.Fprintf(&sb, ";%d", m+1)
			if evN > 0 {
				fmt.Fprintf(&sb, ":%d", evN)
				w.ev = vaxis.EventType(evN - 1)
			}
			switch (m/12 + code) % 3 { // depends on the code too: every mask meets every text variant
			case 1:
				sb.WriteString(";120")
				w.text, w.hasText = "x", true
			case 2:
				sb.WriteString(";120:121")
				w.text, w.hasText = "xy", true
			}
			sb.WriteString("u")
			if !w.hasText {
				// no text field: the key has no text, except for the documented work-around - a
				// printable key with Shift as its only real modifier (lock bits ignored) gets the
				// upper-cased key as text (terminals that report Shift+Space as CSI 32;2 u)
				w.hasText = true
				if vaxis.ModifierMask(m)&^locks == vaxis.ModShift && unicode.IsPrint(wcode) {
					w.text = string(unicode.ToUpper(wcode))
				}
			}
			g.expect("csi-u", "CSI code[:shifted[:base]];mods[:event][;text] u", sb.String(), w, m*4096+code%4096)
		}
	}
	// base layout without shifted: CSI code::base ; mods u
	if mine() {
		g.expect("csi-u", "CSI code::base;mods u", "\x1b[1092::97;5u", want{code: 1092, base: 97, mods: vaxis.ModCtrl}, 1)
	}
}

// ---- matching --------------------------------------------------------------------------------------

const nonShift = vaxis.ModAlt | vaxis.ModCtrl | vaxis.ModSuper | vaxis.ModHyper | vaxis.ModMeta
const locks = vaxis.ModCapsLock | vaxis.ModNumLock

func modString(m vaxis.ModifierMask) string {
	var p []string
	for _, x := range []struct {
		b vaxis.ModifierMask
		n string
	}{{vaxis.ModMeta, "Meta"}, {vaxis.ModHyper, "Hyper"}, {vaxis.ModSuper, "Super"}, {vaxis.ModCtrl, "Ctrl"}, {vaxis.ModAlt, "Alt"}, {vaxis.ModShift, "Shift"}, {vaxis.ModCapsLock, "Caps"}, {vaxis.ModNumLock, "Num"}} {
		if m&x.b != 0 {
			p = append(p, x.n)
		}
	}
	return strings.Join(p, "+")
}

type bindKey struct {
	r    rune
	name string // name for MatchString ("" = the rune itself)
}

func bindKeys() []bindKey {
	var ks []bindKey
	for c := rune(0x20); c < 0x7F; c++ {
		ks = append(ks, bindKey{r: c})
	}
	for _, c := range nonASCII {
		ks = append(ks, bindKey{r: c})
	}
	named := []struct {
		r rune
		n string
	}{{vaxis.KeyUp, "Up"}, {vaxis.KeyDown, "Down"}, {vaxis.KeyLeft, "Left"}, {vaxis.KeyRight, "Right"}, {vaxis.KeyHome, "Home"}, {vaxis.KeyEnd, "End"},
		{vaxis.KeyInsert, "Insert"}, {vaxis.KeyDelete, "Delete"}, {vaxis.KeyPgUp, "Page_Up"}, {vaxis.KeyPgDown, "Page_Down"}, {vaxis.KeyF01, "F1"}, {vaxis.KeyF12, "F12"}, {vaxis.KeyF35, "F35"},
		{vaxis.KeyEnter, "Enter"}, {vaxis.KeyTab, "Tab"}, {vaxis.KeyEsc, "Escape"}, {vaxis.KeyBackspace, "BackSpace"}, {vaxis.KeySpace, "space"}, {vaxis.KeyKeyPad5, ""}, {vaxis.KeyMenu, "Menu"}}
	for _, n := range named {
		ks = append(ks, bindKey{r: n.r, name: n.n})
	}
	return ks
}

// sampleEvents: key events as the decoder produces them, covering each decoding family.
func sampleEvents() []vaxis.Key {
	var evs []vaxis.Key
	letters := []rune{'a', 'j', 'z', 'ф', 'é'}
	for _, c := range letters {
		up := unicode.ToUpper(c)
		for _, m := range masks() {
			mm := vaxis.ModifierMask(m)
			evs = append(evs, vaxis.Key{Keycode: c, Modifiers: mm})                                                     // kitty, no alternates
			evs = append(evs, vaxis.Key{Keycode: c, ShiftedCode: up, Modifiers: mm | vaxis.ModShift, Text: string(up)}) // shifted
			if m%16 == 0 {
				evs = append(evs, vaxis.Key{Keycode: c, BaseLayoutCode: 'a', Modifiers: mm})
				evs = append(evs, vaxis.Key{Keycode: c, Modifiers: mm, Text: string(c)})
			}
		}
	}
	for _, c := range []rune{';', '1', '/', '[', ' '} {
		for _, m := range masks() {
			evs = append(evs, vaxis.Key{Keycode: c, Modifiers: vaxis.ModifierMask(m)})
			if c == ';' {
				evs = append(evs, vaxis.Key{Keycode: ';', ShiftedCode: ':', Modifiers: vaxis.ModifierMask(m) | vaxis.ModShift, Text: ":"})
			}
		}
	}
	for _, c := range []rune{vaxis.KeyUp, vaxis.KeyF01, vaxis.KeyF35, vaxis.KeyTab, vaxis.KeyEnter, vaxis.KeyEsc, vaxis.KeyBackspace, vaxis.KeyDelete, vaxis.KeyKeyPad5} {
		for _, m := range masks() {
			evs = append(evs, vaxis.Key{Keycode: c, Modifiers: vaxis.ModifierMask(m)})
		}
	}
	// caps lock producing an upper-case text without shift (kitty)
	evs = append(evs, vaxis.Key{Keycode: 'p', Modifiers: vaxis.ModCapsLock, Text: "P"})
	evs = append(evs, vaxis.Key{Keycode: 'p', ShiftedCode: 'P', Modifiers: vaxis.ModCapsLock | vaxis.ModShift, Text: "p"})
	return evs
}

// refMatches transcribes the six rules documented on Key.Matches (lock bits removed on both sides).
func refMatches(k vaxis.Key, key rune, mods vaxis.ModifierMask) bool {
	mods &^= locks
	kMods := k.Modifiers &^ locks
	noShiftK, noShiftB := kMods&^vaxis.ModShift, mods&^vaxis.ModShift
	switch {
	case k.Keycode == key && mods == kMods: // 1
		return true
	case k.Text == string(key) && mods == kMods: // 2
		return true
	case k.ShiftedCode == key && mods == noShiftK: // 3
		return true
	case k.BaseLayoutCode == key && mods == kMods: // 4
		return true
	}
	if !unicode.IsLetter(key) && unicode.IsGraphic(key) { // 5 and its shifted twin
		if (k.Keycode == key || k.ShiftedCode == key) && noShiftK == noShiftB {
			return true
		}
	}
	if mods&vaxis.ModShift != 0 && unicode.IsLower(key) { // the Shift+lowercase form of a binding
		if k.Text == string(unicode.ToUpper(key)) && noShiftK == noShiftB {
			return true
		}
	}
	return false
}

func matchSweep(idx, n int) {
	binds := bindKeys()
	evs := sampleEvents()
	for ei, k := range evs {
		if ei%n != idx {
			continue
		}
		// completeness: the chord matches its own binding
		r.Count("match_pairs", 1)
		if !k.Matches(k.Keycode, k.Modifiers) {
			r.Violation("C09|match|own-binding|Matches", ei, detail{Part: "match", Input: keyStr(k), Why: "the event does not match (its own keycode, its own modifiers)"})
		}
		if s := k.String(); !k.MatchString(s) {
			lost := ""
			if k.Modifiers&vaxis.ModHyper != 0 {
				lost = "|hyper"
			}
			r.Violation("C09|match|own-binding|MatchString"+lost, ei, detail{Part: "match", Input: keyStr(k), Got: s, Why: fmt.Sprintf("the event does not match its own String() %q", s)})
		}
		for _, b := range binds {
			for _, m := range masks() {
				mm := vaxis.ModifierMask(m)
				r.Count("match_pairs", 1)
				got := k.Matches(b.r, mm)
				if want := refMatches(k, b.r, mm); got != want {
					r.Violation(fmt.Sprintf("C09|match|rules|got=%v", got), ei, detail{Part: "match", Input: keyStr(k), Got: fmt.Sprintf("Matches(%q, %s) = %v", b.r, modString(mm), got),
						Why: "the verdict differs from the six documented matching rules"})
				}
				if got && (k.Modifiers&nonShift) != (mm&nonShift) {
					r.Violation("C09|match|unsound-modifiers", ei, detail{Part: "match", Input: keyStr(k), Got: fmt.Sprintf("Matches(%q, %s) = true", b.r, modString(mm)),
						Why: "a binding matched although its Ctrl/Alt/Super/Hyper/Meta modifiers differ from the event's"})
				}
				// lock bits never matter (binding side: compare with the lock-free mask; event side below)
				if m&int(locks) != 0 {
					if got != k.Matches(b.r, mm&^locks) {
						r.Violation("C09|match|lock-sensitive|binding", ei, detail{Part: "match", Input: keyStr(k), Got: fmt.Sprintf("Matches(%q, %s)", b.r, modString(mm)), Why: "Caps/Num Lock in the binding changes the verdict"})
					}
					continue
				}
				k2 := k
				k2.Modifiers |= vaxis.ModNumLock
				if got != k2.Matches(b.r, mm) {
					r.Violation("C09|match|lock-sensitive|event", ei, detail{Part: "match", Input: keyStr(k), Got: fmt.Sprintf("Matches(%q, %s)", b.r, modString(mm)), Why: "Num Lock on the event changes the verdict"})
				}
				// MatchString parses every modifier name
				if ei%7 == 0 {
					name := b.name
					if name == "" {
						if b.r > unicode.MaxRune || b.r == '+' {
							continue
						}
						name = string(b.r)
					}
					str := name
					if ms := modString(mm); ms != "" {
						str = ms + "+" + name
					}
					if gs := k.MatchString(str); gs != got {
						lost := "other"
						if mm&vaxis.ModHyper != 0 {
							lost = "hyper"
						}
						r.Violation("C09|match|MatchString-parse|"+lost, ei, detail{Part: "match", Input: keyStr(k), Got: fmt.Sprintf("MatchString(%q) = %v, Matches(%q, %s) = %v", str, gs, b.r, modString(mm), got),
							Why: "the textual binding is not parsed into the modifiers and key it names"})
					}
				}
			}
		}
		r.Distinct(explore.Hash("ev", keyStr(k)))
	}
}

// ---- cross-protocol ---------------------------------------------------------------------------------

type chord struct {
	name          string
	legacy, kitty string
}

func chords() []chord {
	var cs []chord
	for c := 'a'; c <= 'z'; c++ {
		cs = append(cs, chord{"Shift+" + string(c), string(c - 32), fmt.Sprintf("\x1b[%d:%d;2;%du", c, c-32, c-32)})
		cs = append(cs, chord{"Alt+" + string(c), "\x1b" + string(c), fmt.Sprintf("\x1b[%d;3u", c)})
		if !strings.ContainsRune("himj", c) {
			cs = append(cs, chord{"Ctrl+" + string(c), string(c - 0x60), fmt.Sprintf("\x1b[%d;5u", c)})
		}
	}
	for c := '0'; c <= '9'; c++ {
		cs = append(cs, chord{"Alt+" + string(c), "\x1b" + string(c), fmt.Sprintf("\x1b[%d;3u", c)})
	}
	cs = append(cs, chord{"Enter", "\r", "\x1b[13u"}, chord{"Tab", "\t", "\x1b[9u"}, chord{"Shift+Tab", "\x1b[Z", "\x1b[9;2u"},
		chord{"Esc", "\x1b", "\x1b[27u"}, chord{"Backspace", "\x7f", "\x1b[127u"}, chord{"Space", " ", "\x1b[32;1;32u"})
	return cs
}

func crossProtocol(g *rig) {
	binds := bindKeys()
	for ci, c := range chords() {
		r.Count("cross_chords", 1)
		a, b := g.decode(c.legacy), g.decode(c.kitty)
		if len(a) != 1 || len(b) != 1 {
			r.Violation("C09|cross|count", ci, detail{Part: "cross-protocol", Input: c.name, Why: fmt.Sprintf("legacy %q gives %d events, kitty %q gives %d", c.legacy, len(a), c.kitty, len(b))})
			continue
		}
		if a[0].String() != b[0].String() {
			r.Violation("C09|cross|String", ci, detail{Part: "cross-protocol", Input: c.name, Got: fmt.Sprintf("legacy %q, kitty %q", a[0].String(), b[0].String()), Why: "the same chord has different String() under the two encodings"})
			continue
		}
		ok := true
		for _, bk := range binds {
			for _, m := range masks() {
				mm := vaxis.ModifierMask(m)
				if a[0].Matches(bk.r, mm) != b[0].Matches(bk.r, mm) {
					r.Violation("C09|cross|match-set", ci, detail{Part: "cross-protocol", Input: c.name, Got: fmt.Sprintf("binding (%q, %s): legacy %v, kitty %v; events %s / %s", bk.r, modString(mm), a[0].Matches(bk.r, mm), b[0].Matches(bk.r, mm), keyStr(a[0]), keyStr(b[0])),
						Why: "a binding matches the chord under one encoding only"})
					ok = false
					break
				}
			}
			if !ok {
				break
			}
		}
		if ok {
			r.Distinct(explore.Hash("chord", c.name))
		}
	}
}

func main() {
	r = explore.Start("C09")
	if r.Replay != "" {
		r.ReplayBySearch()
	}
	if idx, n, arg, ok := r.Worker(); ok {
		r.Watchdog(60 * time.Second)
		switch arg {
		case "decode":
			g := newRig()
			decodeSweep(g, idx, n)
			if idx == 0 {
				crossProtocol(g)
				r.Sample(map[string]any{"part": "decode", "input": "\x1b[97:65;2:1;65u"})
			}
			g.s.Vx.Close()
		case "match":
			matchSweep(idx, n)
			if idx == 0 {
				r.Sample(map[string]any{"part": "match", "event": keyStr(sampleEvents()[3]), "binding": "Ctrl+Shift+a"})
			}
		}
		r.WorkerDone()
	}
	r.Spawn(16, "decode", 0)
	r.Spawn(16, "match", 0)
	n := r.Get("decodes") + r.Get("match_pairs") + r.Get("cross_chords")
	r.Finish(explore.Coverage{
		States: -1, Transitions: n, Traces: n, Evaluations: n,
		Rule:       "decoding, through bytes -> ansi.Parser -> input loop of a real Vaxis on a fake console: every ASCII byte and 24 non-ASCII scalars raw; ESC + every byte 0x30-0x7F that stays in the escape state; SS3 keys; CSI 1;m X for 11 finals x all 256 modifier masks, CSI n;m ~ for 30 numbers x 256 masks, each also with an event-type sub-parameter (press/repeat/release rotating); CSI 27;m;k ~; CSI u for 128 ASCII codes + 24 non-ASCII + every functional key of the kitty specification x 256 masks with the optional fields (shifted, base, event type, text) rotating so that every combination meets every mask; compared with an independent decoder. Matching: ~5000 decoded events x 138 binding keys x 256 masks: agreement with a transcription of the six documented matching rules for every (event, binding, mask), own-binding completeness, soundness on Ctrl/Alt/Super/Hyper/Meta, lock insensitivity, MatchString parsing. Cross-protocol: 95 chords under both encodings: String() and match sets. distinct = inputs/events/chords that passed",
		Exhaustive: true,
		Assumptions: []string{"0x08/0x09/0x0D/0x1B decode to Backspace/Tab/Enter/Escape (the usual reading of the ambiguous legacy bytes)",
			"ESC + upper-case letter may be reported with either normalisation (Alt+Shift vs Alt+CapsLock cannot be told apart)",
			"a key's Text is only checked when the encoding carries text"},
	})
}
