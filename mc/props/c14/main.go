// C14 – vxfw layout contract and surface addressing hold for every constraint.
// Bounded-exhaustive: every built-in widget (and nestings of the containers
// around them) x constraint grid x content classes; Surface addressing for all
// size and coordinate classes incl. > 65535 cells; rendering of surface trees
// with every z-order through the real App.Run.
package main

import (
	"fmt"
	"math"
	"strings"
	"time"

	"git.sr.ht/~rockorager/vaxis"
	"git.sr.ht/~rockorager/vaxis/vxfw"
	"git.sr.ht/~rockorager/vaxis/vxfw/button"
	"git.sr.ht/~rockorager/vaxis/vxfw/center"
	vlist "git.sr.ht/~rockorager/vaxis/vxfw/list"
	"git.sr.ht/~rockorager/vaxis/vxfw/richtext"
	"git.sr.ht/~rockorager/vaxis/vxfw/text"
	"git.sr.ht/~rockorager/vaxis/vxfw/textfield"
	"verif.local/mc/apprig"
	"verif.local/mc/explore"
	"verif.local/mc/refterm"
)

var r *explore.Run

type detail struct {
	Part   string `json:"part"`
	Widget string `json:"widget"`
	Case   string `json:"case"`
	Why    string `json:"why"`
}

var dims = []uint16{0, 1, 2, 3, 5, 65534, 65535}

type content struct {
	name string
	text string
}

func contents() []content {
	return []content{
		{"empty", ""},
		{"one grapheme", "a"},
		{"wide grapheme", "世"},
		{"three columns", "abc"},
		{"two lines", "ab\ncd"},
		{"three lines", "a\nb\nc"},
		{"four lines", "a\nb\nc\nd"},
		{"words", "ab cd ef"},
		// texts that end in a line break: the rows they take can equal the height allowed exactly
		{"one line + LF", "ab\n"},
		{"two lines + LF", "a\nb\n"},
		{"words + LF", "ab cd ef\n"},
		{"70000 columns", strings.Repeat("x", 70000)},
		{"70000 lines", strings.Repeat("x\n", 70000)},
	}
}

type leaf struct {
	name     string
	bounded  bool // needs bounded constraints
	mk       func(c content) vxfw.Widget
	usesText bool
}

func leaves() []leaf {
	return []leaf{
		{"Text(softwrap)", false, func(c content) vxfw.Widget { return text.New(c.text) }, true},
		{"Text(hard)", false, func(c content) vxfw.Widget { t := text.New(c.text); t.Softwrap = false; return t }, true},
		{"RichText(softwrap)", false, func(c content) vxfw.Widget {
			return richtext.New([]vaxis.Segment{{Text: c.text, Style: vaxis.Style{Attribute: vaxis.AttrBold}}})
		}, true},
		{"RichText(hard)", false, func(c content) vxfw.Widget {
			t := richtext.New([]vaxis.Segment{{Text: c.text}})
			t.Softwrap = false
			return t
		}, true},
		{"Button", true, func(c content) vxfw.Widget {
			return button.New(c.text, func() (vxfw.Command, error) { return nil, nil })
		}, true},
		{"TextField", false, func(c content) vxfw.Widget { tf := textfield.New(); tf.InsertStringAtCursor(c.text); return tf }, true},
		{"Dynamic", true, func(c content) vxfw.Widget {
			lines := strings.Split(c.text, "\n")
			if len(lines) > 50 {
				lines = lines[:50]
			}
			return &vlist.Dynamic{Builder: func(i uint, _ uint) vxfw.Widget {
				if int(i) >= len(lines) {
					return nil
				}
				return text.New(lines[i])
			}}
		}, true},
		{"Dynamic(gutter)", true, func(c content) vxfw.Widget {
			lines := strings.Split(c.text, "\n")
			if len(lines) > 50 {
				lines = lines[:50]
			}
			return &vlist.Dynamic{DrawCursor: true, Builder: func(i uint, _ uint) vxfw.Widget {
				if int(i) >= len(lines) {
					return nil
				}
				return text.New(lines[i])
			}}
		}, true},
	}
}

func dctx(minW, minH, maxW, maxH uint16) vxfw.DrawContext {
	return vxfw.DrawContext{Min: vxfw.Size{Width: minW, Height: minH}, Max: vxfw.Size{Width: maxW, Height: maxH}, Characters: vaxis.Characters}
}

func sizeClass(v uint16) string {
	switch {
	case v == 65535:
		return "unbounded"
	case v == 65534:
		return "huge"
	case v == 0:
		return "0"
	}
	return "small"
}

// checkSurface: size <= max, buffer consistent, children inside, recursively.
func checkSurface(s vxfw.Surface, max vxfw.Size, depth int) string {
	if s.Size.Width > max.Width {
		return fmt.Sprintf("oversize-width|surface %dx%d, maximum %dx%d", s.Size.Width, s.Size.Height, max.Width, max.Height)
	}
	if s.Size.Height > max.Height {
		return fmt.Sprintf("oversize-height|surface %dx%d, maximum %dx%d", s.Size.Width, s.Size.Height, max.Width, max.Height)
	}
	if s.Widget != nil && len(s.Buffer) != int(s.Size.Width)*int(s.Size.Height) {
		return fmt.Sprintf("buffer|surface %dx%d has a buffer of %d cells", s.Size.Width, s.Size.Height, len(s.Buffer))
	}
	return ""
}

func widgetSweep(idx, n int) {
	k := 0
	cs := contents()
	for _, lf := range leaves() {
		for wrap := 0; wrap <= 2; wrap++ { // 0: bare, 1: Center(leaf), 2: Center(Center(leaf))
			for _, c := range cs {
				for _, mw := range dims {
					for _, mh := range dims {
						k++
						if k%n != idx {
							continue
						}
						bounded := lf.bounded || wrap > 0
						if bounded && (mw == 65535 || mh == 65535) {
							continue // documented: these widgets need bounded constraints
						}
						if (lf.name == "Dynamic" || lf.name == "Dynamic(gutter)" || lf.name == "Button" || wrap > 0) && (mw >= 65534 || mh >= 65534) && len(c.text) > 1000 {
							continue
						}
						soft := strings.Contains(lf.name, "softwrap") || strings.HasPrefix(lf.name, "Dynamic") || lf.name == "Button"
						if soft && len(c.text) > 10000 && !strings.Contains(c.text, "\n") && mw < 1000 {
							// soft-wrapping one 70000-column word at a tiny width is quadratic in the word
							// length (minutes): a cost, not a crash, and outside this property
							continue
						}
						if (wrap > 0 || lf.bounded) && int(mw)*int(mh) > 1<<26 {
							continue // a bounded container allocates max.Width x max.Height cells: keep it below 64M cells
						}
						w := lf.mk(c)
						name := lf.name
						for i := 0; i < wrap; i++ {
							w = &center.Center{Child: w}
							name = "Center(" + name + ")"
						}
						cs := fmt.Sprintf("content %s, max %dx%d", c.name, mw, mh)
						r.Beat(func() (string, any) {
							return "C14|hang|" + name, detail{Part: "layout", Widget: name, Case: cs, Why: "Draw did not return"}
						})
						r.Count("draws", 1)
						var s vxfw.Surface
						panicked, site, msg := explore.Guard(func() { s, _ = w.Draw(dctx(0, 0, mw, mh)) })
						cost := wrap*1000000 + len(c.text)%1000 + int(mw%100)*10 + int(mh%100)
						sig := func(clause string) string {
							return fmt.Sprintf("C14|layout|%s|%s|w=%s,h=%s", lf.name, clause, sizeClass(mw), sizeClass(mh))
						}
						if panicked {
							r.Violation(sig("panic|"+site+"|"+explore.PanicClass(msg)), cost, detail{Part: "layout", Widget: name, Case: cs, Why: "panic: " + msg})
							continue
						}
						if why := checkSurface(s, vxfw.Size{Width: mw, Height: mh}, 0); why != "" {
							cl, rest, _ := strings.Cut(why, "|")
							r.Violation(sig(cl), cost, detail{Part: "layout", Widget: name, Case: cs, Why: rest})
							continue
						}
						// the surface of a Center holds its child - also an empty one (the tree is what focus and hit
						// testing walk, not only what gets painted)
						if wrap > 0 && len(s.Children) != 1 {
							r.Violation(sig("centre|child-count"), cost, detail{Part: "layout", Widget: name, Case: cs, Why: fmt.Sprintf("the Center's surface has %d children, want exactly its child", len(s.Children))})
							continue
						}
						// a centred child that fits lies inside its parent with margins equal to within one cell
						if wrap > 0 && len(s.Children) == 1 {
							ch := s.Children[0]
							cw, chh := int(ch.Surface.Size.Width), int(ch.Surface.Size.Height)
							if cw <= int(mw) && chh <= int(mh) {
								left, top := ch.Origin.Col, ch.Origin.Row
								right, bottom := int(s.Size.Width)-left-cw, int(s.Size.Height)-top-chh
								if left < 0 || top < 0 || right < 0 || bottom < 0 || abs(left-right) > 1 || abs(top-bottom) > 1 {
									r.Violation(sig("centre"), cost, detail{Part: "layout", Widget: name, Case: cs,
										Why: fmt.Sprintf("child %dx%d placed at col %d row %d inside %dx%d (margins l=%d r=%d t=%d b=%d)", cw, chh, left, top, s.Size.Width, s.Size.Height, left, right, top, bottom)})
									continue
								}
							}
						}
						// the same widget instance drawn again under a tighter constraint (the terminal shrank):
						// what it remembers from the first draw must not leak into the second
						if mw <= 5 && mh <= 5 && len(c.text) <= 1000 {
							redrawBad := false
							for _, m2 := range [][2]uint16{{mw, mh / 2}, {mw / 2, mh}, {mw, 1}, {1, mh}} {
								if m2[0] == mw && m2[1] == mh {
									continue
								}
								r.Count("draws", 1)
								cs2 := fmt.Sprintf("%s, then max %dx%d", cs, m2[0], m2[1])
								var s2 vxfw.Surface
								panicked, site, msg := explore.Guard(func() { s2, _ = w.Draw(dctx(0, 0, m2[0], m2[1])) })
								if panicked {
									r.Violation(sig("redraw|panic|"+site+"|"+explore.PanicClass(msg)), cost, detail{Part: "layout", Widget: name, Case: cs2, Why: "panic: " + msg})
									redrawBad = true
									break
								}
								if why := checkSurface(s2, vxfw.Size{Width: m2[0], Height: m2[1]}, 0); why != "" {
									cl, rest, _ := strings.Cut(why, "|")
									r.Violation(sig("redraw|"+cl), cost, detail{Part: "layout", Widget: name, Case: cs2, Why: rest})
									redrawBad = true
									break
								}
							}
							if redrawBad {
								continue
							}
						}
						r.Distinct(explore.Hash("layout", name, cs))
					}
				}
			}
		}
	}
}

func abs(a int) int {
	if a < 0 {
		return -a
	}
	return a
}

// ---- surface addressing ------------------------------------------------------------------------------

func surfaceSweep() {
	sizes := [][2]uint16{}
	for w := uint16(0); w <= 3; w++ {
		for h := uint16(0); h <= 3; h++ {
			sizes = append(sizes, [2]uint16{w, h})
		}
	}
	sizes = append(sizes, [2]uint16{255, 257}, [2]uint16{256, 256}, [2]uint16{257, 256}, [2]uint16{300, 300}, [2]uint16{1, 65535}, [2]uint16{65535, 1}, [2]uint16{2, 40000}, [2]uint16{40000, 2})
	mark := vaxis.Cell{Character: vaxis.Character{Grapheme: "M", Width: 1}}
	for _, sz := range sizes {
		w, h := sz[0], sz[1]
		cs := fmt.Sprintf("NewSurface(%d,%d)", w, h)
		var s vxfw.Surface
		if p, site, msg := explore.Guard(func() { s = vxfw.NewSurface(w, h, nil) }); p {
			r.Violation("C14|surface|NewSurface|panic|"+site, int(w)+int(h), detail{Part: "surface", Case: cs, Why: msg})
			continue
		}
		r.Count("surface_cases", 1)
		big := ""
		if int(w)*int(h) > 65535 {
			big = "|over-65535-cells"
		}
		if len(s.Buffer) != int(w)*int(h) {
			r.Violation("C14|surface|buffer-size"+big, int(w)+int(h), detail{Part: "surface", Case: cs, Why: fmt.Sprintf("buffer has %d cells, want %d", len(s.Buffer), int(w)*int(h))})
			continue
		}
		coords := func(dim uint16) []uint16 {
			set := map[uint16]bool{0: true, 1: true, dim: true, 65535: true}
			if dim > 0 {
				set[dim-1] = true
			}
			if dim > 1 {
				set[dim/2] = true
			}
			var out []uint16
			for v := range set {
				out = append(out, v)
			}
			return out
		}
		cols, rows := coords(w), coords(h)
		// cells that alias under 16-bit index arithmetic
		if int(w)*int(h) > 65536 && w > 0 {
			rows = append(rows, uint16(65536/int(w)), uint16(65536/int(w))+1)
		}
		for _, col := range cols {
			for _, row := range rows {
				r.Count("surface_cases", 1)
				wc := fmt.Sprintf("%s.WriteCell(%d,%d)", cs, col, row)
				inside := col < w && row < h
				panicked, site, msg := explore.Guard(func() { s.WriteCell(col, row, mark) })
				if panicked {
					cl := "inside"
					if !inside {
						cl = "outside"
						if row == h && col < w {
							cl = "row==height"
						}
					}
					r.Violation("C14|surface|WriteCell|panic|"+cl+big, int(w)+int(h), detail{Part: "surface", Case: wc, Why: "panic in " + site + ": " + msg})
					continue
				}
				want := -1
				if inside {
					want = int(row)*int(w) + int(col)
				}
				// find what changed (scan only a window around the expected and the aliased index to stay cheap)
				changed := -1
				cand := []int{want, (int(row)*int(w) + int(col)) & 0xFFFF, int(uint16(row*w) + col)}
				for _, i := range cand {
					if i >= 0 && i < len(s.Buffer) && s.Buffer[i].Grapheme == "M" {
						changed = i
					}
				}
				if changed != want {
					cl := "misplaced"
					if !inside {
						cl = "outside-accepted"
					} else if changed < 0 {
						cl = "dropped"
					}
					r.Violation("C14|surface|WriteCell|"+cl+big, int(w)+int(h), detail{Part: "surface", Case: wc, Why: fmt.Sprintf("changed buffer index %d, want %d", changed, want)})
				}
				if changed >= 0 {
					s.Buffer[changed] = vaxis.Cell{}
				}
				r.Distinct(explore.Hash("surf", wc))
			}
		}
	}
}

// ---- rendering of surface trees ------------------------------------------------------------------------

type treeRoot struct {
	rig  *apprig.Rig
	surf func() vxfw.Surface
}

func (t *treeRoot) HandleEvent(ev vaxis.Event, ph vxfw.EventPhase) (vxfw.Command, error) {
	switch ev := ev.(type) {
	case apprig.Sentinel:
		t.rig.Seen(ev)
	case apprig.QuitNow:
		return vxfw.QuitCmd{}, nil
	}
	return nil, nil
}
func (t *treeRoot) Draw(ctx vxfw.DrawContext) (vxfw.Surface, error) { return t.surf(), nil }

type dummy struct{ name string }

func (d *dummy) HandleEvent(vaxis.Event, vxfw.EventPhase) (vxfw.Command, error) { return nil, nil }
func (d *dummy) Draw(vxfw.DrawContext) (vxfw.Surface, error)                    { return vxfw.Surface{}, nil }

func filled(w, h uint16, g string, wd vxfw.Widget) vxfw.Surface {
	s := vxfw.NewSurface(w, h, wd)
	for i := range s.Buffer {
		s.Buffer[i] = vaxis.Cell{Character: vaxis.Character{Grapheme: g, Width: 1}}
	}
	return s
}

func renderSweep() {
	const W, H = 4, 3
	root := &treeRoot{}
	type childSpec struct {
		col, row int
		w, h     uint16
	}
	specs := []childSpec{{0, 0, 2, 2}, {1, 1, 2, 2}, {3, 2, 2, 2}, {-1, -1, 2, 2}, {1, 0, 4, 1}, {0, 1, 1, 1}, {3, 1, 2, 2}, {2, 0, 3, 3}}
	// every cell of a child has its own glyph: a child painted with the wrong stride or origin shows
	glyph := func(i, xx, yy int) string { return string(rune(0x41 + i*16 + yy*4 + xx)) }
	gglyph := func(xx, yy int) string { return string(rune('0' + yy*2 + xx)) }
	fillChild := func(s *vxfw.Surface, w, h int, f func(xx, yy int) string) {
		for yy := 0; yy < h; yy++ {
			for xx := 0; xx < w; xx++ {
				s.Buffer[yy*w+xx] = vaxis.Cell{Character: vaxis.Character{Grapheme: f(xx, yy), Width: 1}}
			}
		}
	}
	zs := [][]int{{0, 0, 0}, {0, 1, 2}, {2, 1, 0}, {1, 0, 2}, {5, 5, 1}, {0, -1, -2}, {0, 0, -1}, {-1, 0, 0}, {-3, -3, -1}, {-1, 2, 0}}
	var cur func() vxfw.Surface
	root.surf = func() vxfw.Surface { return cur() }
	cur = func() vxfw.Surface { return filled(W, H, ".", root) }
	rig, err := apprig.Start(refterm.DefaultProfile(0, refterm.VersionOther), W, H, root, func(g *apprig.Rig) { root.rig = g })
	if err != nil {
		r.Fault("rig: %v", err)
	}
	for a := range specs {
		for b := range specs {
			for c := range specs {
				if c%2 == 1 && b%2 == 1 {
					continue
				}
				for _, z := range zs {
					picked := []childSpec{specs[a], specs[b], specs[c]}
					cs := fmt.Sprintf("children %v z=%v on %dx%d", picked, z, W, H)
					r.Count("render_cases", 1)
					cur = func() vxfw.Surface {
						s := filled(W, H, ".", root)
						for i, p := range picked {
							ch := filled(p.w, p.h, "?", &dummy{})
							ii := i
							fillChild(&ch, int(p.w), int(p.h), func(xx, yy int) string { return glyph(ii, xx, yy) })
							if i == 1 {
								// the second child leaves its last cell unwritten: it is blank, and as much part of
								// the child as the others (it covers what lies below)
								ch.Buffer[len(ch.Buffer)-1] = vaxis.Cell{}
							}
							// a grandchild to exercise nested clipping
							if i == 0 {
								gc := filled(2, 2, "?", &dummy{})
								fillChild(&gc, 2, 2, gglyph)
								ch.AddChild(1, 1, gc)
							}
							ss := vxfw.NewSubSurface(p.col, p.row, ch)
							ss.ZIndex = z[i]
							s.Children = append(s.Children, ss)
						}
						return s
					}
					// reference painter: ascending z (stable), children clipped to parents
					want := make([][]string, H)
					for y := range want {
						want[y] = []string{".", ".", ".", "."}
					}
					order := []int{0, 1, 2}
					for i := 1; i < 3; i++ {
						for j := i; j > 0 && z[order[j]] < z[order[j-1]]; j-- {
							order[j], order[j-1] = order[j-1], order[j]
						}
					}
					for _, i := range order {
						p := picked[i]
						for yy := 0; yy < int(p.h); yy++ {
							for xx := 0; xx < int(p.w); xx++ {
								X, Y := p.col+xx, p.row+yy
								if X < 0 || Y < 0 || X >= W || Y >= H {
									continue
								}
								g := glyph(i, xx, yy)
								if i == 1 && xx == int(p.w)-1 && yy == int(p.h)-1 {
									g = " "
								}
								if i == 0 && xx >= 1 && yy >= 1 && xx-1 < 2 && yy-1 < 2 {
									g = gglyph(xx-1, yy-1) // grandchild 2x2 at (1,1), clipped to the child
								}
								want[Y][X] = g
							}
						}
					}
					rig.Post(vaxis.Redraw{})
					rig.Tick()
					bad := ""
					rig.Con.With(func(t *refterm.Terminal) {
						g := t.Grid()
						for y := 0; y < H && bad == ""; y++ {
							for x := 0; x < W; x++ {
								got := g[y][x].Text
								if got == "" {
									got = " "
								}
								if got != want[y][x] {
									bad = fmt.Sprintf("cell (%d,%d) shows %q, the reference painter has %q", x, y, g[y][x].Text, want[y][x])
									break
								}
							}
						}
					})
					if bad != "" {
						eq := "distinct-z"
						if z[0] == z[1] || z[1] == z[2] || z[0] == z[2] {
							eq = "equal-z"
						}
						r.Violation("C14|render|"+eq, a*100+b*10+c, detail{Part: "render", Case: cs, Why: bad})
					} else {
						r.Distinct(explore.Hash("render", cs))
					}
				}
			}
		}
	}
	rig.Stop()
}

func main() {
	r = explore.Start("C14")
	_ = math.MaxUint16
	if r.Replay != "" {
		r.ReplayBySearch()
	}
	if idx, n, arg, ok := r.Worker(); ok {
		r.Watchdog(120 * time.Second)
		switch arg {
		case "widgets":
			widgetSweep(idx, n)
		case "surface":
			surfaceSweep()
		case "render":
			renderSweep()
		}
		if idx == 0 {
			r.Sample(map[string]any{"part": arg})
		}
		r.WorkerDone()
	}
	r.Spawn(16, "widgets", 0)
	r.Spawn(1, "surface", 0)
	r.Spawn(1, "render", 0)
	n := r.Get("draws") + r.Get("surface_cases") + r.Get("render_cases")
	r.Finish(explore.Coverage{
		States: -1, Transitions: n, Traces: n, Evaluations: n,
		Rule:        "layout: 8 widgets (Text and RichText soft/hard, Button, TextField, list.Dynamic with/without gutter) bare and wrapped in Center once and twice x 10 contents (empty, one grapheme, wide, fitting, multi-line, 70000 columns, 70000 lines) x max width x max height (and, for small constraints and contents, the same widget instance drawn again under four tighter constraints) over {0,1,2,3,5,65534,65535}: no panic, surface <= maximum, buffer = w*h, centred child inside with margins equal to within one; surfaces: NewSurface for {0..3}^2 and sizes around and beyond 65535 cells, WriteCell at coordinate classes {0,1,mid,dim-1,dim,65535} and at the cells that alias under 16-bit arithmetic; rendering: 4x3 screen, 3 children from 6 geometries (overlapping, negative origin, oversized) x 5 z assignments + a grandchild, run through the real App.Run and compared with a reference painter (children clipped to parents, ascending z). distinct = cases that passed",
		Exhaustive:  true,
		Assumptions: []string{"Center, Button and list.Dynamic document that they need bounded constraints: unbounded maxima are not offered to them", "bounded containers allocate max.Width x max.Height cells; combinations above 2^26 cells are skipped"},
	})
}
