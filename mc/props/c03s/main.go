// C03, scheduler part: "for all arrival timings". The sequential harness
// (props/c03) feeds report sequences while the session is idle, so every reply
// is handled before the next operation. Here queries and their replies, and
// unsolicited reports, race with the asking goroutine, with time-outs, with
// typed input and with rendering, under every schedule within the deviation
// bound: a reply must reach the query that asked for it (or the query must time
// out for a reason), must never turn into a phantom key, input order is kept,
// and the input loop survives.
package main

import (
	"fmt"
	"strings"
	"time"

	"git.sr.ht/~rockorager/vaxis"
	vctx "git.sr.ht/~rockorager/vaxis/verifshim/vctx"
	"git.sr.ht/~rockorager/vaxis/verifshim/vsched"
	"verif.local/mc/refterm"
	"verif.local/mc/schedrig"
)

func release(w *schedrig.World, once bool) {
	vsched.AddEnv("terminal-replies", once, func() bool { return len(w.Con.Held) > 0 }, func() { w.Con.Release(); w.Released = true })
}

// noPhantomKeys: nothing was typed, so no key event may appear (a report decoded as a key).
func noPhantomKeys(w *schedrig.World, allowed ...string) {
	for _, g := range w.Got {
		if strings.HasPrefix(g, "key:") {
			ok := false
			for _, a := range allowed {
				if g == a {
					ok = true
				}
			}
			if !ok && !w.TimedOut {
				w.Failf("phantom-key", "a terminal report reached the application as %s although the query it answers had not timed out (events: %v)", g, w.Got)
			}
		}
	}
}

var colourCaps = refterm.CapRGB | refterm.CapSync | refterm.CapOSC4 | refterm.CapOSC10 | refterm.CapOSC11

var scenarios = []schedrig.Scenario{
	{Name: "cursor-position", Queue: 8, Hold: true, Body: func(w *schedrig.World) {
		release(w, true)
		schedrig.Poster(w, "A", 1)
		row, col := w.Vx.CursorPosition()
		w.CheckCursor(row, col)
		w.Until(func() bool { return w.Seen("A1") })
		w.Con.Hold = false
		w.Con.Release()
		schedrig.TypeBytes(w, "z", "z")
		w.Until(func() bool { return w.Seen("key:z") })
		noPhantomKeys(w, "key:z")
		w.Vx.Close()
	}},
	{Name: "cursor-position-twice", Queue: 8, Hold: true, Body: func(w *schedrig.World) {
		release(w, false)
		for i := 0; i < 2; i++ {
			w.Released = false
			row, col := w.Vx.CursorPosition()
			w.CheckCursor(row, col)
		}
		w.Con.Hold = false
		w.Con.Release()
		w.Vx.Close()
	}},
	{Name: "cursor-position-unanswered-then-F3", Queue: 8, Caps: refterm.CapRGB | refterm.CapSync, Body: func(w *schedrig.World) {
		w.Con.Mute = true
		row, col := w.Vx.CursorPosition()
		w.Con.Mute = false
		if row != -1 || col != -1 {
			w.Failf("cursor-position", "CursorPosition returned %d,%d although the terminal never answered", row, col)
		}
		schedrig.TypeBytes(w, "shift-f3", "\x1b[1;2R")
		schedrig.TypeBytes(w, "f3", "\x1b[R")
		w.Until(func() bool { return w.Seen("key:Shift+F3") && w.Seen("key:F3") })
		w.Vx.Close()
	}},
	{Name: "clipboard", Queue: 8, Hold: true, Body: func(w *schedrig.World) {
		release(w, true)
		ctx, cancel := vctx.WithTimeout(vctx.Background(), 20*time.Millisecond)
		s, err := w.Vx.ClipboardPop(ctx)
		cancel()
		if err == nil && s != "hello" {
			w.Failf("clipboard", "ClipboardPop returned %q", s)
		}
		w.Con.Hold = false
		w.Con.Release()
		schedrig.TypeBytes(w, "z", "z")
		w.Until(func() bool { return w.Seen("key:z") })
		w.Vx.Close()
	}},
	{Name: "clipboard-after-unsolicited-report", Queue: 8, Body: func(w *schedrig.World) {
		// an OSC 52 report nobody is waiting for (a repeated reply, or one that came after the caller gave
		// up) is not the answer to the next request; the key typed behind it shows when it has been dealt with
		schedrig.TypeBytes(w, "osc52+y", "\x1b]52;c;c3RhbGU=\x1b\\y")
		w.Until(func() bool { return w.Seen("key:y") })
		ctx, cancel := vctx.WithTimeout(vctx.Background(), 20*time.Millisecond)
		s, err := w.Vx.ClipboardPop(ctx)
		cancel()
		if err == nil && s != "hello" {
			w.Failf("clipboard", "ClipboardPop returned %q, the terminal answered this request with \"hello\"", s)
		}
		w.Vx.Close()
	}},
	{Name: "colour-queries", Queue: 8, Caps: colourCaps, Hold: true, Body: func(w *schedrig.World) {
		release(w, false)
		schedrig.TypeBytes(w, "k", "k")
		fg := w.Vx.QueryForeground()
		if fmt.Sprint(fg.Params()) != "[255 255 255]" {
			w.Failf("colour-query", "QueryForeground = %v (the terminal reports white)", fg.Params())
		}
		w.Until(func() bool { return w.Seen("key:k") })
		w.Con.Hold = false
		w.Vx.Close()
	}},
	{Name: "colour-query-vs-unsolicited-report", Queue: 8, Caps: colourCaps, Body: func(w *schedrig.World) {
		// a terminal that announces a colour change on its own around a query
		schedrig.TypeBytes(w, "osc11", "\x1b]11;rgb:4/5/6\x07")
		bg := w.Vx.QueryBackground()
		got := fmt.Sprint(bg.Params())
		if got != "[0 0 0]" && got != "[1 2 3]" && got != "[4 5 6]" {
			w.Failf("colour-query", "QueryBackground = %v", bg.Params())
		}
		schedrig.TypeBytes(w, "k", "k")
		w.Until(func() bool { return w.Seen("key:k") })
		w.Vx.Close()
	}},
	{Name: "in-band-resize-vs-render", Queue: 8, Caps: refterm.CapRGB | refterm.CapSync | refterm.CapInBandResize, Body: func(w *schedrig.World) {
		vsched.AddEnv("window-resized", true, func() bool { return true }, func() { w.Con.ResizeTerm(30, 8) })
		schedrig.TypeBytes(w, "k", "k")
		w.Draw()
		w.Until(func() bool { return w.Seen("resize:30x8") && w.Seen("key:k") })
		w.Draw()
		if c, r := w.Vx.Window().Size(); c != 30 || r != 8 {
			w.Failf("resize", "window is %dx%d after the resize to 30x8 was delivered and drawn", c, r)
		}
		w.Vx.Close()
	}},
	{Name: "paste-and-mouse-small-queue", Queue: 2, Body: func(w *schedrig.World) {
		schedrig.TypeBytes(w, "paste", "\x1b[200~ab\x1b[201~")
		schedrig.TypeBytes(w, "mouse", "\x1b[<0;3;2M\x1b[<0;3;2m")
		schedrig.TypeBytes(w, "focus", "\x1b[O")
		w.Until(func() bool {
			return w.Seen("paste-end") && w.Seen("focus-out") && strings.Count(strings.Join(w.Got, " "), "mouse:") == 2
		})
		// the paste arrives as start, the two keys, end, in this order
		idx := func(s string) int { return schedrig.IndexOf(w.Got, s) }
		if !(idx("paste-start") < idx("key:a") && idx("key:a") < idx("key:b") && idx("key:b") < idx("paste-end")) {
			w.Failf("input-order", "paste delivered as %v", w.Got)
		}
		w.Vx.Close()
	}},
	{Name: "colour-theme-report-vs-suspend", Queue: 8, Caps: refterm.CapRGB | refterm.CapSync | refterm.CapColorScheme, Body: func(w *schedrig.World) {
		schedrig.TypeBytes(w, "theme", "\x1b[?997;1n")
		w.Vx.Suspend()
		w.Vx.Resume()
		schedrig.TypeBytes(w, "q", "q")
		w.Until(func() bool { return w.Seen("key:q") })
		w.Vx.Close()
	}},
}

func main() {
	_ = vaxis.Key{}
	schedrig.QuickFairOnly = true
	schedrig.Main("C03", scenarios, "CursorPosition with the report early / late / never (once, twice, unanswered then F3 and Shift+F3), ClipboardPop against its context deadline and after an unsolicited OSC 52 report, QueryForeground with a held reply and typed input, a colour query racing with an unsolicited OSC 11 report, an in-band resize report racing with rendering, bracketed paste + mouse + focus reports into a 2-slot queue, a colour-theme report arriving around Suspend/Resume")
}
