// C03 – every terminal report becomes the right event; the input loop survives
// any input. Exhaustive over sequences of well-formed and malformed terminal
// reports injected through a fake console into a running Vaxis, under several
// capability profiles, each followed by a sentinel key.
package main

import (
	"fmt"
	"regexp"
	"runtime"
	"strings"
	"time"

	"git.sr.ht/~rockorager/vaxis"
	vtime "git.sr.ht/~rockorager/vaxis/verifshim/vtime"
	"verif.local/mc/explore"
	"verif.local/mc/refterm"
	"verif.local/mc/session"
)

var r *explore.Run

type item struct {
	name    string
	bytes   string
	want    []string // expected user events, in order ("key:<String()>", "mouse:...", "focus-in", ...)
	garbage bool     // malformed: only liveness is required, extra key events are tolerated
	danger  bool     // member of the deeper search
	check   func(s *session.Session) string
}

func mouse(btn vaxis.MouseButton, col, row int, ty string, mods string) string {
	return fmt.Sprintf("mouse:%d@%d,%d:%s:%s", btn, col, row, ty, mods)
}

// paramVariants derives, from every well-formed CSI report of the alphabet, the reports with one
// parameter less, with only the first parameter, and with one parameter more: a handler that indexes
// its parameters after an off-by-one length check meets exactly the count it mishandles.
func paramVariants(base []item) []item {
	re := regexp.MustCompile(`^\x1b\[([<?>=]?)([0-9:;]+)([ -/]*[@-~])$`)
	seen := map[string]bool{}
	for _, it := range base {
		seen[it.bytes] = true
	}
	var out []item
	for _, it := range base {
		if it.garbage || len(it.want) > 0 {
			continue // keys and paste markers: one more parameter is a modifier, not a malformation
		}
		m := re.FindStringSubmatch(it.bytes)
		if m == nil {
			continue
		}
		ps := strings.Split(m[2], ";")
		var vars [][]string
		if len(ps) > 1 {
			vars = append(vars, ps[:len(ps)-1], ps[:1])
		}
		if len(ps) > 2 {
			vars = append(vars, ps[:len(ps)-2])
		}
		vars = append(vars, append(append([]string{}, ps...), "7"))
		for _, v := range vars {
			b := "\x1b[" + m[1] + strings.Join(v, ";") + m[3]
			if seen[b] {
				continue
			}
			seen[b] = true
			out = append(out, item{name: fmt.Sprintf("%s with %d parameters", it.name, len(v)), bytes: b, garbage: true})
		}
	}
	return out
}

func items() []item {
	base := baseItems()
	return append(base, paramVariants(base)...)
}

func baseItems() []item {
	k := func(name, b, want string) item { return item{name: name, bytes: b, want: []string{"key:" + want}} }
	reply := func(name, b string, danger bool) item { return item{name: name, bytes: b, danger: danger} }
	junk := func(name, b string) item { return item{name: name, bytes: b, garbage: true, danger: true} }
	return []item{
		k("a", "a", "a"), k("Ctrl+a", "\x01", "Ctrl+a"), k("Alt+a", "\x1ba", "Alt+a"), k("SS3 Up", "\x1bOA", "Up"), k("CSI Up", "\x1b[A", "Up"),
		k("Ctrl+Up", "\x1b[1;5A", "Ctrl+Up"), k("Delete", "\x1b[3~", "Delete"), k("kitty Ctrl+a", "\x1b[97;5u", "Ctrl+a"), k("kitty a", "\x1b[97u", "a"),
		k("wide", "\u4e16", "\u4e16"), k("Ctrl+\\ (0x1C)", "\x1c", "Ctrl+\\"), k("Ctrl+_ (0x1F)", "\x1f", "Ctrl+_"),
		// function keys whose final byte is also the final byte of a report (F4 / XTSMGRAPHICS, F1 and DECRQSS letters)
		k("CSI F4", "\x1b[S", "F4"), k("Shift+F4", "\x1b[1;2S", "Shift+F4"), k("Ctrl+F4", "\x1b[1;5S", "Ctrl+F4"), k("Shift+F1", "\x1b[1;2P", "Shift+F1"),
		{name: "press left", bytes: "\x1b[<0;3;2M", want: []string{mouse(vaxis.MouseLeftButton, 2, 1, "press", "")}},
		{name: "release left", bytes: "\x1b[<0;3;2m", want: []string{mouse(vaxis.MouseLeftButton, 2, 1, "release", "")}},
		{name: "motion", bytes: "\x1b[<35;1;1M", want: []string{mouse(vaxis.MouseNoButton, 0, 0, "motion", "")}},
		{name: "drag right", bytes: "\x1b[<34;4;1M", want: []string{mouse(vaxis.MouseRightButton, 3, 0, "motion", "")}},
		{name: "wheel up", bytes: "\x1b[<64;1;1M", want: []string{mouse(vaxis.MouseWheelUp, 0, 0, "press", "")}},
		{name: "wheel down", bytes: "\x1b[<65;9;9M", want: []string{mouse(vaxis.MouseWheelDown, 8, 8, "press", "")}},
		{name: "shift+press middle", bytes: "\x1b[<5;3;2M", want: []string{mouse(vaxis.MouseMiddleButton, 2, 1, "press", "shift")}},
		{name: "alt+press", bytes: "\x1b[<8;3;2M", want: []string{mouse(vaxis.MouseLeftButton, 2, 1, "press", "alt")}},
		{name: "ctrl+press", bytes: "\x1b[<16;3;2M", want: []string{mouse(vaxis.MouseLeftButton, 2, 1, "press", "ctrl")}},
		{name: "button 8", bytes: "\x1b[<128;3;2M", want: []string{mouse(vaxis.MouseButton8, 2, 1, "press", "")}},
		{name: "focus in", bytes: "\x1b[I", want: []string{"focus-in"}},
		{name: "focus out", bytes: "\x1b[O", want: []string{"focus-out"}},
		{name: "paste x", bytes: "\x1b[200~x\x1b[201~", want: []string{"paste-start", "pasted-key:x", "paste-end"}},
		{name: "paste start", bytes: "\x1b[200~", want: []string{"paste-start"}, danger: true},
		{name: "paste end", bytes: "\x1b[201~", want: []string{"paste-end"}, danger: true},
		// replies to Vaxis's own queries
		reply("DA1", "\x1b[?62;22c", false), reply("DA1 sixel", "\x1b[?62;4;22c", false),
		reply("DECRPM 2026 reset", "\x1b[?2026;2$y", false), reply("DECRPM 2027 set", "\x1b[?2027;1$y", false), reply("DECRPM 2031 unknown", "\x1b[?2031;0$y", false),
		reply("kitty kb flags", "\x1b[?1u", false), reply("size px", "\x1b[4;32;48t", true), reply("size chars", "\x1b[8;2;3t", true),
		reply("in-band resize", "\x1b[48;2;3;32;48t", true), reply("XTGETTCAP RGB", "\x1bP1+r524742=38\x1b\\", false), reply("XTGETTCAP miss", "\x1bP0+r524742\x1b\\", false),
		reply("DECRPSS cursor", "\x1bP1$r2 q\x1b\\", false), reply("XTVERSION", "\x1bP>|foo\x1b\\", false), reply("tertiary DA", "\x1bP!|7E565445\x1b\\", false),
		reply("kitty graphics OK", "\x1b_Gi=1;OK\x1b\\", false), reply("OSC 4", "\x1b]4;1;rgb:ff/00/00\x1b\\", true), reply("OSC 10", "\x1b]10;rgb:ff/ff/ff\x07", true),
		reply("OSC 11", "\x1b]11;rgb:00/00/00\x07", true), reply("OSC 52", "\x1b]52;c;aGk=\x1b\\", true), reply("OSC 176", "\x1b]176;app\x1b\\", false),
		reply("colour scheme", "\x1b[?997;1n", false),
		// truncated, repeated-field or malformed reports: liveness only
		junk("CSI M (no <)", "\x1b[M"), junk("CSI m (no <)", "\x1b[m"), junk("CSI < M (no params)", "\x1b[<M"), junk("CSI <0M", "\x1b[<0M"), junk("CSI <0;1M", "\x1b[<0;1M"),
		junk("CSI <0;1;1;1M", "\x1b[<0;1;1;1M"), junk("CSI 0;3;2M (no <)", "\x1b[0;3;2M"), junk("CSI ?<0;1;1M", "\x1b[?0;1;1M"),
		junk("DECRPM short", "\x1b[?2026$y"), junk("DECRPM empty", "\x1b[$y"), junk("DECRPM no ?", "\x1b[2026;1$y"),
		junk("size short", "\x1b[8;2t"), junk("size empty", "\x1b[t"), junk("in-band short", "\x1b[48;2;3t"), junk("XTGETTCAP empty", "\x1bP1+r\x1b\\"), junk("XTGETTCAP no param", "\x1bP+r\x1b\\"),
		junk("DECRPSS bad digit", "\x1bP1$r9 q\x1b\\"), junk("DECRPSS no digit", "\x1bP1$r q\x1b\\"), junk("DECRPSS empty", "\x1bP1$r\x1b\\"), junk("DCS r bare", "\x1bPr\x1b\\"), junk("DCS | bare", "\x1bP|\x1b\\"),
		junk("APC empty", "\x1b_\x1b\\"), junk("OSC 4 short", "\x1b]4\x1b\\"), junk("OSC 52 bad base64", "\x1b]52;c;!!!\x1b\\"), junk("OSC 52 short", "\x1b]52\x1b\\"), junk("OSC 176 short", "\x1b]176\x1b\\"),
		junk("OSC empty", "\x1b]\x1b\\"), junk("CPR 2 params", "\x1b[3;4R"), junk("CPR 1 param", "\x1b[3R"), junk("CPR 3 params", "\x1b[3;4;5R"), junk("CSI ~ empty", "\x1b[~"),
		junk("XTSMGRAPHICS short", "\x1b[?2;0S"), junk("DSR ? short", "\x1b[?997n"), junk("CSI c ? empty", "\x1b[?c"), junk("kitty u huge", "\x1b[99999999999999999999;99999999999999999999u"),
		junk("invalid byte", "\xff"), junk("CSI huge params", "\x1b[999999999999999999999;1m"), junk("CSI y no params", "\x1b[y"),
	}
}

type detail struct {
	Profile string   `json:"profile"`
	Items   []string `json:"items"`
	Bytes   string   `json:"bytes"`
	Got     []string `json:"got_user_events"`
	Want    []string `json:"want_user_events"`
	Why     string   `json:"why"`
}

func describe(ev vaxis.Event) string {
	switch e := ev.(type) {
	case vaxis.Key:
		if e.EventType == vaxis.EventPaste {
			return "pasted-key:" + e.String()
		}
		return "key:" + e.String()
	case vaxis.Mouse:
		ty := map[vaxis.EventType]string{vaxis.EventPress: "press", vaxis.EventRelease: "release", vaxis.EventMotion: "motion"}[e.EventType]
		var m []string
		if e.Modifiers&vaxis.ModShift != 0 {
			m = append(m, "shift")
		}
		if e.Modifiers&vaxis.ModAlt != 0 {
			m = append(m, "alt")
		}
		if e.Modifiers&vaxis.ModCtrl != 0 {
			m = append(m, "ctrl")
		}
		return mouse(e.Button, e.Col, e.Row, ty, strings.Join(m, "+"))
	case vaxis.FocusIn:
		return "focus-in"
	case vaxis.FocusOut:
		return "focus-out"
	case vaxis.PasteStartEvent:
		return "paste-start"
	case vaxis.PasteEndEvent:
		return "paste-end"
	}
	return ""
}

const sentinel = "\x1b[57361u" // kitty PrintScreen key: not produced by any item

type profileSpec struct {
	name  string
	caps  refterm.Cap
	queue int  // EventQueueSize (0 = default 1024)
	lazy  bool // the consumer lets the producers run until they block before it takes each event
}

func profiles() []profileSpec {
	all := refterm.Cap(1<<refterm.NumGatingCaps-1) | refterm.CapOSC4 | refterm.CapOSC10 | refterm.CapOSC11 | refterm.CapKittyGraphics | refterm.CapDECRQSS | refterm.CapSizeReports
	return []profileSpec{{"none", 0, 0, false}, {"all", all, 0, false}, {"reports", refterm.CapOSC4 | refterm.CapOSC10 | refterm.CapOSC11 | refterm.CapSizeReports, 0, false},
		{"all, queue of 2, slow consumer", all, 2, true}}
}

func runCase(ps profileSpec, s *session.Session, its []item, seq []int) {
	var names []string
	var bytes strings.Builder
	var want []string
	garbage := false
	inPaste := false
	for _, i := range seq {
		it := its[i]
		names = append(names, it.name)
		bytes.WriteString(it.bytes)
		for _, w := range it.want {
			if inPaste && strings.HasPrefix(w, "key:") {
				w = "pasted-" + w
			}
			if w == "paste-start" {
				inPaste = true
			}
			if w == "paste-end" {
				inPaste = false
			}
			want = append(want, w)
		}
		garbage = garbage || it.garbage
	}
	// leave the paste state closed so that the next case starts clean
	closer := ""
	if inPaste {
		closer = "\x1b[201~"
	}
	r.Count("cases", 1)
	s.Con.Inject([]byte(bytes.String() + sentinel + closer))
	var got []string
	seen := false
	spins := 0
	for !seen {
		if ps.lazy {
			for i := 0; i < 3; i++ {
				runtime.Gosched() // GOMAXPROCS=1: the input goroutine runs until it blocks on the full queue
			}
		}
		select {
		case ev := <-s.Vx.Events():
			if k, ok := ev.(vaxis.Key); ok && k.Keycode == vaxis.KeyPrintScreen {
				seen = true
				break
			}
			if d := describe(ev); d != "" {
				got = append(got, d)
			}
		default:
			// Virtual time: let the 10 ms deadlines (lone-ESC disambiguation, the OSC 52
			// hand-off) pass once nothing else can run. The worker runs with GOMAXPROCS=1:
			// after a few yields without any event every library goroutine is blocked, so
			// firing now is "silence", never a timer racing a runnable parser.
			spins++
			if spins >= 3 {
				vtime.FireWhere(func(d vtime.Duration, isFunc bool) bool { return isFunc && d == 10*vtime.Millisecond })
				spins = 0
			}
			runtime.Gosched()
			continue
		}
		spins = 0
	}
	if closer != "" {
		s.Barrier()
	}
	bad := func(clause, why string) {
		kinds := map[string]bool{}
		for _, i := range seq {
			if its[i].garbage {
				kinds["malformed"] = true
			} else if len(its[i].want) == 0 {
				kinds["reply"] = true
			} else {
				kinds["input"] = true
			}
		}
		var ks []string
		for _, k := range []string{"input", "reply", "malformed"} {
			if kinds[k] {
				ks = append(ks, k)
			}
		}
		r.Violation("C03|"+clause+"|"+strings.Join(ks, "+"), len(seq)*1000+seq[0], detail{Profile: ps.name, Items: names, Bytes: fmt.Sprintf("%q", bytes.String()), Got: got, Want: want, Why: why})
	}
	if !garbage {
		if strings.Join(got, "|") != strings.Join(want, "|") {
			bad("events", "the user-input events delivered differ from the user-input reports in the stream")
			return
		}
	} else {
		// well-formed items' events must appear in order; nothing but key events may be extra
		j := 0
		for _, g := range got {
			if j < len(want) && g == want[j] {
				j++
				continue
			}
			if !strings.HasPrefix(g, "key:") && !strings.HasPrefix(g, "pasted-key:") {
				bad("events", fmt.Sprintf("unexpected %s event next to a malformed report", strings.SplitN(g, ":", 2)[0]))
				return
			}
		}
		if j != len(want) {
			bad("events", "a well-formed report next to a malformed one lost its event")
			return
		}
	}
	r.Distinct(explore.Hash(ps.name, fmt.Sprint(seq)))
}

// startupSweep: the replies to the start-up queries establish exactly the capabilities they report.
func startupSweep(idx, n int) {
	k := 0
	for caps := refterm.Cap(0); caps < 1<<refterm.NumGatingCaps; caps++ {
		for v := 0; v < 6; v++ {
			k++
			if k%n != idx {
				continue
			}
			absent := []int{0, 3, 4}[v%3]
			prof := refterm.DefaultProfile(caps|refterm.CapOSC4|refterm.CapSizeReports, refterm.VersionOther)
			prof.AbsentModeReply = absent
			prof.TcapNameOnly = v >= 3
			s, err := session.Open(prof, 10, 10, vaxis.Options{})
			if err != nil {
				r.Fault("open: %v", err)
			}
			got := s.Vx.VerifCaps()
			want := map[string]bool{
				"synchronizedUpdate": prof.Has(refterm.CapSync), "unicodeCore": prof.Has(refterm.CapUnicodeCore), "colorThemeUpdates": prof.Has(refterm.CapColorScheme),
				"rgb": prof.Has(refterm.CapRGB), "kittyKeyboard": prof.Has(refterm.CapKittyKB), "styledUnderlines": prof.Has(refterm.CapStyledUL), "sixels": prof.Has(refterm.CapSixelAny),
				"osc176": prof.Has(refterm.CapOSC176), "explicitWidth": prof.Has(refterm.CapExplicitWidth), "osc4": true, "osc10": false, "osc11": false, "kittyGraphics": false,
				"reportSizeChars": true, "reportSizePixels": true,
			}
			r.Count("startups", 1)
			ok := true
			for _, name := range []string{"synchronizedUpdate", "unicodeCore", "colorThemeUpdates", "rgb", "kittyKeyboard", "styledUnderlines", "sixels", "osc176", "explicitWidth", "osc4", "osc10", "osc11", "kittyGraphics", "reportSizeChars", "reportSizePixels"} {
				if got[name] != want[name] {
					ok = false
					r.Violation("C03|startup-reply|"+name, k, detail{Profile: prof.String(), Why: fmt.Sprintf("after start-up the capability %s is %v, the terminal's replies report %v", name, got[name], want[name])})
					break
				}
			}
			s.Vx.Close()
			if ok {
				r.Distinct(explore.Hash("startup", fmt.Sprint(caps, v)))
			}
		}
	}
}

func main() {
	r = explore.Start("C03")
	its := items()
	if r.Replay != "" {
		r.ReplayBySearch()
	}
	if idx, n, arg, ok := r.Worker(); ok {
		r.Watchdog(30 * time.Second)
		if arg == "startup" {
			startupSweep(idx, n)
			r.WorkerDone()
		}
		skip := r.Skip()
		var danger []int
		for i, it := range its {
			if it.danger {
				danger = append(danger, i)
			}
		}
		// the case list of this shard (deterministic order)
		type cs struct {
			prof int
			seq  []int
		}
		var cases []cs
		k := 0
		add := func(p int, seq []int) {
			k++
			if k%n == idx {
				cases = append(cases, cs{p, append([]int{}, seq...)})
			}
		}
		for p := range profiles() {
			for a := range its {
				add(p, []int{a})
				for b := range its {
					add(p, []int{a, b})
				}
			}
			depth := r.Pick(3, 4)
			var rec func(seq []int)
			rec = func(seq []int) {
				if len(seq) >= 3 {
					add(p, seq)
				}
				if len(seq) == depth {
					return
				}
				for _, d := range danger {
					rec(append(seq, d))
				}
			}
			if p != 0 || r.Thorough() {
				rec(nil)
			}
		}
		var s *session.Session
		cur := -1
		for ci, c := range cases {
			if ci < skip {
				continue
			}
			if s == nil || cur != c.prof || ci%500 == 0 {
				if s != nil {
					s.Vx.Close()
				}
				var err error
				s, err = session.Open(refterm.DefaultProfile(profiles()[c.prof].caps, refterm.VersionOther), 10, 10, vaxis.Options{EventQueueSize: profiles()[c.prof].queue})
				if err != nil {
					r.Fault("open: %v", err)
				}
				cur = c.prof
			}
			var names []string
			for _, i := range c.seq {
				names = append(names, its[i].name)
			}
			desc := profiles()[c.prof].name + ": " + strings.Join(names, " ; ")
			r.Progress(ci, desc)
			r.Beat(func() (string, any) {
				return "C03|wedged|" + kindsOf(its, c.seq), detail{Profile: profiles()[c.prof].name, Items: names, Why: "the sentinel key injected after these reports was never delivered: the input loop stopped consuming input"}
			})
			runCase(profiles()[c.prof], s, its, c.seq)
		}
		if idx == 0 {
			r.Sample(map[string]any{"profile": "all", "items": []string{"size chars", "size chars", "press left"}, "bytes": "\x1b[8;2;3t\x1b[8;2;3t\x1b[<0;3;2M"})
		}
		r.WorkerDone()
	}
	r.SpawnTolerant(16, "sweep", func(desc, tail string) {
		site := "unknown"
		for _, l := range strings.Split(tail, "\n") {
			if strings.Contains(l, "rockorager/vaxis") && strings.Contains(l, "(") && !strings.Contains(l, "verifshim") && !strings.Contains(l, "Close") && !strings.Contains(l, "openTty") {
				site = strings.TrimSpace(strings.SplitN(l, "(", 2)[0])
				if i := strings.LastIndex(site, "/"); i >= 0 {
					site = site[i+1:]
				}
				break
			}
		}
		r.Violation("C03|crash|"+site, 0, detail{Items: []string{desc}, Why: "the process died: " + firstLine(tail)})
	})
	r.Spawn(16, "startup", 0)
	n := r.Get("cases") + r.Get("startups")
	r.Finish(explore.Coverage{
		States: -1, Transitions: n, Traces: n, Evaluations: n,
		Rule:       fmt.Sprintf("every sequence of 1 and 2 items from an alphabet of %d terminal reports (legacy/kitty keys, SGR mouse with every modifier, focus, paste brackets, every reply Vaxis parses, and %d truncated/malformed variants), and every sequence of 3 (thorough: 4) items from the wedge-prone subset, injected after start-up through a fake console under 3 capability profiles plus one with an event queue of 2 and a consumer that lets the producers run until they block, each followed by a sentinel key; the user-input events read from Events() must be exactly those of the user-input reports, in order, with pasted keys marked; replies produce no user-input event; the sentinel must arrive (virtual 10 ms deadlines are fired whenever the reader is idle); a dying worker is turned into a crash violation and the shard resumes. Start-up replies: every subset of the 12 gating capabilities x the DECRPM status (0, 3 or 4) a terminal gives for a mode it does not implement x the two forms of a positive XTGETTCAP answer (name=value, name only): the capability set New ends with must be exactly the one the replies report. distinct = sequences that passed", len(its), countGarbage(its)),
		Exhaustive: true,
		Bounds:     map[string]any{"alphabet": len(its), "deep_depth": r.Pick(3, 4)},
		Assumptions: []string{"internal marker events of unexported types that a late reply posts to the application's queue are not user-input events",
			"next to a malformed report only liveness, order of the well-formed neighbours' events and the absence of spurious mouse/focus/paste events are required"},
	})
}

func kindsOf(its []item, seq []int) string {
	g := false
	for _, i := range seq {
		g = g || its[i].garbage
	}
	if g {
		return "with-malformed"
	}
	return "well-formed"
}

func countGarbage(its []item) int {
	n := 0
	for _, it := range its {
		if it.garbage {
			n++
		}
	}
	return n
}

func firstLine(s string) string {
	for _, l := range strings.Split(s, "\n") {
		if strings.HasPrefix(l, "panic:") || strings.HasPrefix(l, "fatal error:") {
			return l
		}
	}
	if len(s) > 200 {
		return s[:200]
	}
	return s
}
