// C16 – soft-wrapping preserves the text and respects the width.
// Bounded-exhaustive: every string up to length n over a 9-symbol alphabet x
// every width 0..9, through the real plain/rich/hard-wrap scanners and the real
// Text/RichText Draw.
package main

import (
	"fmt"
	"strings"
	"time"
	"unicode"
	"unicode/utf8"

	"git.sr.ht/~rockorager/vaxis"
	"git.sr.ht/~rockorager/vaxis/vxfw"
	"git.sr.ht/~rockorager/vaxis/vxfw/richtext"
	"git.sr.ht/~rockorager/vaxis/vxfw/text"
	"github.com/rivo/uniseg"
	"verif.local/mc/explore"
)

var alphabet = []string{"a", "b", " ", "-", "\n", "\r\n", "世", "é", "\t"}
var alphaName = []string{"a", "b", "SP", "-", "LF", "CRLF", "世", "é", "TAB"}

const maxWidth = 9

type detail struct {
	Input string   `json:"input"`
	Width int      `json:"width"`
	Kind  string   `json:"scanner"`
	Lines []string `json:"lines,omitempty"`
	Why   string   `json:"why"`
}

func ctx(w, h uint16) vxfw.DrawContext {
	return vxfw.DrawContext{Max: vxfw.Size{Width: w, Height: h}, Characters: vaxis.Characters}
}

func isSpaceG(g string) bool {
	for _, r := range g {
		if !unicode.IsSpace(r) {
			return false
		}
	}
	return true
}

func isLetterG(g string) bool {
	r, _ := utf8.DecodeRuneInString(g)
	return unicode.IsLetter(r) && !unicode.Is(unicode.Han, r)
}

func hardBreakG(g string) bool { return g == "\n" || g == "\r\n" }

type gr struct {
	g     string
	w     int
	style int
}

// graphemes of a string, TAB kept as one grapheme of width 8 (as Characters expands it)
func graphemes(s string) []gr {
	var out []gr
	state := -1
	for s != "" {
		var c string
		var w int
		c, s, w, state = uniseg.FirstGraphemeClusterInString(s, state)
		if c == "\t" {
			w = 8
		}
		out = append(out, gr{g: c, w: w})
	}
	return out
}

// checkLines evaluates the scanner clauses. in: input graphemes (TAB expanded to
// 8 spaces, as the library's Characters does); lines: emitted lines as graphemes.
func checkLines(in []gr, lines [][]gr, width int, styled bool) string {
	// clause: width of each line ignoring trailing whitespace
	for i, ln := range lines {
		end := len(ln)
		for end > 0 && isSpaceG(ln[end-1].g) {
			end--
		}
		w, nonws, wsw := 0, 0, 0
		for _, g := range ln[:end] {
			w += g.w
			if isSpaceG(g.g) {
				wsw += g.w // a line terminator carried at the start of a line has width 0
			} else {
				nonws++
			}
		}
		if w > width && !(nonws == 1 && wsw == 0) {
			return fmt.Sprintf("overwide|line %d has width %d > %d with %d graphemes", i, w, width, end)
		}
	}
	// clause: content preservation (non-whitespace graphemes, in order, with styles)
	type pos struct{ line, idx int }
	var flat []gr
	var where []pos
	for li, ln := range lines {
		for gi, g := range ln {
			if !isSpaceG(g.g) {
				flat = append(flat, g)
				where = append(where, pos{li, gi})
			}
		}
	}
	var inNW []int
	for i, g := range in {
		if !isSpaceG(g.g) {
			inNW = append(inNW, i)
		}
	}
	if len(flat) != len(inNW) {
		return fmt.Sprintf("content|%d non-whitespace graphemes in, %d out", len(inNW), len(flat))
	}
	for k, i := range inNW {
		if in[i].g != flat[k].g {
			return fmt.Sprintf("content|grapheme %d is %q, input has %q", k, flat[k].g, in[i].g)
		}
		if styled && in[i].style != flat[k].style {
			return fmt.Sprintf("style|grapheme %d changed style", k)
		}
	}
	// clauses on neighbours: hard break separates; no split inside a fitting run of letters
	for k := 0; k+1 < len(inNW); k++ {
		a, b := inNW[k], inNW[k+1]
		hard := false
		for j := a + 1; j < b; j++ {
			if hardBreakG(in[j].g) {
				hard = true
			}
		}
		sameLine := where[k].line == where[k+1].line
		if hard && sameLine {
			return "hardbreak|graphemes separated by a hard break share a line"
		}
		if b == a+1 && !sameLine && isLetterG(in[a].g) && isLetterG(in[b].g) {
			// the run containing a,b
			s, e := a, b
			for s > 0 && isLetterG(in[s-1].g) {
				s--
			}
			for e+1 < len(in) && isLetterG(in[e+1].g) {
				e++
			}
			// UAX #14 forbids a break before a hyphen: the unbreakable unit is
			// the run of letters plus what is attached to it (hyphens; TAB is class BA)
			for e+1 < len(in) && (in[e+1].g == "-" || in[e+1].g == "\t") {
				e++
			}
			rw := 0
			for j := s; j <= e; j++ {
				rw += in[j].w
			}
			if rw <= width {
				return fmt.Sprintf("split|run of letters of width %d split at width %d", rw, width)
			}
		}
	}
	// every hard break ends a line: at least breaks+1 lines unless the text ends with the break
	breaks := 0
	for _, g := range in {
		if hardBreakG(g.g) {
			breaks++
		}
	}
	want := breaks
	if len(in) > 0 && !hardBreakG(in[len(in)-1].g) {
		want++
	}
	if len(lines) < want {
		return fmt.Sprintf("hardbreak|%d hard breaks but only %d lines", breaks, len(lines))
	}
	return ""
}

func lineStrings(lines [][]gr) []string {
	var out []string
	for _, l := range lines {
		var sb strings.Builder
		for _, g := range l {
			sb.WriteString(g.g)
		}
		out = append(out, sb.String())
	}
	return out
}

func sigOf(kind, why string) string {
	clause := why
	if i := strings.Index(why, "|"); i >= 0 {
		clause = why[:i]
	}
	return "C16|" + kind + "|" + clause
}

var r *explore.Run

func report(kind, input string, width int, lines [][]gr, why string) {
	r.Violation(sigOf(kind, why), len(input)*16+width, detail{Input: input, Width: width, Kind: kind, Lines: lineStrings(lines), Why: why})
}

// a panic inside a scanner or a widget is a violation like any other, not the end of the worker
func plainCase(s string, width int) {
	if p, site, msg := explore.Guard(func() { plainCase1(s, width) }); p {
		report("plain", s, width, nil, "panic|"+site+": "+msg)
	}
}

func richCase(s string, width int, pattern uint) {
	if p, site, msg := explore.Guard(func() { richCase1(s, width, pattern) }); p {
		report("rich", s, width, nil, "panic|"+site+": "+msg)
	}
}

func plainCase1(s string, width int) {
	in := graphemes(s)
	sc := text.NewSoftwrapScanner(s, uint16(width))
	c := ctx(uint16(width), 65535)
	var lines [][]gr
	limit := 2*len(s) + 2
	n := 0
	for sc.Scan(c) {
		n++
		if n > limit {
			report("plain", s, width, lines, fmt.Sprintf("termination|Scan still true after %d calls", n))
			return
		}
		lines = append(lines, graphemes(sc.Text()))
	}
	r.Count("plain_scans", int64(n))
	if width == 0 {
		return
	}
	if why := checkLines(in, lines, width, false); why != "" {
		report("plain", s, width, lines, why)
		return
	}
	r.Distinct(explore.Hash("p", fmt.Sprint(width), strings.Join(lineStrings(lines), "\x00")))
	// widget rows == scanner lines
	// one widget instance for all frames, and an earlier frame at another width: whatever the widget
	// remembers between frames must not show in the next one
	t := text.New(s)
	t.Draw(ctx(uint16(width)+1, 65535))
	for _, h := range []uint16{65535, 1, 2, 65535} {
		surf, err := t.Draw(ctx(uint16(width), h))
		if err != nil {
			report("text.Draw", s, width, lines, "draw|error "+err.Error())
			return
		}
		if why := checkSurface(surf, lines, width, int(h), func(g gr) vaxis.Style { return vaxis.Style{} }); why != "" {
			report("text.Draw", s, width, lines, why)
			return
		}
		r.Count("draws", 1)
	}
}

// checkSurface: row i of the surface shows line i (trailing whitespace may be clipped).
func checkSurface(s vxfw.Surface, lines [][]gr, width, maxH int, style func(gr) vaxis.Style) string {
	if len(s.Buffer) != int(s.Size.Width)*int(s.Size.Height) {
		return "" // surface addressing is C14's business
	}
	rows := int(s.Size.Height)
	if maxH == 65535 && rows != len(lines) {
		return fmt.Sprintf("rows|%d lines but surface has %d rows", len(lines), rows)
	}
	for row := 0; row < rows && row < len(lines); row++ {
		ln := lines[row]
		end := len(ln)
		for end > 0 && isSpaceG(ln[end-1].g) {
			end--
		}
		col := 0
		lead := map[int]bool{}
		for _, g := range ln[:end] {
			if isSpaceG(g.g) {
				// whitespace inside a line only advances the column
				col += g.w
				continue
			}
			if col >= int(s.Size.Width) {
				return fmt.Sprintf("rows|row %d: grapheme %q does not fit in the surface", row, g.g)
			}
			cell := s.Buffer[row*int(s.Size.Width)+col]
			if cell.Grapheme != g.g {
				return fmt.Sprintf("rows|row %d col %d shows %q, line has %q", row, col, cell.Grapheme, g.g)
			}
			if cell.Style != style(g) {
				return fmt.Sprintf("rows|row %d col %d has the wrong style", row, col)
			}
			lead[col] = true
			col += g.w
		}
		// exactly the line: every other cell of the row (whitespace, the second column of a wide grapheme, the rest of
		// the row) is empty or whitespace - nothing of an earlier frame, nothing of another line
		for c := 0; c < int(s.Size.Width); c++ {
			if lead[c] {
				continue
			}
			if g := s.Buffer[row*int(s.Size.Width)+c].Grapheme; g != "" && !isSpaceG(g) {
				return fmt.Sprintf("rows|row %d col %d shows %q where the line %q has nothing", row, c, g, lineStrings([][]gr{ln})[0])
			}
		}
	}
	return ""
}

var styles = []vaxis.Style{{}, {Attribute: vaxis.AttrBold}}

// the RichText widget measures with ctx.Characters, which expands TAB to 8 spaces
func graphemesExpanded(s string) []gr {
	var out []gr
	for _, c := range vaxis.Characters(s) {
		out = append(out, gr{g: c.Grapheme, w: c.Width})
	}
	return out
}

func richCase1(s string, width int, pattern uint) {
	in := graphemesExpanded(s)
	cells := make([]vaxis.Cell, len(in))
	for i := range in {
		in[i].style = int(pattern>>uint(i)) & 1
		cells[i] = vaxis.Cell{Character: vaxis.Character{Grapheme: in[i].g, Width: in[i].w}, Style: styles[in[i].style]}
	}
	conv := func(cs []vaxis.Cell) []gr {
		out := make([]gr, len(cs))
		for i, c := range cs {
			st := 0
			if c.Style == styles[1] {
				st = 1
			}
			out[i] = gr{g: c.Grapheme, w: c.Width, style: st}
		}
		return out
	}
	orig := append([]vaxis.Cell(nil), cells...)
	sc := richtext.NewSoftwrapScanner(cells, uint16(width))
	var lines [][]gr
	limit := 2*len(s) + 2
	n := 0
	for sc.Scan() {
		n++
		if n > limit {
			report("rich", s, width, lines, fmt.Sprintf("termination|Scan still true after %d calls", n))
			return
		}
		lines = append(lines, conv(sc.Text()))
	}
	r.Count("rich_scans", int64(n))
	for i := range orig {
		if orig[i] != cells[i] {
			report("rich", s, width, lines, "content|scanner modified the caller's cells")
			return
		}
	}
	if width > 0 {
		if why := checkLines(in, lines, width, true); why != "" {
			report("rich", s, width, lines, why)
			return
		}
		r.Distinct(explore.Hash("r", fmt.Sprint(width, pattern), strings.Join(lineStrings(lines), "\x00")))
	}
	// hard-wrap scanner: lines are the cells between LF cells
	hs := richtext.NewHardwrapScanner(cells)
	var hl [][]gr
	n = 0
	for hs.Scan() {
		n++
		if n > limit {
			report("hardwrap", s, width, hl, "termination|Scan still true")
			return
		}
		hl = append(hl, conv(hs.Line()))
	}
	if width == 1 { // width-independent: check once
		var want [][]gr
		cur := []gr{}
		for i, g := range in {
			if g.g == "\n" {
				want = append(want, cur)
				cur = []gr{}
				if i == len(in)-1 {
					cur = nil
				}
				continue
			}
			cur = append(cur, g)
		}
		if cur != nil && len(in) > 0 {
			want = append(want, cur)
		}
		if fmt.Sprint(want) != fmt.Sprint(hl) {
			report("hardwrap", s, 0, hl, fmt.Sprintf("content|hard-wrap lines differ from the text split at LF (want %d lines)", len(want)))
			return
		}
	}
	if width == 0 {
		return
	}
	// RichText.Draw rows == scanner lines
	if pattern == 0 || pattern == 0x55 {
		var segs []vaxis.Segment
		for _, g := range in {
			segs = append(segs, vaxis.Segment{Text: g.g, Style: styles[g.style]})
		}
		rt := richtext.New(segs)
		rt.Draw(ctx(uint16(width)+1, 65535))
		for _, h := range []uint16{65535, 1, 65535} {
			surf, err := rt.Draw(ctx(uint16(width), h))
			if err != nil {
				report("richtext.Draw", s, width, lines, "draw|error")
				return
			}
			// segments are measured one by one: a TAB segment becomes 8 space cells
			if strings.Contains(s, "\t") {
				continue
			}
			if why := checkSurface(surf, lines, width, int(h), func(g gr) vaxis.Style { return styles[g.style] }); why != "" {
				report("richtext.Draw", s, width, lines, why)
				return
			}
			r.Count("draws", 1)
		}
		// the application restyles the segments in place (same slice) and draws the same widget again
		if !strings.Contains(s, "\t") {
			for i := range rt.Content {
				rt.Content[i].Style = styles[(in[i].style+1)%len(styles)]
			}
			surf, err := rt.Draw(ctx(uint16(width), 65535))
			if err != nil {
				report("richtext.Draw", s, width, lines, "draw|error")
				return
			}
			if why := checkSurface(surf, lines, width, 65535, func(g gr) vaxis.Style { return styles[(g.style+1)%len(styles)] }); why != "" {
				report("richtext.Draw", s, width, lines, "after-restyling-in-place|"+why)
				return
			}
			r.Count("draws", 1)
		}
	}
}

func main() {
	r = explore.Start("C16")
	maxLen := r.Pick(5, 7)
	if r.Replay != "" {
		var d detail
		sig := r.LoadReplay(&d)
		fmt.Printf("replaying %s: input=%q width=%d scanner=%s\n", sig, d.Input, d.Width, d.Kind)
		plainCase(d.Input, d.Width)
		for p := uint(0); p < 1<<uint(len(graphemes(d.Input))); p++ {
			richCase(d.Input, d.Width, p)
		}
		r.Finish(explore.Coverage{States: 1, Transitions: 1, Traces: 1, Evaluations: 1, Rule: "replay"})
	}
	if idx, n, _, ok := r.Worker(); ok {
		r.Watchdog(30 * time.Second)
		total := 0
		// enumerate strings simplest-first: by length, then lexicographic in alphabet order
		for l := 0; l <= maxLen; l++ {
			cnt := 1
			for i := 0; i < l; i++ {
				cnt *= len(alphabet)
			}
			for k := 0; k < cnt; k++ {
				total++
				if total%n != idx {
					continue
				}
				var sb strings.Builder
				x := k
				for i := 0; i < l; i++ {
					sb.WriteString(alphabet[x%len(alphabet)])
					x /= len(alphabet)
				}
				s := sb.String()
				ng := len(graphemes(s))
				for w := 0; w <= maxWidth; w++ {
					cur := fmt.Sprintf("%q@%d", s, w)
					r.Beat(func() (string, any) {
						return "C16|any|termination", detail{Input: s, Width: w, Why: "termination|no progress for 30 s in " + cur}
					})
					plainCase(s, w)
					r.Count("cases", 1)
					// rich: all 2-colourings for short strings, 3 patterns beyond
					if ng <= 4 {
						for p := uint(0); p < 1<<uint(ng); p++ {
							richCase(s, w, p)
							r.Count("cases", 1)
						}
					} else {
						for _, p := range []uint{0, 0x55, 0x33} {
							richCase(s, w, p)
							r.Count("cases", 1)
						}
					}
				}
				if total%50000 == idx {
					r.Sample(map[string]any{"input": s, "widths": "0..9"})
				}
			}
		}
		r.WorkerDone()
	}
	r.Spawn(16, "enum", 0)
	cases := r.Get("cases")
	r.Finish(explore.Coverage{
		States:      -1,
		Transitions: r.Get("plain_scans") + r.Get("rich_scans"),
		Traces:      cases,
		Evaluations: cases,
		Rule:        "every string of <= n symbols over {a,b,SP,-,LF,CRLF,世,e+U+0301,TAB} x width 0..9, plain scanner + Text.Draw at heights {unbounded,1,2,unbounded} on one widget instance that was first drawn at width+1; rich scanner with every 2-colouring (<=4 graphemes) or 3 colour patterns, hard-wrap scanner, RichText.Draw (one instance, first drawn at width+1, finally redrawn after its segments were restyled in place); distinct = distinct (width, emitted line list) outcomes that passed all clauses",
		Exhaustive:  true,
		Bounds:      map[string]any{"max_len_symbols": maxLen, "alphabet": alphaName, "widths": "0..9"},
		Assumptions: []string{"grapheme widths are those of uniseg (vaxis.Characters)", "letters = alphabetic non-ideographic graphemes; a break between ideographs is legitimate (UAX #14)"},
	})
}
