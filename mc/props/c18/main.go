// C18 – styled-text codecs round-trip and all SGR producers and consumers agree.
// Exhaustive over ordered pairs (thorough: triples over a reduced domain) of
// styled cells; three producers (renderer, EncodeCells, StyledString.Encode) x
// four consumers (ParseStyledString, NewStyledString, embedded terminal,
// reference terminal); plus every short SGR parameter list for the no-panic clause.
package main

import (
	"fmt"
	"os"
	"strings"
	"time"

	"git.sr.ht/~rockorager/vaxis"
	"git.sr.ht/~rockorager/vaxis/ansi"
	"git.sr.ht/~rockorager/vaxis/widgets/term"
	"verif.local/mc/emucon"
	"verif.local/mc/explore"
	"verif.local/mc/refterm"
	"verif.local/mc/session"
)

var r *explore.Run

type detail struct {
	Part    string `json:"part"`
	Cells   string `json:"cells,omitempty"`
	Encoded string `json:"encoded,omitempty"`
	Why     string `json:"why"`
}

var host *session.Session

func allCaps() refterm.Profile {
	return refterm.DefaultProfile(refterm.CapRGB|refterm.CapSmulx|refterm.CapUnicodeCore, refterm.VersionOther)
}

func styleStr(s vaxis.Style) string {
	return fmt.Sprintf("{fg=%v bg=%v ul=%v/%d attr=%07b link=%q}", s.Foreground.Params(), s.Background.Params(), s.UnderlineColor.Params(), s.UnderlineStyle, s.Attribute>>1, s.Hyperlink)
}

func noLink(s vaxis.Style) vaxis.Style {
	s.Hyperlink, s.HyperlinkParams = "", ""
	return s
}

// ---- consumers -------------------------------------------------------------------------------

type consumed struct {
	name   string
	styles []vaxis.Style // style of each printed grapheme, hyperlink dropped
	texts  []string
	err    string
}

func viaParse(s string) consumed {
	c := consumed{name: "ParseStyledString"}
	if p, site, msg := explore.Guard(func() {
		for _, cell := range vaxis.ParseStyledString(s) {
			c.styles = append(c.styles, noLink(cell.Style))
			c.texts = append(c.texts, cell.Grapheme)
		}
	}); p {
		c.err = "panic in " + site + ": " + msg
	}
	return c
}

func viaNew(s string) consumed {
	c := consumed{name: "NewStyledString"}
	if p, site, msg := explore.Guard(func() {
		for _, cell := range host.Vx.NewStyledString(s, vaxis.Style{}).Cells {
			c.styles = append(c.styles, noLink(cell.Style))
			c.texts = append(c.texts, cell.Grapheme)
		}
	}); p {
		c.err = "panic in " + site + ": " + msg
	}
	return c
}

func fromRef(st refterm.Style) vaxis.Style {
	conv := func(c refterm.Color) vaxis.Color {
		switch c.Kind {
		case 1:
			return vaxis.IndexColor(uint8(c.V))
		case 2:
			return vaxis.RGBColor(uint8(c.V>>16), uint8(c.V>>8), uint8(c.V))
		}
		return 0
	}
	return vaxis.Style{Foreground: conv(st.Fg), Background: conv(st.Bg), UnderlineColor: conv(st.Ul), UnderlineStyle: vaxis.UnderlineStyle(st.UlStyle), Attribute: vaxis.AttributeMask(st.Attr) << 1}
}

func viaEmulator(s string, n int) consumed {
	c := consumed{name: "embedded terminal"}
	m := term.VerifNew(nil, n+2, 1)
	if p, site, msg := explore.Guard(func() {
		parser := ansi.NewParser(strings.NewReader(s))
		for seq := range parser.Next() {
			if _, ok := seq.(ansi.EOF); ok {
				break
			}
			m.VerifFeed(seq)
		}
	}); p {
		c.err = "panic in " + site + ": " + msg
		return c
	}
	snap := m.VerifSnapshot()
	v := emucon.View{S: snap}
	for _, cell := range v.Grid()[0] {
		if cell.Text == "" || cell.Width == 0 {
			continue
		}
		st := fromRef(cell.Style)
		c.styles = append(c.styles, st)
		c.texts = append(c.texts, cell.Text)
	}
	pen := snap.Pen
	pen.Hyperlink, pen.HyperlinkParams = "", ""
	c.styles = append(c.styles, pen) // the pen at the end, for the "left reset" comparison
	return c
}

func viaRefterm(s string, n int) (consumed, refterm.Style) {
	c := consumed{name: "reference terminal"}
	t := refterm.New(n+2, 1, allCaps())
	t.Write([]byte(s))
	for _, cell := range t.Grid()[0] {
		if cell.Text == "" || cell.Width == 0 {
			continue
		}
		c.styles = append(c.styles, fromRef(cell.Style))
		c.texts = append(c.texts, cell.Text)
	}
	return c, t.Pen()
}

// ---- producers -----------------------------------------------------------------------------------

func encodeRenderer(cells []vaxis.Cell) string {
	// render the cells on a fresh row of the host and keep only SGR sequences and text
	win := host.Vx.Window()
	win.Clear()
	for i, c := range cells {
		win.SetCell(i, 0, c)
	}
	host.Con.With(func(t *refterm.Terminal) {})
	host.Con.Record = true
	host.Con.Writes = nil
	host.Vx.Refresh()
	host.Con.Record = false
	var raw []byte
	for _, w := range host.Con.Writes {
		raw = append(raw, w...)
	}
	// keep CSI ... m and printable text of the first row only (up to the first CUP to row 2)
	s := string(raw)
	if i := strings.Index(s, "\x1b[2;1H"); i >= 0 {
		s = s[:i]
	}
	var out strings.Builder
	for i := 0; i < len(s); {
		if s[i] == 0x1b {
			j := i + 1
			if j < len(s) && s[j] == '[' {
				j++
				for j < len(s) && (s[j] < 0x40 || s[j] > 0x7e) {
					j++
				}
				if j < len(s) && s[j] == 'm' {
					out.WriteString(s[i : j+1])
				}
				i = j + 1
				continue
			}
			if j < len(s) && s[j] == ']' { // OSC ... ST
				k := strings.Index(s[j:], "\x1b\\")
				if k < 0 {
					break
				}
				i = j + k + 2
				continue
			}
			i = j + 1
			continue
		}
		if s[i] >= 0x20 {
			out.WriteByte(s[i])
		}
		i++
	}
	return strings.TrimRight(out.String(), " ")
}

// ---- the sweep -------------------------------------------------------------------------------------

func colorClasses() []vaxis.Color {
	return []vaxis.Color{0, vaxis.IndexColor(3), vaxis.IndexColor(12), vaxis.IndexColor(200), vaxis.RGBColor(0x12, 0xaf, 0x00)}
}

func styleDomain() (attrs []vaxis.Style, cols []vaxis.Style, uls []vaxis.Style) {
	for a := 0; a < 128; a++ {
		attrs = append(attrs, vaxis.Style{Attribute: vaxis.AttributeMask(a << 1)})
	}
	cc := colorClasses()
	for _, fg := range cc {
		for _, bg := range cc {
			for _, ul := range cc {
				cols = append(cols, vaxis.Style{Foreground: fg, Background: bg, UnderlineColor: ul, UnderlineStyle: vaxis.UnderlineSingle})
			}
		}
	}
	for u := 0; u < 6; u++ {
		uls = append(uls, vaxis.Style{UnderlineStyle: vaxis.UnderlineStyle(u)})
		uls = append(uls, vaxis.Style{UnderlineStyle: vaxis.UnderlineStyle(u), UnderlineColor: vaxis.IndexColor(5)})
	}
	return
}

// emptyAt >= 0 makes that cell of the next checkSeq call one without a grapheme (the zero Cell, the second half
// of a wide character): it is encoded like any other cell but prints nothing, so it does not come back
var emptyAt = -1

func legacyTag(producer string) string {
	if legacyMode {
		return "|legacy-sgr|from=" + producer
	}
	return ""
}

// legacyMode: this worker runs with VAXIS_FORCE_LEGACY_SGR set (violations carry the tag)
var legacyMode bool

func checkSeq(styles []vaxis.Style, withRenderer bool) {
	all := make([]vaxis.Cell, len(styles))
	var cells []vaxis.Cell // the cells that print something
	var desc []string
	for i, st := range styles {
		all[i] = vaxis.Cell{Character: vaxis.Character{Grapheme: string(rune('x' + i)), Width: 1}, Style: st}
		if i == emptyAt {
			all[i].Character = vaxis.Character{}
			desc = append(desc, "(no grapheme)"+styleStr(st))
			continue
		}
		cells = append(cells, all[i])
		desc = append(desc, styleStr(st))
	}
	cellsDesc := strings.Join(desc, " ")
	cost := 0
	for _, st := range styles {
		cost += int(st.Attribute) + len(st.Foreground.Params())*1000
	}
	type prod struct {
		name string
		s    string
	}
	prods := []prod{{"EncodeCells", vaxis.EncodeCells(all)}, {"StyledString.Encode", (&vaxis.StyledString{Cells: all}).Encode()}}
	if len(all) > 1 {
		// a StyledString that was encoded before and whose cells were then edited in place (same length, same
		// backing array): Encode speaks for the cells it holds now
		reused := &vaxis.StyledString{Cells: make([]vaxis.Cell, len(all))}
		for i := range all {
			reused.Cells[i] = all[len(all)-1-i]
		}
		_ = reused.Encode()
		copy(reused.Cells, all)
		prods = append(prods, prod{"StyledString.Encode(reused object)", reused.Encode()})
	}
	if withRenderer {
		prods = append(prods, prod{"renderer", encodeRenderer(all)})
	}
	for _, p := range prods {
		r.Count("encodings", 1)
		bad := func(clause, why string) {
			if legacyMode {
				clause += "|legacy-sgr"
			}
			r.Violation("C18|"+clause+"|"+p.name, cost, detail{Part: p.name, Cells: cellsDesc, Encoded: fmt.Sprintf("%q", p.s), Why: why})
		}
		ref, pen := viaRefterm(p.s, len(cells))
		// the reference terminal must show exactly the cells (this is what the string means)
		if len(ref.styles) != len(cells) {
			bad("meaning", fmt.Sprintf("the reference terminal shows %d cells for %d encoded", len(ref.styles), len(cells)))
			continue
		}
		okRef := true
		for i := range cells {
			if ref.styles[i] != noLink(cells[i].Style) {
				bad("meaning", fmt.Sprintf("cell %d: a terminal shows %s, the cell has %s", i, styleStr(ref.styles[i]), styleStr(noLink(cells[i].Style))))
				okRef = false
				break
			}
		}
		if !okRef {
			continue
		}
		if p.name != "renderer" && pen.Link != "" {
			bad("not-reset|hyperlink", "the hyperlink is still open at the end of the encoded string: "+pen.String())
			continue
		}
		if p.name != "renderer" && (pen != refterm.Style{}) {
			bad("not-reset", "styles are not reset at the end of the encoded string: "+pen.String())
			continue
		}
		cons := []consumed{viaParse(p.s), viaEmulator(p.s, len(cells))}
		linked := false
		for _, c := range cells {
			linked = linked || c.Hyperlink != ""
		}
		if !linked {
			// NewStyledString has no OSC 8 handling by design: strings with hyperlinks are not its input
			cons = append(cons, viaNew(p.s))
		}
		for _, c := range cons {
			if c.err != "" {
				r.Violation("C18|panic|"+c.name, cost, detail{Part: p.name + " -> " + c.name, Cells: cellsDesc, Encoded: fmt.Sprintf("%q", p.s), Why: c.err})
				continue
			}
			if len(c.styles) < len(cells) {
				r.Violation("C18|round-trip|"+c.name+"|count"+legacyTag(p.name), cost, detail{Part: p.name + " -> " + c.name, Cells: cellsDesc, Encoded: fmt.Sprintf("%q", p.s), Why: fmt.Sprintf("%d cells back for %d encoded", len(c.styles), len(cells))})
				continue
			}
			for i := range cells {
				if c.styles[i] != noLink(cells[i].Style) {
					field := "colour"
					a, b := c.styles[i], noLink(cells[i].Style)
					switch {
					case a.Attribute != b.Attribute:
						field = "attribute"
					case a.UnderlineStyle != b.UnderlineStyle:
						field = "underline-style"
					case a.UnderlineColor != b.UnderlineColor:
						field = "underline-colour"
					}
					r.Violation("C18|round-trip|"+c.name+"|"+field+legacyTag(p.name), cost, detail{Part: p.name + " -> " + c.name, Cells: cellsDesc, Encoded: fmt.Sprintf("%q", p.s),
						Why: fmt.Sprintf("cell %d comes back as %s", i, styleStr(c.styles[i]))})
					break
				}
			}
		}
	}
	r.Distinct(explore.Hash("seq", cellsDesc))
}

// ---- no-panic sweep over parameter lists -------------------------------------------------------------

func paramElements() []string {
	base := []string{"0", "1", "2", "4", "5", "22", "38", "48", "58", "59", "255", "99999", ""}
	els := append([]string{}, base...)
	for _, h := range []string{"4", "38", "48", "58"} {
		for n := 2; n <= 7; n++ {
			parts := []string{h}
			fill := []string{"2", "5", "1", "2", "3", "4"}
			for i := 1; i < n; i++ {
				parts = append(parts, fill[(i-1)%len(fill)])
			}
			els = append(els, strings.Join(parts, ":"))
		}
		els = append(els, h+":5", h+":2", h+"::")
	}
	return els
}

func panicSweep(idx, n int, maxLen int) {
	els := paramElements()
	k := 0
	var rec func(prefix []string)
	rec = func(prefix []string) {
		if len(prefix) > 0 {
			k++
			if k%n == idx {
				s := "a\x1b[" + strings.Join(prefix, ";") + "mb"
				r.Count("param_lists", 1)
				for _, c := range []consumed{viaParse(s), viaNew(s), viaEmulator(s, 2)} {
					if c.err != "" {
						r.Violation("C18|panic|"+c.name, len(prefix), detail{Part: "parameter list -> " + c.name, Encoded: fmt.Sprintf("%q", s), Why: c.err})
					}
				}
			}
		}
		if len(prefix) == maxLen {
			return
		}
		for _, e := range els {
			rec(append(prefix, e))
		}
	}
	rec(nil)
	// the extended-colour forms with semicolons, cut off after every element, alone and between other
	// parameters (longer than the lists above reach in the quick tier)
	feed := func(list []string) {
		k++
		if k%n != idx {
			return
		}
		s := "a\x1b[" + strings.Join(list, ";") + "mb"
		r.Count("param_lists", 1)
		for _, c := range []consumed{viaParse(s), viaNew(s), viaEmulator(s, 2)} {
			if c.err != "" {
				r.Violation("C18|panic|"+c.name, len(list), detail{Part: "parameter list -> " + c.name, Encoded: fmt.Sprintf("%q", s), Why: c.err})
			}
		}
	}
	for _, sel := range []string{"38", "48", "58"} {
		for _, form := range [][]string{{"5", "200"}, {"2", "10", "20", "30"}, {"2", "", "10", "20", "30"}, {"5"}, {"9", "1"}} {
			full := append([]string{sel}, form...)
			for cut := 1; cut <= len(full); cut++ {
				feed(full[:cut])
				feed(append([]string{"1"}, full[:cut]...))
				feed(append(append([]string{}, full[:cut]...), "1"))
				feed(append(append([]string{}, full[:cut]...), "", ""))
			}
		}
	}
}

// ---- agreement of the consumers on well-formed parameter lists ---------------------------------------

// styleOfB feeds s to every consumer and returns what each makes of the cell "b" (style and hyperlink).
func styleOfB(s string) map[string]vaxis.Style {
	out := map[string]vaxis.Style{}
	pick := func(name string, f func() (vaxis.Style, bool)) {
		var st vaxis.Style
		ok := false
		if p, site, msg := explore.Guard(func() { st, ok = f() }); p {
			r.Violation("C18|panic|"+name, 1, detail{Part: "parameter list -> " + name, Encoded: fmt.Sprintf("%q", s), Why: "panic in " + site + ": " + msg})
			return
		}
		if ok {
			out[name] = st
		}
	}
	pick("ParseStyledString", func() (vaxis.Style, bool) {
		for _, c := range vaxis.ParseStyledString(s) {
			if c.Grapheme == "b" {
				return c.Style, true
			}
		}
		return vaxis.Style{}, false
	})
	pick("NewStyledString", func() (vaxis.Style, bool) {
		for _, c := range host.Vx.NewStyledString(s, vaxis.Style{}).Cells {
			if c.Grapheme == "b" {
				return c.Style, true
			}
		}
		return vaxis.Style{}, false
	})
	pick("embedded terminal", func() (vaxis.Style, bool) {
		m := term.VerifNew(nil, 4, 1)
		parser := ansi.NewParser(strings.NewReader(s))
		for seq := range parser.Next() {
			if _, ok := seq.(ansi.EOF); ok {
				break
			}
			m.VerifFeed(seq)
		}
		for _, c := range m.VerifSnapshot().Primary[0] {
			if c.Grapheme == "b" {
				return c.Style, true
			}
		}
		return vaxis.Style{}, false
	})
	pick("reference terminal", func() (vaxis.Style, bool) {
		t := refterm.New(4, 1, allCaps())
		t.Write([]byte(s))
		for _, c := range t.Grid()[0] {
			if c.Text == "b" {
				st := fromRef(c.Style)
				st.Hyperlink, st.HyperlinkParams = c.Style.Link, c.Style.LinkParams
				return st, true
			}
		}
		return vaxis.Style{}, false
	})
	return out
}

// agreeSweep: every list of one or two SGR parameters from the vocabulary the library produces, applied to a default pen and to a
// pen with attributes, colours and an open hyperlink: all consumers must understand it as a terminal does.
func agreeSweep(idx, n int) {
	// the SGR vocabulary the library's producers write (sequences.go): bare reset, attribute on/off codes,
	// 3x/4x/9x/10x colours, the colon forms of 38/48/58, 39/49/59, underline 4 / 4:n / 24
	els := []string{"", "1", "2", "3", "4", "5", "7", "8", "9", "22", "23", "24", "25", "27", "28", "29", "31", "39", "42", "49", "59", "91", "104",
		"4:0", "4:3", "38:5:9", "48:5:200", "58:5:3", "38:2:1:2:3", "48:2:4:5:6", "58:2:7:8:9"}
	starts := []struct{ name, pre, post string }{
		{"default pen", "", ""},
		{"styled pen with an open hyperlink", "\x1b]8;id=1;http://x\x1b\\\x1b[1;3;4:3;31;42;58:5:3m", "\x1b]8;;\x1b\\"},
	}
	var lists [][]string
	for _, a := range els {
		lists = append(lists, []string{a})
		for _, b := range els {
			lists = append(lists, []string{a, b})
		}
	}
	for li, l := range lists {
		if li%n != idx {
			continue
		}
		for _, st := range starts {
			s := st.pre + "a\x1b[" + strings.Join(l, "m\x1b[") + "mb" + st.post // one sequence per element, as the producers write them
			r.Count("agreement_lists", 1)
			got := styleOfB(s)
			ref, ok := got["reference terminal"]
			if !ok {
				continue
			}
			for _, name := range []string{"ParseStyledString", "NewStyledString", "embedded terminal"} {
				c, ok := got[name]
				if !ok {
					r.Violation("C18|consumers-disagree|"+name+"|no-cell", len(l), detail{Part: "parameter list -> " + name, Encoded: fmt.Sprintf("%q", s), Why: "the cell after the sequence is missing"})
					continue
				}
				field := "style"
				if noLink(c) == noLink(ref) {
					field = "hyperlink"
					if name != "embedded terminal" {
						continue // the styled-string parsers do not carry hyperlinks (outside the round-trip clause)
					}
				}
				if c != ref {
					r.Violation("C18|consumers-disagree|"+name+"|"+field, len(l), detail{Part: "parameter list -> " + name + " (" + st.name + ")", Encoded: fmt.Sprintf("%q", s),
						Why: fmt.Sprintf("%s gives the next cell %s link=%q/%q, a terminal gives it %s link=%q/%q", name, styleStr(c), c.Hyperlink, c.HyperlinkParams, styleStr(ref), ref.Hyperlink, ref.HyperlinkParams)})
				}
			}
		}
	}
}

func main() {
	r = explore.Start("C18")
	if r.Replay != "" {
		r.ReplayBySearch()
	}
	if idx, n, arg, ok := r.Worker(); ok {
		r.Watchdog(60 * time.Second)
		var err error
		if arg == "legacy" {
			// the documented switch that makes the library write 38;5;n / 38;2;r;g;b (semicolons) for terminals
			// that do not read the colon forms; it is read once, when a Vaxis starts
			os.Setenv("VAXIS_FORCE_LEGACY_SGR", "1")
			legacyMode = true
		}
		host, err = session.Open(allCaps(), 8, 2, vaxis.Options{})
		if err != nil {
			r.Fault("host: %v", err)
		}
		attrs, cols, uls := styleDomain()
		k := 0
		mine := func() bool { k++; return k%n == idx }
		switch arg {
		case "legacy":
			for _, a := range cols {
				for _, b := range cols {
					if mine() {
						checkSeq([]vaxis.Style{a, b}, true)
					}
				}
			}
		case "pairs":
			for _, dom := range [][]vaxis.Style{attrs, cols, uls} {
				for _, a := range dom {
					for _, b := range dom {
						if mine() {
							checkSeq([]vaxis.Style{a, b}, true)
						}
					}
				}
			}
			// every palette index in every colour channel, entered from the default colour and from
			// the neighbouring index (each index has its own SGR form: 30-37, 90-97, 38:5:n, ...)
			for ch := 0; ch < 3; ch++ {
				mk := func(c vaxis.Color) vaxis.Style {
					switch ch {
					case 0:
						return vaxis.Style{Foreground: c}
					case 1:
						return vaxis.Style{Background: c}
					}
					return vaxis.Style{UnderlineColor: c, UnderlineStyle: vaxis.UnderlineSingle}
				}
				for i := 0; i < 256; i++ {
					if !mine() {
						continue
					}
					cur := mk(vaxis.IndexColor(uint8(i)))
					checkSeq([]vaxis.Style{{}, cur}, true)
					checkSeq([]vaxis.Style{mk(vaxis.IndexColor(uint8((i + 255) % 256))), cur}, true)
					checkSeq([]vaxis.Style{mk(vaxis.RGBColor(uint8(i), 1, 2)), cur}, true)
				}
			}
			// hyperlinks: outside the round-trip clause, inside the reset-at-end clause
			links := []vaxis.Style{{}, {Hyperlink: "A"}, {Hyperlink: "A", HyperlinkParams: "id=7"}, {Hyperlink: "B", Attribute: vaxis.AttrBold}}
			for _, a := range links {
				for _, b := range links {
					if mine() {
						checkSeq([]vaxis.Style{a, b}, true)
					}
				}
			}
			// mixed: attribute x colour transitions
			for i, a := range attrs {
				for j, c := range cols {
					if (i+j)%7 == 0 && mine() {
						mix := c
						mix.Attribute = a.Attribute
						checkSeq([]vaxis.Style{a, mix}, true)
						checkSeq([]vaxis.Style{mix, a}, true)
					}
				}
			}
			// combined styles: attribute x foreground x background x underline in one cell, every ordered pair
			// (a transition may keep one component while all the others fall back to the default)
			{
				var comb []vaxis.Style
				for _, at := range []vaxis.AttributeMask{0, vaxis.AttrBold, vaxis.AttrItalic | vaxis.AttrReverse} {
					for _, fg := range []vaxis.Color{0, vaxis.IndexColor(1), vaxis.RGBColor(1, 2, 3)} {
						for _, bg := range []vaxis.Color{0, vaxis.IndexColor(200)} {
							for _, ul := range []vaxis.Style{{}, {UnderlineStyle: vaxis.UnderlineCurly, UnderlineColor: vaxis.IndexColor(3)}, {UnderlineStyle: vaxis.UnderlineSingle}} {
								st := ul
								st.Attribute, st.Foreground, st.Background = at, fg, bg
								comb = append(comb, st)
							}
						}
					}
				}
				for _, a := range comb {
					for _, b := range comb {
						if mine() {
							checkSeq([]vaxis.Style{a, b}, true)
						}
					}
				}
			}
			// a cell without a grapheme (the zero Cell, the second half of a wide character) at each position of
			// a triple over a small style domain: it prints nothing, the cells around it come back unchanged and
			// the string still ends reset
			{
				dom := []vaxis.Style{{}, {Attribute: vaxis.AttrBold}, {Attribute: vaxis.AttrItalic | vaxis.AttrReverse}, cols[31], cols[62], cols[124], uls[3], uls[11]}
				for _, a := range dom {
					for _, b := range dom {
						for _, c := range dom {
							if !mine() {
								continue
							}
							for e := 0; e < 3; e++ {
								emptyAt = e
								checkSeq([]vaxis.Style{a, b, c}, false)
							}
							emptyAt = -1
						}
					}
				}
			}
			if r.Thorough() {
				small := []vaxis.Style{}
				for _, a := range []int{0, 1, 2, 3, 4, 16, 64, 127} {
					small = append(small, vaxis.Style{Attribute: vaxis.AttributeMask(a << 1)})
				}
				small = append(small, cols[0], cols[31], cols[62], cols[93], cols[124], uls[3], uls[6], uls[11])
				for _, a := range small {
					for _, b := range small {
						for _, c := range small {
							if mine() {
								checkSeq([]vaxis.Style{a, b, c}, true)
							}
						}
					}
				}
			}
			if idx == 0 {
				r.Sample(map[string]any{"part": "pairs", "cells": styleStr(attrs[3]) + " " + styleStr(attrs[6]), "EncodeCells": vaxis.EncodeCells([]vaxis.Cell{{Character: vaxis.Character{Grapheme: "x", Width: 1}, Style: attrs[3]}, {Character: vaxis.Character{Grapheme: "y", Width: 1}, Style: attrs[6]}})})
			}
		case "params":
			panicSweep(idx, n, r.Pick(3, 4))
			agreeSweep(idx, n)
		}
		host.Vx.Close()
		r.WorkerDone()
	}
	r.Spawn(16, "pairs", 0)
	r.Spawn(16, "params", 0)
	r.Spawn(16, "legacy", 0)
	n := r.Get("encodings") + r.Get("param_lists")
	r.Finish(explore.Coverage{
		States: -1, Transitions: n, Traces: n, Evaluations: n,
		Rule:        "every ordered pair of styled cells over three style domains (all 128x128 attribute masks; 125x125 triples of colour classes default/0-7/8-15/16-255/RGB for fg, bg, underline colour; 12x12 underline style and colour combinations) plus all 54x54 pairs of combined styles (attribute x foreground x background x underline), mixed attribute/colour transitions (thorough: all triples over a 16-style domain), all triples over an 8-style domain with one cell that has no grapheme, encoded by EncodeCells, StyledString.Encode (on a fresh object, and on one that was encoded before and then edited in place) and the renderer (SGR sequences of a Refresh), and consumed by ParseStyledString, NewStyledString, the embedded terminal (through the real parser) and the reference terminal: the reference terminal must show the cells and end with a default pen, every consumer must return the cells' styles; plus every SGR parameter list of <= n elements over 44 elements (12 plain values, empty, colon forms of 4/38/48/58 with 2-7 fields and truncated forms) fed to the three library consumers for the no-panic clause, plus every truncation of the semicolon forms of 38/48/58 alone and between other parameters. distinct = style sequences that passed",
		Exhaustive:  true,
		Bounds:      map[string]any{"max_param_list": r.Pick(3, 4)},
		Assumptions: []string{"hyperlinks are outside the round-trip clause (ParseStyledString and NewStyledString have no OSC 8 handling by design); they are inside the reset-at-end clause"},
	})
}
