// C19 – lists and pagers: selection always valid and visible, content complete.
// Exhaustive enumeration of operation sequences (to a depth) on widgets/list.List
// and vxfw/list.Dynamic over a family of item/viewport configurations, and of
// short texts x widths x heights x scroll sequences for the pager.
package main

import (
	"fmt"
	"strings"
	"time"

	"git.sr.ht/~rockorager/vaxis"
	"git.sr.ht/~rockorager/vaxis/vxfw"
	vlist "git.sr.ht/~rockorager/vaxis/vxfw/list"
	"git.sr.ht/~rockorager/vaxis/widgets/list"
	"git.sr.ht/~rockorager/vaxis/widgets/pager"
	"verif.local/mc/explore"
	"verif.local/mc/refterm"
	"verif.local/mc/session"
)

var r *explore.Run
var host *session.Session

type detail struct {
	Widget string   `json:"widget"`
	Config string   `json:"config"`
	Ops    []string `json:"operations"`
	Why    string   `json:"why"`
}

func rowsOf(h, w int) []string {
	var out []string
	host.Con.With(func(t *refterm.Terminal) {
		g := t.Grid()
		for y := 0; y < h && y < len(g); y++ {
			var sb strings.Builder
			for x := 0; x < w && x < len(g[y]); x++ {
				c := g[y][x]
				switch {
				case c.Width == 0:
				case c.Text == "":
					sb.WriteString(" ")
				default:
					sb.WriteString(c.Text)
				}
			}
			out = append(out, sb.String())
		}
	})
	return out
}

func reversedRows(h int) []int {
	var out []int
	host.Con.With(func(t *refterm.Terminal) {
		g := t.Grid()
		for y := 0; y < h && y < len(g); y++ {
			if g[y][0].Style.Attr&refterm.AReverse != 0 {
				out = append(out, y)
			}
		}
	})
	return out
}

// ---- widgets/list.List -----------------------------------------------------------------------------

type lop struct {
	name string
	f    func(l *list.List, st *lstate)
	draw int // height+1 if this is a Draw
}

type lstate struct {
	n       int
	changed bool // selection changed since the last draw
}

func listOps() []lop {
	ops := []lop{
		{name: "Down", f: func(l *list.List, st *lstate) { l.Down(); st.changed = true }},
		{name: "Up", f: func(l *list.List, st *lstate) { l.Up(); st.changed = true }},
		{name: "Home", f: func(l *list.List, st *lstate) { l.Home(); st.changed = true }},
		{name: "End", f: func(l *list.List, st *lstate) { l.End(); st.changed = true }},
	}
	for h := 0; h <= 3; h++ {
		hh := h
		ops = append(ops, lop{name: fmt.Sprintf("PageDown(h=%d)", h), f: func(l *list.List, st *lstate) {
			l.PageDown(host.Vx.Window().New(0, 0, 3, hh))
			st.changed = true
		}})
		ops = append(ops, lop{name: fmt.Sprintf("PageUp(h=%d)", h), f: func(l *list.List, st *lstate) {
			l.PageUp(host.Vx.Window().New(0, 0, 3, hh))
			st.changed = true
		}})
	}
	for n := 0; n <= 4; n++ {
		nn := n
		ops = append(ops, lop{name: fmt.Sprintf("SetItems(%d)", n), f: func(l *list.List, st *lstate) {
			l.SetItems(items(nn))
			st.n = nn
			st.changed = true
		}})
	}
	for h := 0; h <= 4; h++ {
		ops = append(ops, lop{name: fmt.Sprintf("Draw(h=%d)", h), draw: h + 1})
	}
	return ops
}

func items(n int) []string {
	var out []string
	for i := 0; i < n; i++ {
		out = append(out, string(rune('A'+i)))
	}
	return out
}

func runList(n0 int, path []uint16) (uint64, explore.Status) {
	ops := listOps()
	l := list.New(items(n0))
	st := &lstate{n: n0}
	var names []string
	bad := func(clause, opn, why string) (uint64, explore.Status) {
		r.Violation("C19|List|"+clause+"|op="+strings.Split(opn, "(")[0], len(path)*100, detail{Widget: "widgets/list.List", Config: fmt.Sprintf("%d items", n0), Ops: names, Why: why})
		return 0, explore.StStop
	}
	for i, oi := range path {
		o := ops[oi]
		names = append(names, o.name)
		last := i == len(path)-1
		var rows []string
		var rev []int
		h := o.draw - 1
		panicked, site, msg := explore.Guard(func() {
			if o.draw == 0 {
				o.f(&l, st)
				return
			}
			root := host.Vx.Window()
			root.Clear()
			l.Draw(root.New(0, 0, 3, h))
			host.Vx.Render()
			rows = rowsOf(h, 3)
			rev = reversedRows(h)
		})
		if panicked {
			if !last {
				r.Fault("prefix panicked on replay")
			}
			return bad("panic|"+site, o.name, fmt.Sprintf("panic with %d items: %s", st.n, msg))
		}
		if !last {
			if o.draw > 0 {
				st.changed = false
			}
			continue
		}
		idx := l.Index()
		if st.n > 0 && (idx < 0 || idx >= st.n) || st.n == 0 && idx != 0 && idx != -1 {
			return bad("index-range", o.name, fmt.Sprintf("index %d with %d items", idx, st.n))
		}
		if st.n == 0 && idx < 0 {
			return bad("index-range", o.name, fmt.Sprintf("index %d with no items", idx))
		}
		if o.draw > 0 && h > 0 && st.n > 0 {
			// rows show consecutive items in order
			first := -1
			for y, row := range rows {
				t := strings.TrimSpace(row)
				if t == "" {
					continue
				}
				k := int(t[0] - 'A')
				if first < 0 {
					first = k - y
				}
				if k != first+y {
					return bad("order", o.name, fmt.Sprintf("rows %q are not consecutive items", rows))
				}
			}
			if st.changed {
				if len(rev) != 1 {
					return bad("selected-visible", o.name, fmt.Sprintf("selected item %d is not shown in a viewport of %d rows (rows %q)", idx, h, rows))
				}
				if t := strings.TrimSpace(rows[rev[0]]); t == "" || int(t[0]-'A') != idx {
					return bad("selected-visible", o.name, fmt.Sprintf("the highlighted row shows %q, selected is item %d", rows[rev[0]], idx))
				}
			}
			st.changed = false
		}
	}
	r.Distinct(explore.Hash("list", fmt.Sprint(n0), fmt.Sprint(path)))
	return 0, explore.StOK
}

// ---- vxfw/list.Dynamic --------------------------------------------------------------------------------

type itemW struct {
	idx, h int
}

func (w *itemW) HandleEvent(vaxis.Event, vxfw.EventPhase) (vxfw.Command, error) { return nil, nil }
func (w *itemW) Draw(ctx vxfw.DrawContext) (vxfw.Surface, error) {
	return vxfw.NewSurface(ctx.Max.Width, uint16(w.h), w), nil
}

type dcfg struct {
	heights []int
	gap     int
	vh      int
	gutter  bool
	pre     []string // operations applied before the enumerated ones: the search also starts from non-initial states
}

func (c dcfg) String() string {
	return fmt.Sprintf("item heights %v, gap %d, viewport height %d, gutter %v, after %v", c.heights, c.gap, c.vh, c.gutter, c.pre)
}

var dynPres = [][]string{nil, {"NextItem", "Draw"}, {"SetPendingScroll(1)", "Draw"}, {"NextItem", "SetPendingScroll(1)", "Draw"}, {"NextItem", "NextItem", "Draw", "wheel down", "Draw"}}

func dynConfigs() []dcfg {
	var cs []dcfg
	for _, hs := range [][]int{{}, {1}, {1, 1, 1}, {2, 1, 3}, {3, 3}, {1, 2, 1, 1}} {
		for gap := 0; gap <= 1; gap++ {
			for vh := 1; vh <= 4; vh++ {
				for _, g := range []bool{false, true} {
					for _, pre := range dynPres {
						cs = append(cs, dcfg{hs, gap, vh, g, pre})
					}
				}
			}
		}
	}
	return cs
}

var dynOpNames = []string{"NextItem", "PrevItem", "key j", "key k", "key Down", "key Up", "wheel down", "wheel up",
	"SetCursor(0)", "SetCursor(1)", "SetCursor(2)", "SetCursor(3)", "SetCursor(5)",
	"SetPendingScroll(-4)", "SetPendingScroll(-1)", "SetPendingScroll(1)", "SetPendingScroll(4)",
	"items shrink by 1", "items grow by 1", "Draw"}

func runDyn(c dcfg, path []uint16) (uint64, explore.Status) {
	heights := append([]int{}, c.heights...)
	widgets := map[int]*itemW{}
	d := &vlist.Dynamic{DrawCursor: c.gutter, Gap: c.gap}
	d.Builder = func(i uint, cursor uint) vxfw.Widget {
		if int(i) >= len(heights) {
			return nil
		}
		w, ok := widgets[int(i)]
		if !ok || w.h != heights[i] {
			w = &itemW{idx: int(i), h: heights[i]}
			widgets[int(i)] = w
		}
		return w
	}
	var names []string
	changed := false
	bad := func(clause, opn, why string) (uint64, explore.Status) {
		r.Violation("C19|Dynamic|"+clause+"|op="+strings.Split(opn, "(")[0], len(path)*100, detail{Widget: "vxfw/list.Dynamic", Config: c.String(), Ops: names, Why: why})
		return 0, explore.StStop
	}
	ctx := vxfw.DrawContext{Max: vxfw.Size{Width: 5, Height: uint16(c.vh)}, Characters: vaxis.Characters}
	var full []uint16
	for _, pn := range c.pre {
		for k, on := range dynOpNames {
			if on == pn {
				full = append(full, uint16(k))
			}
		}
	}
	npre := len(full)
	full = append(full, path...)
	if len(path) == 0 {
		npre = 0
	}
	for i, oi := range full {
		name := dynOpNames[oi]
		names = append(names, name)
		last := i == len(full)-1 && i >= npre
		var surf vxfw.Surface
		drew := false
		before := d.Cursor()
		scrolled := false
		panicked, site, msg := explore.Guard(func() {
			switch name {
			case "NextItem":
				d.NextItem()
			case "PrevItem":
				d.PrevItem()
			case "key j":
				d.CaptureEvent(vaxis.Key{Keycode: 'j', Text: "j"})
			case "key k":
				d.CaptureEvent(vaxis.Key{Keycode: 'k', Text: "k"})
			case "key Down":
				d.CaptureEvent(vaxis.Key{Keycode: vaxis.KeyDown})
			case "key Up":
				d.CaptureEvent(vaxis.Key{Keycode: vaxis.KeyUp})
			case "wheel down":
				d.HandleEvent(vaxis.Mouse{Button: vaxis.MouseWheelDown}, vxfw.TargetPhase)
				scrolled = true
			case "wheel up":
				d.HandleEvent(vaxis.Mouse{Button: vaxis.MouseWheelUp}, vxfw.TargetPhase)
				scrolled = true
			case "items shrink by 1":
				if len(heights) > 0 {
					heights = heights[:len(heights)-1]
				}
			case "items grow by 1":
				heights = append(heights, 2)
			case "Draw":
				surf, _ = d.Draw(ctx)
				drew = true
			default:
				var v int
				if _, err := fmt.Sscanf(name, "SetCursor(%d)", &v); err == nil {
					d.SetCursor(uint(v))
				} else if _, err := fmt.Sscanf(name, "SetPendingScroll(%d)", &v); err == nil {
					d.SetPendingScroll(v)
					scrolled = true
				}
			}
		})
		if panicked {
			if !last && i >= npre {
				r.Fault("prefix panicked on replay")
			}
			if !last {
				return 0, explore.StStop // the start state itself is not reachable without a failure
			}
			return bad("panic|"+site, name, fmt.Sprintf("panic with %d items: %s", len(heights), msg))
		}
		if d.Cursor() != before {
			changed = true
		}
		if scrolled {
			// an explicit scroll after the selection change is the user's latest word
			changed = false
		}
		if !last {
			if drew {
				changed = false
			}
			continue
		}
		n := len(heights)
		if name != "items shrink by 1" && !strings.HasPrefix(name, "SetCursor") {
			if n > 0 && int(d.Cursor()) >= n {
				// a cursor left dangling by an earlier shrink is reported where it is drawn
				if drew {
					return bad("index-range", name, fmt.Sprintf("cursor %d with %d items after Draw", d.Cursor(), n))
				}
			}
		}
		if strings.HasPrefix(name, "SetCursor") && n > 0 && int(d.Cursor()) >= n && d.Cursor() != before {
			return bad("index-range", name, fmt.Sprintf("cursor %d with %d items", d.Cursor(), n))
		}
		if drew {
			if surf.Size.Height != uint16(c.vh) || surf.Size.Width != 5 {
				return bad("size", name, fmt.Sprintf("surface %dx%d", surf.Size.Width, surf.Size.Height))
			}
			prevIdx, prevEnd := -1, 0
			selRow, selH := 0, -1
			for k, ch := range surf.Children {
				w, ok := ch.Surface.Widget.(*itemW)
				if !ok {
					return bad("layout", name, fmt.Sprintf("child %d is not an item", k))
				}
				hgt := int(ch.Surface.Size.Height)
				if k > 0 {
					if w.idx != prevIdx+1 {
						return bad("layout-order", name, fmt.Sprintf("child %d is item %d after item %d", k, w.idx, prevIdx))
					}
					// contiguous and without overlap: no hole larger than the configured gap (items
					// inserted above the viewport when scrolling up are laid out without the gap)
					if ch.Origin.Row < prevEnd || ch.Origin.Row > prevEnd+c.gap {
						return bad("layout-contiguous", name, fmt.Sprintf("item %d starts at row %d, the previous one ends at %d (gap %d)", w.idx, ch.Origin.Row, prevEnd, c.gap))
					}
				}
				prevIdx, prevEnd = w.idx, ch.Origin.Row+hgt
				if w.idx == int(d.Cursor()) {
					selRow, selH = ch.Origin.Row, hgt
				}
			}
			if changed && n > 0 && int(d.Cursor()) < n {
				switch {
				case selH < 0:
					return bad("selected-visible", name, fmt.Sprintf("selected item %d is not among the drawn children", d.Cursor()))
				case selRow >= c.vh || selRow+selH <= 0:
					return bad("selected-visible", name, fmt.Sprintf("selected item %d occupies rows [%d,%d), outside the viewport [0,%d)", d.Cursor(), selRow, selRow+selH, c.vh))
				case selH <= c.vh && (selRow < 0 || selRow+selH > c.vh):
					return bad("selected-fully-visible", name, fmt.Sprintf("selected item %d occupies rows [%d,%d); it fits in the viewport [0,%d) but is cut", d.Cursor(), selRow, selRow+selH, c.vh))
				}
			}
			changed = false
		}
	}
	r.Distinct(explore.Hash("dyn", c.String(), fmt.Sprint(path)))
	return 0, explore.StOK
}

// ---- pager -------------------------------------------------------------------------------------------

var pagerAlphabet = []string{"a", "世", "\n", " ", "\r\n"}

func refLines(text string, w int) [][]string {
	// lines at LF; wrap when the row is full; a cluster that does not fit starts a new row
	var lines [][]string
	cur := []string{}
	col := 0
	for _, c := range vaxis.Characters(text) {
		if strings.Contains(c.Grapheme, "\n") { // LF, or CR LF (one cluster)
			lines = append(lines, cur)
			cur, col = []string{}, 0
			continue
		}
		if col > 0 && col+c.Width > w {
			lines = append(lines, cur)
			cur, col = []string{}, 0
		}
		cur = append(cur, c.Grapheme)
		col += c.Width
	}
	if len(cur) > 0 {
		lines = append(lines, cur)
	}
	return lines
}

// pagerCut > 0: the text is handed to the pager in two segments, cut after that many bytes (a styled word inside
// a sentence): the layout is that of the whole text
var pagerCut int

func pagerCase(text string, w, h int, scrolls []int) {
	r.Count("pager_cases", 1)
	name := fmt.Sprintf("text %q width %d height %d scrolls %v", text, w, h, scrolls)
	if pagerCut > 0 {
		name += fmt.Sprintf(" in two segments %q + %q", text[:pagerCut], text[pagerCut:])
	}
	bad := func(clause, why string) {
		r.Violation("C19|pager|"+clause, len(text)*100+w*10+h, detail{Widget: "widgets/pager", Config: name, Why: why})
	}
	m := &pager.Model{Segments: []vaxis.Segment{{Text: text}}}
	if pagerCut > 0 {
		m.Segments = []vaxis.Segment{{Text: text[:pagerCut]}, {Text: text[pagerCut:], Style: vaxis.Style{Attribute: vaxis.AttrBold}}}
	}
	var all []string
	var shown []string
	panicked, site, msg := explore.Guard(func() {
		// the whole content, through a tall window
		root := host.Vx.Window()
		root.Clear()
		m.Draw(root.New(0, 0, w, 12))
		host.Vx.Render()
		all = rowsOf(12, w)
		for _, s := range scrolls {
			if s > 0 {
				m.ScrollDown()
			} else {
				m.ScrollUp()
			}
		}
		root.Clear()
		m.Draw(root.New(0, 0, w, h))
		host.Vx.Render()
		shown = rowsOf(h, w)
	})
	if panicked {
		bad("panic|"+site, msg)
		return
	}
	// content: clusters of the rows, in order, are the text's clusters; a line feed always ends a row
	var want []string
	for _, l := range refLines(text, w) {
		for _, g := range l {
			if vaxis.Characters(g)[0].Width > w {
				continue // cannot be shown at this width
			}
			want = append(want, g)
		}
	}
	var got []string
	for _, row := range all {
		for _, c := range vaxis.Characters(strings.TrimRight(row, " ")) {
			got = append(got, c.Grapheme)
		}
	}
	strip := func(xs []string) string {
		var sb strings.Builder
		for _, x := range xs {
			if x != " " {
				sb.WriteString(x)
			}
		}
		return sb.String()
	}
	if strip(got) != strip(want) {
		lastLine := ""
		if !strings.HasSuffix(text, "\n") && strings.HasPrefix(strip(want), strip(got)) {
			lastLine = "|unterminated-last-line"
		}
		bad("content"+lastLine, fmt.Sprintf("rows %q show %q, the text has %q", all, strip(got), strip(want)))
		return
	}
	// row structure: the non-blank rows are the reference rows (a line break always ends a row, a row
	// wraps when it is full), blank rows and spaces left aside
	var wantRows, gotRows []string
	for _, l := range refLines(text, w) {
		var fit []string
		for _, g := range l {
			if vaxis.Characters(g)[0].Width <= w {
				fit = append(fit, g)
			}
		}
		if s := strip(fit); s != "" {
			wantRows = append(wantRows, s)
		}
	}
	for _, row := range all {
		var gs []string
		for _, c := range vaxis.Characters(row) {
			gs = append(gs, c.Grapheme)
		}
		if s := strip(gs); s != "" {
			gotRows = append(gotRows, s)
		}
	}
	if strings.Join(gotRows, "|") != strings.Join(wantRows, "|") {
		bad("rows", fmt.Sprintf("rows are %q, the text breaks into %q", gotRows, wantRows))
		return
	}
	// blank lines are lines too: between two rows the pager shows as many blank rows as the text has empty (or
	// space-only) lines there - plus at most one more after a row that is exactly full (the pager's layout yields an
	// empty line when a line feed follows a full row). Not judged when a cluster is wider than the window or the text has spaces.
	tooWide := strings.Contains(text, " ") // (a row of spaces that fills the width cannot be told from an empty row on the screen)
	for _, c := range vaxis.Characters(text) {
		tooWide = tooWide || c.Width > w
	}
	if !tooWide {
		var wantSeq, gotSeq []string
		for _, l := range refLines(text, w) {
			wantSeq = append(wantSeq, strip(l))
		}
		var gotW []int
		for _, row := range all {
			var gs []string
			cw := 0
			for _, c := range vaxis.Characters(strings.TrimRight(row, " ")) {
				gs = append(gs, c.Grapheme)
				cw += c.Width
			}
			gotSeq = append(gotSeq, strip(gs))
			gotW = append(gotW, cw)
		}
		for len(wantSeq) > 0 && wantSeq[len(wantSeq)-1] == "" {
			wantSeq = wantSeq[:len(wantSeq)-1]
		}
		for len(gotSeq) > 0 && gotSeq[len(gotSeq)-1] == "" {
			gotSeq = gotSeq[:len(gotSeq)-1]
		}
		i, j := 0, 0
		extra := false // one extra empty line may follow: the last non-blank row was full
		for i < len(wantSeq) && j < len(gotSeq) {
			switch {
			case wantSeq[i] == gotSeq[j]:
				if gotSeq[j] != "" {
					extra = gotW[j] >= w
				}
				i++
				j++
			case gotSeq[j] == "" && extra:
				extra = false
				j++
			default:
				i, j = len(wantSeq)+1, len(gotSeq)+1
			}
		}
		if i != len(wantSeq) || j != len(gotSeq) {
			bad("blank-lines", fmt.Sprintf("rows are %q, the text has the lines %q (an empty line of the text is a line of the pager)", gotSeq, wantSeq))
			return
		}
	}
	// offset clamp and window content: 0 <= Offset <= max(0, L-h) where L, the number of layout lines, is
	// between the reference line count and that count plus one per line feed (a full row followed by a
	// line feed yields an empty line in the pager's layout)
	L := len(refLines(text, w)) + strings.Count(text, "\n")
	if m.Offset < 0 {
		bad("offset", fmt.Sprintf("Offset %d", m.Offset))
		return
	}
	if m.Offset > 0 && m.Offset > L-h {
		bad("offset", fmt.Sprintf("Offset %d with at most %d lines and height %d", m.Offset, L, h))
		return
	}
	for y := 0; y < h; y++ {
		wantRow := strings.Repeat(" ", w)
		if m.Offset+y < len(all) {
			wantRow = all[m.Offset+y]
		}
		if strings.TrimRight(shown[y], " ") != strings.TrimRight(wantRow, " ") {
			bad("window", fmt.Sprintf("at Offset %d row %d shows %q, content row %d is %q", m.Offset, y, shown[y], m.Offset+y, wantRow))
			return
		}
	}
	r.Distinct(explore.Hash("pager", name))
}

// pagerResizeCase: one pager drawn at a first width, scrolled, then drawn at a second width: the second
// frame must be the one a fresh pager gives at that width, from a clamped offset.
func pagerResizeCase(text string, w1, w2, h int, scrolls int) {
	r.Count("pager_cases", 1)
	name := fmt.Sprintf("text %q width %d then %d height %d after %d x ScrollDown", text, w1, w2, h, scrolls)
	bad := func(clause, why string) {
		r.Violation("C19|pager|"+clause, len(text)*100+w1*10+w2, detail{Widget: "widgets/pager", Config: name, Why: why})
	}
	m := &pager.Model{Segments: []vaxis.Segment{{Text: text}}}
	fresh := &pager.Model{Segments: []vaxis.Segment{{Text: text}}}
	var all, shown []string
	panicked, site, msg := explore.Guard(func() {
		root := host.Vx.Window()
		root.Clear()
		fresh.Draw(root.New(0, 0, w2, 12))
		host.Vx.Render()
		all = rowsOf(12, w2)
		root.Clear()
		m.Draw(root.New(0, 0, w1, h))
		for i := 0; i < scrolls; i++ {
			m.ScrollDown()
		}
		root.Clear()
		m.Draw(root.New(0, 0, w1, h))
		root.Clear()
		m.Draw(root.New(0, 0, w2, h))
		host.Vx.Render()
		shown = rowsOf(h, w2)
	})
	if panicked {
		bad("panic|"+site, msg)
		return
	}
	L := len(refLines(text, w2)) + strings.Count(text, "\n")
	if m.Offset < 0 || (m.Offset > 0 && m.Offset > L-h) {
		bad("offset|after-width-change", fmt.Sprintf("Offset %d with at most %d lines at the new width and height %d", m.Offset, L, h))
		return
	}
	for y := 0; y < h; y++ {
		wantRow := strings.Repeat(" ", w2)
		if m.Offset+y < len(all) {
			wantRow = all[m.Offset+y]
		}
		if strings.TrimRight(shown[y], " ") != strings.TrimRight(wantRow, " ") {
			bad("window|after-width-change", fmt.Sprintf("at Offset %d row %d shows %q, content row %d at the new width is %q", m.Offset, y, shown[y], m.Offset+y, wantRow))
			return
		}
	}
	r.Distinct(explore.Hash("pager-resize", name))
}

func main() {
	r = explore.Start("C19")
	dcs := dynConfigs()
	if r.Replay != "" {
		r.ReplayBySearch()
	}
	if idx, n, arg, ok := r.Worker(); ok {
		r.Watchdog(60 * time.Second)
		var err error
		host, err = session.Open(refterm.DefaultProfile(refterm.CapUnicodeCore, refterm.VersionOther), 6, 12, vaxis.Options{})
		if err != nil {
			r.Fault("host: %v", err)
		}
		switch {
		case arg == "list":
			for n0 := 0; n0 <= 4; n0++ {
				if n0%n != idx%5 || idx >= 5 {
					continue
				}
				nn := n0
				cnt := explore.EnumeratePaths(len(listOps()), r.Pick(3, 4), func(p []uint16) explore.Status {
					_, st := runList(nn, p)
					return st
				})
				r.Count("list_paths", cnt)
				// non-initial start states: the list scrolled to its end in a window of 1 / 2 rows
				if nn >= 3 {
					idxOf := func(name string) uint16 {
						for i, o := range listOps() {
							if o.name == name {
								return uint16(i)
							}
						}
						r.Fault("no list operation %q", name)
						return 0
					}
					for _, pre := range [][]uint16{{idxOf("End"), idxOf("Draw(h=2)")}, {idxOf("End"), idxOf("Draw(h=1)")}} {
						pp := pre
						cnt := explore.EnumeratePaths(len(listOps()), r.Pick(3, 4), func(p []uint16) explore.Status {
							_, st := runList(nn, append(append([]uint16{}, pp...), p...))
							return st
						})
						r.Count("list_paths", cnt)
					}
				}
			}
			r.WorkerDone()
		case arg == "dyn":
			for i := range dcs {
				if i%n != idx {
					continue
				}
				c := dcs[i]
				cnt := explore.EnumeratePaths(len(dynOpNames), r.Pick(3, 4), func(p []uint16) explore.Status {
					_, st := runDyn(c, p)
					return st
				})
				r.Count("dyn_paths", cnt)
			}
			r.WorkerDone()
		case arg == "pager":
			maxLen := r.Pick(5, 6)
			k := 0
			var rec func(prefix string, l int)
			scrollSeqs := [][]int{{}, {1}, {-1}, {1, 1}, {1, -1}, {-1, 1}, {1, 1, 1}, {1, 1, -1}, {1, 1, 1, 1}, {-1, -1, 1}}
			rec = func(prefix string, l int) {
				k++
				if k%n == idx {
					for w := 1; w <= 4; w++ {
						for h := 1; h <= 3; h++ {
							for _, sc := range scrollSeqs {
								pagerCase(prefix, w, h, sc)
							}
						}
					}
					// the same text in two segments, cut at every cluster boundary
					for cut := range prefix {
						if cut == 0 || (prefix[cut] == '\n' && prefix[cut-1] == '\r') {
							continue
						}
						pagerCut = cut
						for w := 1; w <= 4; w++ {
							pagerCase(prefix, w, 3, nil)
						}
						pagerCut = 0
					}
					// the window width changes between two draws of one pager
					if l <= maxLen-1 {
						for w1 := 1; w1 <= 4; w1++ {
							for w2 := 1; w2 <= 4; w2++ {
								if w1 == w2 {
									continue
								}
								for h := 1; h <= 2; h++ {
									for sc := 0; sc <= 4; sc += 2 {
										pagerResizeCase(prefix, w1, w2, h, sc)
									}
								}
							}
						}
					}
				}
				if l == maxLen {
					return
				}
				for _, a := range pagerAlphabet {
					rec(prefix+a, l+1)
				}
			}
			rec("", 0)
			r.WorkerDone()
		}
		r.Fault("unknown worker arg %q", arg)
	}
	var trans int64
	r.Spawn(5, "list", 0)
	r.Spawn(16, "dyn", 0)
	trans += r.Get("list_paths") + r.Get("dyn_paths")
	dynRange := len(dcs)
	r.Spawn(16, "pager", 0)
	trans += r.Get("pager_cases")
	r.Finish(explore.Coverage{
		States: -1, Transitions: trans, Traces: trans, Evaluations: trans,
		Rule:       "widgets/list.List: every operation sequence to depth n over {Down, Up, Home, End, PageDown/PageUp(h=0..3), SetItems(0..4), Draw(h=0..4)} from 0..4 items and, for 3 and 4 items, from the list scrolled to its end in a window of 1 or 2 rows; vxfw/list.Dynamic: every sequence to depth n over 20 operations (NextItem/PrevItem, j/k/arrows through CaptureEvent, wheel, SetCursor, SetPendingScroll, item replacement, Draw) for 96 configurations (item heights, gap 0/1, viewport height 1..4, gutter); pager: every text of <= m symbols over {a, 世, LF, SP, CR LF} x width 1..4 x height 1..3 x 10 scroll sequences, the same texts handed over in two segments cut at every cluster boundary, and (texts one symbol shorter) every pair of different widths drawn one after the other with 0, 2 or 4 scroll steps in between: the second frame must equal a fresh pager's at that width from a clamped offset. Oracles: no panic, index in range, children consecutive/contiguous/non-overlapping, selected item inside the viewport after a selection change and a draw, pager content complete (incl. an unterminated last line and wide glyphs at the row end) and offset clamped; operation sequences are not merged (state key = the path)",
		Exhaustive: true,
		Bounds:     map[string]any{"list_depth": r.Pick(3, 4), "dynamic_depth": r.Pick(3, 4), "dynamic_configs": dynRange, "pager_max_len": r.Pick(5, 6)},
	})
}
