package main

import (
	"go/ast"
	"go/token"
	"strconv"
)

// Access instrumentation (sched mode): before every statement, the reads and
// writes of fields of the tracked struct types that the statement performs
// through a receiver, parameter or `.Vx` path are reported to
// vsched.Acc(obj, "Type.field", write), which runs a happens-before (vector
// clock) race check. Fields that are synchronisation objects themselves
// (channels, mutexes, pools) and fields whose address is taken (atomics) are
// not reported.

var trackedTypes = map[string][]string{
	".":               {"Vaxis", "writer"},
	"ansi":            {"Parser"},
	"widgets/spinner": {"Model"},
	"widgets/term":    {"Model"},
}

// fieldsOf collects, for every tracked struct type declared in the files, the set of plain data fields.
func fieldsOf(files []*ast.File, types []string) map[string]map[string]bool {
	refFields = map[string]bool{}
	want := map[string]bool{}
	for _, t := range types {
		want[t] = true
	}
	out := map[string]map[string]bool{}
	for _, f := range files {
		for _, d := range f.Decls {
			gd, ok := d.(*ast.GenDecl)
			if !ok || gd.Tok != token.TYPE {
				continue
			}
			for _, sp := range gd.Specs {
				ts := sp.(*ast.TypeSpec)
				st, ok := ts.Type.(*ast.StructType)
				if !ok || !want[ts.Name.Name] {
					continue
				}
				m := map[string]bool{}
				for _, fl := range st.Fields.List {
					if isSyncType(fl.Type) {
						continue
					}
					for _, n := range fl.Names {
						m[n.Name] = true
						switch fl.Type.(type) {
						case *ast.StarExpr, *ast.InterfaceType, *ast.FuncType:
							refFields[ts.Name.Name+"."+n.Name] = true
						case *ast.SelectorExpr:
							// console.Console, io.Writer ...: interfaces of other packages
							refFields[ts.Name.Name+"."+n.Name] = true
						}
					}
				}
				out[ts.Name.Name] = m
			}
		}
	}
	return out
}

func isSyncType(e ast.Expr) bool {
	switch t := e.(type) {
	case *ast.ChanType:
		return true
	case *ast.SelectorExpr:
		if id, ok := t.X.(*ast.Ident); ok && (id.Name == "sync" || id.Name == "atomic") {
			return true
		}
	case *ast.IndexExpr: // pool[T]
		if id, ok := t.X.(*ast.Ident); ok && id.Name == "pool" {
			return true
		}
	}
	return false
}

// refFields are fields holding a pointer or interface: x.f.g = v reads f, it does not write it.
var refFields = map[string]bool{}

type accessRewriter struct {
	fields  map[string]map[string]bool // type -> data fields
	changed bool
	fn      string // enclosing function, for reports
}

type access struct {
	obj   ast.Expr
	label string
	write bool
}

func trackedTypeOf(e ast.Expr, fields map[string]map[string]bool) string {
	if st, ok := e.(*ast.StarExpr); ok {
		e = st.X
	}
	if id, ok := e.(*ast.Ident); ok {
		if _, ok := fields[id.Name]; ok {
			return id.Name
		}
	}
	return ""
}

// instrumentAccesses rewrites all function bodies of the file.
func instrumentAccesses(f *ast.File, fields map[string]map[string]bool) bool {
	rw := &accessRewriter{fields: fields}
	for _, d := range f.Decls {
		fd, ok := d.(*ast.FuncDecl)
		if !ok || fd.Body == nil {
			continue
		}
		env := map[string]string{}
		bind := func(fl *ast.FieldList) {
			if fl == nil {
				return
			}
			for _, p := range fl.List {
				if t := trackedTypeOf(p.Type, fields); t != "" {
					for _, n := range p.Names {
						env[n.Name] = t
					}
				}
			}
		}
		bind(fd.Recv)
		bind(fd.Type.Params)
		rw.fn = fd.Name.Name
		if fd.Recv != nil && len(fd.Recv.List) == 1 {
			t := fd.Recv.List[0].Type
			if st, ok := t.(*ast.StarExpr); ok {
				t = st.X
			}
			if id, ok := t.(*ast.Ident); ok {
				rw.fn = id.Name + "." + fd.Name.Name
			}
		}
		rw.block(fd.Body, env)
		if fd.Recv != nil && len(fd.Recv.List) == 1 && trackedTypeOf(fd.Recv.List[0].Type, fields) != "" {
			enter := &ast.DeferStmt{Call: call(sel("vsched", "Leave"), call(sel("vsched", "Enter"), &ast.BasicLit{Kind: token.STRING, Value: strconv.Quote(rw.fn)}))}
			fd.Body.List = append([]ast.Stmt{enter}, fd.Body.List...)
			rw.changed = true
		}
	}
	return rw.changed
}

func copyEnv(env map[string]string) map[string]string {
	c := map[string]string{}
	for k, v := range env {
		c[k] = v
	}
	return c
}

func (rw *accessRewriter) block(b *ast.BlockStmt, env map[string]string) {
	if b == nil {
		return
	}
	b.List = rw.list(b.List, env)
}

func (rw *accessRewriter) list(list []ast.Stmt, env map[string]string) []ast.Stmt {
	var out []ast.Stmt
	for _, s := range list {
		var acc []access
		rw.own(s, env, &acc)
		out = append(out, rw.calls(acc)...)
		out = append(out, s)
		rw.nested(s, env)
	}
	return out
}

func (rw *accessRewriter) calls(acc []access) []ast.Stmt {
	var out []ast.Stmt
	seen := map[string]bool{}
	for _, a := range acc {
		key := a.label + strconv.FormatBool(a.write) + exprString(a.obj)
		if seen[key] {
			continue
		}
		seen[key] = true
		rw.changed = true
		w := "false"
		if a.write {
			w = "true"
		}
		out = append(out, &ast.ExprStmt{X: call(sel("vsched", "Acc"), a.obj, &ast.BasicLit{Kind: token.STRING, Value: strconv.Quote(a.label)}, ast.NewIdent(w), &ast.BasicLit{Kind: token.STRING, Value: strconv.Quote(rw.fn)})})
	}
	return out
}

func exprString(e ast.Expr) string {
	switch x := e.(type) {
	case *ast.Ident:
		return x.Name
	case *ast.SelectorExpr:
		return exprString(x.X) + "." + x.Sel.Name
	}
	return "?"
}

// nested descends into the blocks and function literals contained in s.
func (rw *accessRewriter) nested(s ast.Stmt, env map[string]string) {
	switch x := s.(type) {
	case *ast.BlockStmt:
		rw.block(x, env)
	case *ast.LabeledStmt:
		rw.nested(x.Stmt, env)
	case *ast.IfStmt:
		rw.block(x.Body, env)
		if x.Else != nil {
			rw.nested(x.Else, env)
		}
		rw.lits(x.Cond, env)
	case *ast.ForStmt:
		rw.block(x.Body, env)
	case *ast.RangeStmt:
		rw.block(x.Body, env)
	case *ast.SwitchStmt:
		rw.block(x.Body, env)
	case *ast.TypeSwitchStmt:
		rw.block(x.Body, env)
	case *ast.SelectStmt:
		rw.block(x.Body, env)
	case *ast.CaseClause:
		x.Body = rw.list(x.Body, env)
	case *ast.CommClause:
		x.Body = rw.list(x.Body, env)
	case *ast.ExprStmt:
		rw.lits(x.X, env)
	case *ast.AssignStmt:
		for _, e := range x.Rhs {
			rw.lits(e, env)
		}
	case *ast.DeferStmt:
		rw.lits(x.Call, env)
	case *ast.GoStmt:
		rw.lits(x.Call, env)
	case *ast.ReturnStmt:
		for _, e := range x.Results {
			rw.lits(e, env)
		}
	case *ast.DeclStmt:
		if gd, ok := x.Decl.(*ast.GenDecl); ok {
			for _, sp := range gd.Specs {
				if vs, ok := sp.(*ast.ValueSpec); ok {
					for _, e := range vs.Values {
						rw.lits(e, env)
					}
				}
			}
		}
	}
}

// lits instruments the bodies of function literals inside an expression.
func (rw *accessRewriter) lits(e ast.Expr, env map[string]string) {
	if e == nil {
		return
	}
	ast.Inspect(e, func(n ast.Node) bool {
		if fl, ok := n.(*ast.FuncLit); ok {
			inner := copyEnv(env)
			if fl.Type.Params != nil {
				for _, p := range fl.Type.Params.List {
					t := trackedTypeOf(p.Type, rw.fields)
					for _, nm := range p.Names {
						if t != "" {
							inner[nm.Name] = t
						} else {
							delete(inner, nm.Name)
						}
					}
				}
			}
			rw.block(fl.Body, inner)
			return false
		}
		return true
	})
}

// own collects the accesses performed by the statement itself (not by nested blocks).
func (rw *accessRewriter) own(s ast.Stmt, env map[string]string, acc *[]access) {
	switch x := s.(type) {
	case *ast.LabeledStmt:
		rw.own(x.Stmt, env, acc)
	case *ast.ExprStmt:
		rw.reads(x.X, env, acc)
	case *ast.AssignStmt:
		for _, e := range x.Rhs {
			rw.reads(e, env, acc)
		}
		for _, e := range x.Lhs {
			rw.writes(e, env, acc, x.Tok != token.ASSIGN && x.Tok != token.DEFINE)
		}
	case *ast.IncDecStmt:
		rw.writes(x.X, env, acc, true)
	case *ast.SendStmt:
		rw.reads(x.Chan, env, acc)
		rw.reads(x.Value, env, acc)
	case *ast.ReturnStmt:
		for _, e := range x.Results {
			rw.reads(e, env, acc)
		}
	case *ast.DeferStmt:
		rw.callArgs(x.Call, env, acc)
	case *ast.GoStmt:
		rw.callArgs(x.Call, env, acc)
	case *ast.IfStmt:
		if x.Init != nil {
			rw.own(x.Init, env, acc)
		}
		rw.reads(x.Cond, env, acc)
	case *ast.ForStmt:
		if x.Init != nil {
			rw.own(x.Init, env, acc)
		}
		rw.reads(x.Cond, env, acc)
	case *ast.RangeStmt:
		rw.reads(x.X, env, acc)
	case *ast.SwitchStmt:
		if x.Init != nil {
			rw.own(x.Init, env, acc)
		}
		rw.reads(x.Tag, env, acc)
	case *ast.TypeSwitchStmt:
		if x.Init != nil {
			rw.own(x.Init, env, acc)
		}
		rw.own(x.Assign, env, acc)
	case *ast.DeclStmt:
		if gd, ok := x.Decl.(*ast.GenDecl); ok {
			for _, sp := range gd.Specs {
				if vs, ok := sp.(*ast.ValueSpec); ok {
					for _, e := range vs.Values {
						rw.reads(e, env, acc)
					}
				}
			}
		}
	}
}

func (rw *accessRewriter) callArgs(c *ast.CallExpr, env map[string]string, acc *[]access) {
	// deferred / spawned calls evaluate the function value and the arguments now
	if se, ok := c.Fun.(*ast.SelectorExpr); ok {
		rw.reads(se.X, env, acc)
	}
	for _, a := range c.Args {
		rw.reads(a, env, acc)
	}
}

// field resolves e to (object expression, label) if it denotes a tracked field.
func (rw *accessRewriter) field(e ast.Expr, env map[string]string) (ast.Expr, string, bool) {
	se, ok := e.(*ast.SelectorExpr)
	if !ok {
		return nil, "", false
	}
	switch b := se.X.(type) {
	case *ast.Ident:
		if t, ok := env[b.Name]; ok && rw.fields[t][se.Sel.Name] {
			return ast.NewIdent(b.Name), t + "." + se.Sel.Name, true
		}
	case *ast.SelectorExpr:
		// <expr>.Vx.f and <writer>.vx.f reach the Vaxis
		if (b.Sel.Name == "Vx" || b.Sel.Name == "vx") && rw.fields["Vaxis"][se.Sel.Name] && pure(b.X) {
			return b, "Vaxis." + se.Sel.Name, true
		}
	}
	return nil, "", false
}

func pure(e ast.Expr) bool {
	switch x := e.(type) {
	case *ast.Ident:
		return true
	case *ast.SelectorExpr:
		return pure(x.X)
	}
	return false
}

func (rw *accessRewriter) reads(e ast.Expr, env map[string]string, acc *[]access) {
	if e == nil {
		return
	}
	switch x := e.(type) {
	case *ast.FuncLit:
		return
	case *ast.UnaryExpr:
		if x.Op == token.AND {
			// address taken (atomics, out-parameters): not an access here; index/inner expressions still are
			if obj, _, ok := rw.field(x.X, env); ok {
				_ = obj
				return
			}
		}
		rw.reads(x.X, env, acc)
	case *ast.SelectorExpr:
		if obj, label, ok := rw.field(x, env); ok {
			*acc = append(*acc, access{obj, label, false})
			return
		}
		rw.reads(x.X, env, acc)
	case *ast.CallExpr:
		rw.reads(x.Fun, env, acc)
		for _, a := range x.Args {
			rw.reads(a, env, acc)
		}
	case *ast.BinaryExpr:
		rw.reads(x.X, env, acc)
		rw.reads(x.Y, env, acc)
	case *ast.ParenExpr:
		rw.reads(x.X, env, acc)
	case *ast.IndexExpr:
		rw.reads(x.X, env, acc)
		rw.reads(x.Index, env, acc)
	case *ast.SliceExpr:
		rw.reads(x.X, env, acc)
		rw.reads(x.Low, env, acc)
		rw.reads(x.High, env, acc)
		rw.reads(x.Max, env, acc)
	case *ast.StarExpr:
		rw.reads(x.X, env, acc)
	case *ast.TypeAssertExpr:
		rw.reads(x.X, env, acc)
	case *ast.CompositeLit:
		for _, el := range x.Elts {
			rw.reads(el, env, acc)
		}
	case *ast.KeyValueExpr:
		rw.reads(x.Value, env, acc)
	}
}

// writes handles an assignment target: x.f = .., x.f.g = .., x.f[i] = ..
func (rw *accessRewriter) writes(e ast.Expr, env map[string]string, acc *[]access, alsoRead bool) {
	switch x := e.(type) {
	case *ast.SelectorExpr:
		if obj, label, ok := rw.field(x, env); ok {
			*acc = append(*acc, access{obj, label, true})
			return
		}
		// x.f.g = ..: a write into the value of field f (struct) or through it (pointer: then only a read of f)
		if obj, label, ok := rw.field(x.X, env); ok {
			*acc = append(*acc, access{obj, label, !refFields[label]})
			return
		}
		rw.reads(x.X, env, acc)
	case *ast.IndexExpr:
		// x.f[i] = ..: the map/slice is modified; count it as a write of the field
		if obj, label, ok := rw.field(x.X, env); ok {
			*acc = append(*acc, access{obj, label, true})
		} else {
			rw.reads(x.X, env, acc)
		}
		rw.reads(x.Index, env, acc)
	case *ast.StarExpr:
		rw.reads(x.X, env, acc)
	case *ast.ParenExpr:
		rw.writes(x.X, env, acc, alsoRead)
	}
}
