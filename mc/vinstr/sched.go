package main

import (
	"fmt"
	"go/ast"
	"go/token"
	"strconv"
)

// sched mode: every channel operation, go statement, select, close, mutex and
// atomic access of the instrumented sources becomes a call into verifshim/vsched,
// so that the controlled scheduler decides when it happens.
//
//	go f(a)                 ->  vsched.Go(func() { f(a) })
//	ch <- v                 ->  vsched.Pre(ch, vsched.Send) <- v
//	x := <-ch               ->  x := <-vsched.Pre(ch, vsched.Recv); vsched.Post()
//	close(ch)               ->  vsched.Close(ch)
//	for x := range call()   ->  for { x, ok := <-vsched.Pre(c, Recv); vsched.Post(); if !ok {break}; ... }   (only .Next()/.Events() calls)
//	select { ... }          ->  { c0 := ..; switch vsched.Select(hasDefault, c0, kind, ...) { case 0: x := <-c0; vsched.Post(); ... } }
//	import "sync"           ->  verifshim/vsync,  "sync/atomic" -> verifshim/vatomic

var schedImports = map[string][2]string{
	"sync":                  {"sync", modPath + "/verifshim/vsync"},
	"sync/atomic":           {"atomic", modPath + "/verifshim/vatomic"},
	"github.com/creack/pty": {"pty", modPath + "/verifshim/vpty"},
}

// schedImported: the last rewriteSched call added the vsched import
var schedImported bool

type schedRewriter struct {
	fset    *token.FileSet
	changed bool
	n       int
	err     error
}

func sel(pkg, name string) ast.Expr {
	return &ast.SelectorExpr{X: ast.NewIdent(pkg), Sel: ast.NewIdent(name)}
}

func call(fn ast.Expr, args ...ast.Expr) *ast.CallExpr { return &ast.CallExpr{Fun: fn, Args: args} }

func preCall(ch ast.Expr, kind string) ast.Expr {
	return call(sel("vsched", "Pre"), ch, sel("vsched", kind))
}

func postStmt() ast.Stmt { return &ast.ExprStmt{X: call(sel("vsched", "Post"))} }

func rewriteSched(fset *token.FileSet, f *ast.File) (bool, error) {
	rw := &schedRewriter{fset: fset}
	importChanged := false
	for _, imp := range f.Imports {
		p, _ := strconv.Unquote(imp.Path.Value)
		if r, ok := schedImports[p]; ok {
			if imp.Name == nil {
				imp.Name = ast.NewIdent(r[0])
			}
			imp.Path.Value = strconv.Quote(r[1])
			importChanged = true
		}
	}
	for _, d := range f.Decls {
		fd, ok := d.(*ast.FuncDecl)
		if !ok || fd.Body == nil {
			continue
		}
		rw.block(fd.Body)
	}
	// function literals in package-level variable initialisers
	for _, d := range f.Decls {
		if gd, ok := d.(*ast.GenDecl); ok {
			ast.Inspect(gd, func(n ast.Node) bool {
				if fl, ok := n.(*ast.FuncLit); ok {
					rw.block(fl.Body)
					return false
				}
				return true
			})
		}
	}
	if rw.err != nil {
		return false, rw.err
	}
	schedImported = rw.changed
	if rw.changed {
		addImport(f, "vsched", modPath+"/verifshim/vsched")
		// synthesized nodes have no positions: drop the comments inside the file body
		// (build constraints precede the package clause and are kept)
		var keep []*ast.CommentGroup
		for _, cg := range f.Comments {
			if cg.End() < f.Package {
				keep = append(keep, cg)
			}
		}
		f.Comments = keep
	}
	return rw.changed || importChanged, nil
}

func addImport(f *ast.File, name, path string) {
	spec := &ast.ImportSpec{Name: ast.NewIdent(name), Path: &ast.BasicLit{Kind: token.STRING, Value: strconv.Quote(path)}}
	for _, d := range f.Decls {
		if gd, ok := d.(*ast.GenDecl); ok && gd.Tok == token.IMPORT {
			gd.Specs = append(gd.Specs, spec)
			if !gd.Lparen.IsValid() {
				gd.Lparen = gd.Pos()
				gd.Rparen = gd.End()
			}
			f.Imports = append(f.Imports, spec)
			return
		}
	}
	gd := &ast.GenDecl{Tok: token.IMPORT, Specs: []ast.Spec{spec}}
	f.Decls = append([]ast.Decl{gd}, f.Decls...)
	f.Imports = append(f.Imports, spec)
}

// block rewrites the statements of a block in place.
func (rw *schedRewriter) block(b *ast.BlockStmt) {
	if b == nil {
		return
	}
	b.List = rw.stmts(b.List)
}

func (rw *schedRewriter) stmts(list []ast.Stmt) []ast.Stmt {
	var out []ast.Stmt
	for _, s := range list {
		out = append(out, rw.stmt(s)...)
	}
	return out
}

// exprs rewrites receive expressions, close calls and function literals inside an
// expression; reports whether a receive was rewritten.
func (rw *schedRewriter) expr(e *ast.Expr) (recv bool) {
	if e == nil || *e == nil {
		return false
	}
	switch x := (*e).(type) {
	case *ast.FuncLit:
		rw.block(x.Body)
		return false
	case *ast.UnaryExpr:
		if x.Op == token.ARROW {
			rw.expr(&x.X)
			x.X = preCall(x.X, "Recv")
			rw.changed = true
			return true
		}
		return rw.expr(&x.X)
	case *ast.CallExpr:
		if se, ok := x.Fun.(*ast.SelectorExpr); ok && se.Sel.Name == "NewParser" && len(x.Args) == 1 {
			if as, ok := x.Args[0].(*ast.SelectorExpr); ok && as.Sel.Name == "pty" {
				// the parser of the embedded terminal reads the PTY through the scheduler
				x.Args[0] = call(sel("pty", "Reader"), x.Args[0])
				rw.changed = true
			}
		}
		if id, ok := x.Fun.(*ast.Ident); ok && id.Name == "close" && len(x.Args) == 1 {
			rw.expr(&x.Args[0])
			x.Fun = sel("vsched", "Close")
			rw.changed = true
			return false
		}
		r := rw.expr(&x.Fun)
		for i := range x.Args {
			if rw.expr(&x.Args[i]) {
				r = true
			}
		}
		return r
	case *ast.ParenExpr:
		return rw.expr(&x.X)
	case *ast.BinaryExpr:
		a := rw.expr(&x.X)
		b := rw.expr(&x.Y)
		return a || b
	case *ast.SelectorExpr:
		return rw.expr(&x.X)
	case *ast.IndexExpr:
		a := rw.expr(&x.X)
		b := rw.expr(&x.Index)
		return a || b
	case *ast.StarExpr:
		return rw.expr(&x.X)
	case *ast.TypeAssertExpr:
		return rw.expr(&x.X)
	case *ast.SliceExpr:
		return rw.expr(&x.X)
	case *ast.CompositeLit:
		r := false
		for i := range x.Elts {
			if rw.expr(&x.Elts[i]) {
				r = true
			}
		}
		return r
	case *ast.KeyValueExpr:
		return rw.expr(&x.Value)
	}
	return false
}

func (rw *schedRewriter) stmt(s ast.Stmt) []ast.Stmt {
	switch x := s.(type) {
	case *ast.BlockStmt:
		rw.block(x)
	case *ast.LabeledStmt:
		if ss, ok := x.Stmt.(*ast.SelectStmt); ok {
			blk := rw.selectStmt(ss)
			// keep the label on the switch so that `break L` still works
			n := len(blk.List)
			blk.List[n-1] = &ast.LabeledStmt{Label: x.Label, Stmt: blk.List[n-1]}
			return []ast.Stmt{blk}
		}
		inner := rw.stmt(x.Stmt)
		x.Stmt = inner[0]
		return append([]ast.Stmt{x}, inner[1:]...)
	case *ast.GoStmt:
		for i := range x.Call.Args {
			rw.expr(&x.Call.Args[i])
		}
		rw.expr(&x.Call.Fun)
		rw.changed = true
		var fn ast.Expr
		if fl, ok := x.Call.Fun.(*ast.FuncLit); ok && len(x.Call.Args) == 0 && fl.Type.Params.NumFields() == 0 {
			fn = fl
		} else {
			fn = &ast.FuncLit{Type: &ast.FuncType{Params: &ast.FieldList{}}, Body: &ast.BlockStmt{List: []ast.Stmt{&ast.ExprStmt{X: x.Call}}}}
		}
		return []ast.Stmt{&ast.ExprStmt{X: call(sel("vsched", "Go"), fn)}}
	case *ast.SendStmt:
		rw.expr(&x.Chan)
		rw.expr(&x.Value)
		x.Chan = preCall(x.Chan, "Send")
		rw.changed = true
	case *ast.ExprStmt:
		if rw.expr(&x.X) {
			return []ast.Stmt{x, postStmt()}
		}
	case *ast.AssignStmt:
		r := false
		for i := range x.Rhs {
			if rw.expr(&x.Rhs[i]) {
				r = true
			}
		}
		for i := range x.Lhs {
			rw.expr(&x.Lhs[i])
		}
		if r {
			return []ast.Stmt{x, postStmt()}
		}
	case *ast.DeclStmt:
		if gd, ok := x.Decl.(*ast.GenDecl); ok {
			r := false
			for _, sp := range gd.Specs {
				if vs, ok := sp.(*ast.ValueSpec); ok {
					for i := range vs.Values {
						if rw.expr(&vs.Values[i]) {
							r = true
						}
					}
				}
			}
			if r {
				return []ast.Stmt{x, postStmt()}
			}
		}
	case *ast.ReturnStmt:
		for i := range x.Results {
			if rw.expr(&x.Results[i]) {
				rw.err = fmt.Errorf("%s: receive inside return statement is not supported", rw.fset.Position(x.Pos()))
			}
		}
	case *ast.DeferStmt:
		rw.expr(&x.Call.Fun)
		for i := range x.Call.Args {
			rw.expr(&x.Call.Args[i])
		}
	case *ast.IfStmt:
		var pre []ast.Stmt
		if x.Init != nil {
			in := rw.stmt(x.Init)
			if len(in) > 1 {
				rw.err = fmt.Errorf("%s: receive inside if-init is not supported", rw.fset.Position(x.Pos()))
			}
			x.Init = in[0]
		}
		if rw.expr(&x.Cond) {
			rw.err = fmt.Errorf("%s: receive inside if condition is not supported", rw.fset.Position(x.Pos()))
		}
		rw.block(x.Body)
		if x.Else != nil {
			e := rw.stmt(x.Else)
			x.Else = e[0]
		}
		return append(pre, x)
	case *ast.ForStmt:
		if x.Init != nil {
			x.Init = rw.stmt(x.Init)[0]
		}
		if x.Cond != nil && rw.expr(&x.Cond) {
			rw.err = fmt.Errorf("%s: receive inside for condition is not supported", rw.fset.Position(x.Pos()))
		}
		if x.Post != nil {
			x.Post = rw.stmt(x.Post)[0]
		}
		rw.block(x.Body)
	case *ast.RangeStmt:
		rw.block(x.Body)
		if ce, ok := x.X.(*ast.CallExpr); ok {
			if se, ok := ce.Fun.(*ast.SelectorExpr); ok && (se.Sel.Name == "Next" || se.Sel.Name == "Events") && len(ce.Args) == 0 {
				return []ast.Stmt{rw.rangeChan(x)}
			}
		}
		rw.expr(&x.X)
	case *ast.SwitchStmt:
		if x.Init != nil {
			x.Init = rw.stmt(x.Init)[0]
		}
		rw.expr(&x.Tag)
		rw.block(x.Body)
	case *ast.TypeSwitchStmt:
		if x.Init != nil {
			x.Init = rw.stmt(x.Init)[0]
		}
		rw.block(x.Body)
	case *ast.CaseClause:
		for i := range x.List {
			rw.expr(&x.List[i])
		}
		x.Body = rw.stmts(x.Body)
	case *ast.SelectStmt:
		return []ast.Stmt{rw.selectStmt(x)}
	case *ast.IncDecStmt:
		rw.expr(&x.X)
	}
	return []ast.Stmt{s}
}

func (rw *schedRewriter) fresh(prefix string) *ast.Ident {
	rw.n++
	return ast.NewIdent(fmt.Sprintf("verif%s%d", prefix, rw.n))
}

// rangeChan rewrites `for k := range X.Next()`.
func (rw *schedRewriter) rangeChan(x *ast.RangeStmt) ast.Stmt {
	rw.changed = true
	ch := rw.fresh("Ch")
	ok := rw.fresh("Ok")
	var key ast.Expr = ast.NewIdent("_")
	if x.Key != nil {
		key = x.Key
	}
	tok := token.DEFINE
	if x.Tok == token.ASSIGN {
		// `for k = range ch`: ok must be declared separately
		tok = token.ASSIGN
	}
	var body []ast.Stmt
	recvStmt := &ast.AssignStmt{Lhs: []ast.Expr{key, ok}, Tok: token.DEFINE, Rhs: []ast.Expr{&ast.UnaryExpr{Op: token.ARROW, X: preCall(ch, "Recv")}}}
	if tok == token.ASSIGN {
		rw.err = fmt.Errorf("%s: range with assignment over a channel is not supported", rw.fset.Position(x.Pos()))
	}
	body = append(body, recvStmt, postStmt(),
		&ast.IfStmt{Cond: &ast.UnaryExpr{Op: token.NOT, X: ok}, Body: &ast.BlockStmt{List: []ast.Stmt{&ast.BranchStmt{Tok: token.BREAK}}}})
	body = append(body, x.Body.List...)
	return &ast.BlockStmt{List: []ast.Stmt{
		&ast.AssignStmt{Lhs: []ast.Expr{ch}, Tok: token.DEFINE, Rhs: []ast.Expr{x.X}},
		&ast.ForStmt{Body: &ast.BlockStmt{List: body}},
	}}
}

func (rw *schedRewriter) selectStmt(x *ast.SelectStmt) *ast.BlockStmt {
	rw.changed = true
	var hoists []ast.Stmt
	var args []ast.Expr
	var clauses []ast.Stmt
	hasDefault := false
	idx := 0
	for _, c := range x.Body.List {
		cc := c.(*ast.CommClause)
		body := rw.stmts(cc.Body)
		if cc.Comm == nil {
			hasDefault = true
			clauses = append(clauses, &ast.CaseClause{Body: body})
			continue
		}
		chv := rw.fresh("C")
		var opStmts []ast.Stmt
		switch cm := cc.Comm.(type) {
		case *ast.SendStmt:
			rw.expr(&cm.Chan)
			rw.expr(&cm.Value)
			val := rw.fresh("V")
			hoists = append(hoists,
				&ast.AssignStmt{Lhs: []ast.Expr{chv}, Tok: token.DEFINE, Rhs: []ast.Expr{cm.Chan}},
				&ast.AssignStmt{Lhs: []ast.Expr{val}, Tok: token.DEFINE, Rhs: []ast.Expr{cm.Value}})
			args = append(args, chv, sel("vsched", "Send"))
			opStmts = []ast.Stmt{&ast.SendStmt{Chan: chv, Value: val}}
		case *ast.ExprStmt: // case <-ch:
			ue := cm.X.(*ast.UnaryExpr)
			rw.expr(&ue.X)
			hoists = append(hoists, &ast.AssignStmt{Lhs: []ast.Expr{chv}, Tok: token.DEFINE, Rhs: []ast.Expr{ue.X}})
			args = append(args, chv, sel("vsched", "Recv"))
			opStmts = []ast.Stmt{&ast.ExprStmt{X: &ast.UnaryExpr{Op: token.ARROW, X: chv}}, postStmt()}
		case *ast.AssignStmt: // case x := <-ch:  /  case x, ok = <-ch:
			ue := cm.Rhs[0].(*ast.UnaryExpr)
			rw.expr(&ue.X)
			hoists = append(hoists, &ast.AssignStmt{Lhs: []ast.Expr{chv}, Tok: token.DEFINE, Rhs: []ast.Expr{ue.X}})
			args = append(args, chv, sel("vsched", "Recv"))
			as := &ast.AssignStmt{Lhs: cm.Lhs, Tok: cm.Tok, Rhs: []ast.Expr{&ast.UnaryExpr{Op: token.ARROW, X: chv}}}
			opStmts = []ast.Stmt{as, postStmt()}
			// keep "declared and not used" away when the body ignores the variable
			if cm.Tok == token.DEFINE {
				for _, l := range cm.Lhs {
					if id, ok := l.(*ast.Ident); ok && id.Name != "_" {
						opStmts = append(opStmts, &ast.AssignStmt{Lhs: []ast.Expr{ast.NewIdent("_")}, Tok: token.ASSIGN, Rhs: []ast.Expr{ast.NewIdent(id.Name)}})
					}
				}
			}
		}
		clauses = append(clauses, &ast.CaseClause{
			List: []ast.Expr{&ast.BasicLit{Kind: token.INT, Value: strconv.Itoa(idx)}},
			Body: append(opStmts, body...),
		})
		idx++
	}
	hd := "false"
	if hasDefault {
		hd = "true"
	} else {
		clauses = append(clauses, &ast.CaseClause{Body: []ast.Stmt{&ast.ExprStmt{X: call(ast.NewIdent("panic"), &ast.BasicLit{Kind: token.STRING, Value: strconv.Quote("vsched: no select case chosen")})}}})
	}
	sw := &ast.SwitchStmt{
		Tag:  call(sel("vsched", "Select"), append([]ast.Expr{ast.NewIdent(hd)}, args...)...),
		Body: &ast.BlockStmt{List: clauses},
	}
	// the hoisted channel variables must count as used even if Select got them as `any`
	return &ast.BlockStmt{List: append(hoists, sw)}
}
