package main

import (
	"go/ast"
	"go/token"
)

// rewriteSched is filled in with the scheduler instrumentation.
func rewriteSched(fset *token.FileSet, f *ast.File) (bool, error) {
	return false, nil
}
