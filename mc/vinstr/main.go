// vinstr regenerates, from /repo's current working tree, an instrumented copy of
// the vaxis packages plus a `go build -overlay` file. /repo is never modified.
//
//	mode seq:   import paths time/context/os/signal -> verifshim/{vtime,vctx,vsignal}
//	mode sched: additionally channel operations, go statements, select, close,
//	            sync and sync/atomic are routed through verifshim/vsched (sched.go)
package main

import (
	"bytes"
	"encoding/json"
	"flag"
	"fmt"
	"go/ast"
	"go/format"
	"go/parser"
	"go/token"
	"os"
	"path/filepath"
	"strconv"
	"strings"
)

const modPath = "git.sr.ht/~rockorager/vaxis"

var seqImports = map[string][2]string{
	"time":      {"time", modPath + "/verifshim/vtime"},
	"context":   {"context", modPath + "/verifshim/vctx"},
	"os/signal": {"signal", modPath + "/verifshim/vsignal"},
}

// packages whose concurrency is put under the controlled scheduler in sched mode
var schedPkgs = map[string]bool{".": true, "ansi": true, "widgets/spinner": true, "widgets/term": true}

var curFields map[string]map[string]bool

type multi []string

func (m *multi) String() string     { return strings.Join(*m, ",") }
func (m *multi) Set(s string) error { *m = append(*m, s); return nil }

func fatal(format string, a ...any) {
	fmt.Fprintf(os.Stderr, "vinstr: "+format+"\n", a...)
	os.Exit(2)
}

func main() {
	repo := flag.String("repo", "/repo", "repository root")
	out := flag.String("out", "", "scratch directory for rewritten files")
	mode := flag.String("mode", "seq", "seq|sched|none")
	shims := flag.String("shims", "/verif/mc/shim", "directory with shim packages")
	var pkgs, adds multi
	flag.Var(&pkgs, "pkg", "package directory relative to repo (repeatable; '.' = root)")
	flag.Var(&adds, "add", "extra overlay entry target=source (repeatable)")
	flag.Parse()
	if *out == "" {
		fatal("-out required")
	}
	if len(pkgs) == 0 {
		pkgs = multi{".", "ansi", "vxfw", "widgets/term", "widgets/spinner"}
	}
	replace := map[string]string{}

	// explicit additions first: a mutant or candidate fix replaces the source
	// that is then instrumented.
	srcOverride := map[string]string{}
	for _, a := range adds {
		kv := strings.SplitN(a, "=", 2)
		if len(kv) != 2 {
			fatal("bad -add %q", a)
		}
		srcOverride[kv[0]] = kv[1]
		replace[kv[0]] = kv[1]
	}

	if *mode != "none" {
		for _, pkg := range pkgs {
			dir := filepath.Join(*repo, pkg)
			ents, err := os.ReadDir(dir)
			if err != nil {
				fatal("%v", err)
			}
			curFields = nil
			if *mode == "sched" && schedPkgs[pkg] && len(trackedTypes[pkg]) > 0 {
				var files []*ast.File
				for _, e := range ents {
					name := e.Name()
					if e.IsDir() || !strings.HasSuffix(name, ".go") || strings.HasSuffix(name, "_test.go") {
						continue
					}
					src := filepath.Join(dir, name)
					if o, ok := srcOverride[src]; ok {
						src = o
					}
					if f, err := parser.ParseFile(token.NewFileSet(), src, nil, 0); err == nil {
						files = append(files, f)
					}
				}
				curFields = fieldsOf(files, trackedTypes[pkg])
			}
			for _, e := range ents {
				name := e.Name()
				if e.IsDir() || !strings.HasSuffix(name, ".go") || strings.HasSuffix(name, "_test.go") {
					continue
				}
				target := filepath.Join(dir, name)
				src := target
				if o, ok := srcOverride[target]; ok {
					src = o
				}
				data, err := os.ReadFile(src)
				if err != nil {
					fatal("%v", err)
				}
				m := *mode
				if m == "sched" && !schedPkgs[pkg] {
					m = "seq"
				}
				res, changed, err := rewrite(target, data, m)
				if err != nil {
					fatal("%s: %v", target, err)
				}
				if !changed {
					continue
				}
				dst := filepath.Join(*out, "src", pkg, name)
				os.MkdirAll(filepath.Dir(dst), 0o755)
				if err := os.WriteFile(dst, res, 0o644); err != nil {
					fatal("%v", err)
				}
				replace[target] = dst
			}
		}
		// shims become virtual packages inside the vaxis module
		sents, err := os.ReadDir(*shims)
		if err != nil {
			fatal("%v", err)
		}
		for _, s := range sents {
			if !s.IsDir() {
				continue
			}
			files, _ := os.ReadDir(filepath.Join(*shims, s.Name()))
			for _, f := range files {
				if strings.HasSuffix(f.Name(), ".go") && !strings.HasSuffix(f.Name(), "_test.go") {
					replace[filepath.Join(*repo, "verifshim", s.Name(), f.Name())] =
						filepath.Join(*shims, s.Name(), f.Name())
				}
			}
		}
	}
	data, _ := json.MarshalIndent(map[string]any{"Replace": replace}, "", " ")
	if err := os.WriteFile(filepath.Join(*out, "overlay.json"), data, 0o644); err != nil {
		fatal("%v", err)
	}
}

func rewrite(filename string, src []byte, mode string) ([]byte, bool, error) {
	fset := token.NewFileSet()
	f, err := parser.ParseFile(fset, filename, src, parser.ParseComments)
	if err != nil {
		return nil, false, err
	}
	changed := false
	for _, imp := range f.Imports {
		p, _ := strconv.Unquote(imp.Path.Value)
		if r, ok := seqImports[p]; ok {
			if imp.Name == nil {
				imp.Name = ast.NewIdent(r[0])
			}
			imp.Path.Value = strconv.Quote(r[1])
			changed = true
		}
	}
	if addFailpoints(f) {
		changed = true
	}
	if mode == "sched" {
		c, err := rewriteSched(fset, f)
		if err != nil {
			return nil, false, err
		}
		changed = changed || c
		if curFields != nil && instrumentAccesses(f, curFields) {
			if !schedImported {
				addImport(f, "vsched", modPath+"/verifshim/vsched")
			}
			changed = true
		}
	}
	if !changed {
		return nil, false, nil
	}
	var buf bytes.Buffer
	if err := format.Node(&buf, fset, f); err != nil {
		return nil, false, err
	}
	return buf.Bytes(), true, nil
}

// failpoints: function name -> failpoint name (package vaxis only)
var failpoints = map[string]string{"handleSequence": "handleSequence"}

// addFailpoints puts vfail.Point(name) at the top of the listed functions.
func addFailpoints(f *ast.File) bool {
	if f.Name.Name != "vaxis" {
		return false
	}
	done := false
	for _, d := range f.Decls {
		fd, ok := d.(*ast.FuncDecl)
		if !ok || fd.Body == nil || fd.Recv == nil {
			continue
		}
		name, ok := failpoints[fd.Name.Name]
		if !ok {
			continue
		}
		st := &ast.ExprStmt{X: &ast.CallExpr{
			Fun:  &ast.SelectorExpr{X: ast.NewIdent("vfail"), Sel: ast.NewIdent("Point")},
			Args: []ast.Expr{&ast.BasicLit{Kind: token.STRING, Value: strconv.Quote(name)}},
		}}
		fd.Body.List = append([]ast.Stmt{st}, fd.Body.List...)
		done = true
	}
	if done {
		addImport(f, "vfail", modPath+"/verifshim/vfail")
	}
	return done
}
