// Package explore is the shared driver for every property harness: tiers,
// worker subprocesses (sharding), counters, distinct-outcome accounting,
// violation signatures checked against /verif/known_findings.json, replay
// artefacts and the evidence file.
package explore

import (
	"bufio"
	"crypto/sha256"
	"encoding/binary"
	"encoding/hex"
	"encoding/json"
	"flag"
	"fmt"
	"hash/fnv"
	"os"
	"os/exec"
	"path/filepath"
	"sort"
	"strconv"
	"strings"
	"sync"
	"time"
)

// Violation is one property violation observed on the real code.
type Violation struct {
	Sig    string `json:"signature"` // stable signature: clause|site|predicate
	Detail any    `json:"detail"`    // the minimal operation list / input / schedule
	Cost   int    `json:"cost"`      // smaller = simpler counterexample (kept per signature)
}

// Run is the state of one check run (parent or worker).
type Run struct {
	knownCache            map[string]finding
	replaySig, replayFile string
	ID                    string
	Tier                  string
	Seed                  int64
	Root                  string // /verif
	Out                   string // where evidence/ and replays/ are written (Root unless VERIF_OUTDIR is set)
	Replay                string // path of a replay file, if replaying

	start time.Time

	mu        sync.Mutex
	counts    map[string]int64
	distinct  map[uint64]struct{}
	distCap   int
	distOver  bool
	samples   []any
	sampleCap int
	viol      map[string]*Violation
	violCount map[string]int64
	notes     []string
	capsHit   []string
	inexhaust bool

	workerIdx, workerN int
	isWorker           bool
	workerOut          string
	workerArg          string
}

type partial struct {
	Counts    map[string]int64      `json:"counts"`
	DistFile  string                `json:"dist_file"`
	DistOver  bool                  `json:"dist_over"`
	Samples   []any                 `json:"samples"`
	Viol      map[string]*Violation `json:"viol"`
	ViolCount map[string]int64      `json:"viol_count"`
	Notes     []string              `json:"notes"`
	CapsHit   []string              `json:"caps_hit"`
	Inexhaust bool                  `json:"inexhaustive"`
}

// Start parses the common flags/environment. Every harness main calls it first.
func Start(id string) *Run {
	r := &Run{
		ID: id, start: time.Now(),
		counts: map[string]int64{}, distinct: map[uint64]struct{}{},
		distCap: 4 << 20, sampleCap: 6,
		viol: map[string]*Violation{}, violCount: map[string]int64{},
	}
	tier := flag.String("tier", os.Getenv("VERIF_TIER"), "quick|thorough")
	replay := flag.String("replay", "", "replay file")
	flag.Parse()
	r.Tier = *tier
	if r.Tier != "thorough" {
		r.Tier = "quick"
	}
	r.Replay = *replay
	if s := os.Getenv("VERIF_SEED"); s != "" {
		r.Seed, _ = strconv.ParseInt(s, 10, 64)
	}
	r.Root = os.Getenv("VERIF_ROOT")
	if r.Root == "" {
		r.Root = "/verif"
	}
	r.Out = os.Getenv("VERIF_OUTDIR") // seeded/self-test runs write evidence and replays elsewhere
	if r.Out == "" {
		r.Out = r.Root
	}
	if w := os.Getenv("VERIF_WORKER"); w != "" {
		parts := strings.Split(w, "/")
		r.workerIdx, _ = strconv.Atoi(parts[0])
		r.workerN, _ = strconv.Atoi(parts[1])
		r.isWorker = true
		r.workerOut = os.Getenv("VERIF_WORKER_OUT")
		r.workerArg = os.Getenv("VERIF_WORKER_ARG")
	}
	return r
}

func (r *Run) Thorough() bool { return r.Tier == "thorough" }

// Worker reports whether this process is a worker, and its shard.
func (r *Run) Worker() (idx, n int, arg string, ok bool) {
	return r.workerIdx, r.workerN, r.workerArg, r.isWorker
}

// Pick returns q in the quick tier and t in the thorough tier.
func (r *Run) Pick(q, t int) int {
	if r.Thorough() {
		return t
	}
	return q
}

func (r *Run) Count(name string, d int64) {
	r.mu.Lock()
	r.counts[name] += d
	r.mu.Unlock()
}

func (r *Run) Get(name string) int64 {
	r.mu.Lock()
	defer r.mu.Unlock()
	return r.counts[name]
}

// Hash is a helper for Distinct.
func Hash(parts ...string) uint64 {
	h := fnv.New64a()
	for _, p := range parts {
		h.Write([]byte(p))
		h.Write([]byte{0})
	}
	return h.Sum64()
}

// Distinct records the hash of a non-trivial case / state / outcome.
func (r *Run) Distinct(h uint64) bool {
	r.mu.Lock()
	defer r.mu.Unlock()
	if _, ok := r.distinct[h]; ok {
		return false
	}
	if len(r.distinct) >= r.distCap {
		r.distOver = true
		return true
	}
	r.distinct[h] = struct{}{}
	return true
}

func (r *Run) Sample(v any) {
	r.mu.Lock()
	if len(r.samples) < r.sampleCap {
		r.samples = append(r.samples, v)
	}
	r.mu.Unlock()
}

func (r *Run) Note(format string, a ...any) {
	r.mu.Lock()
	r.notes = append(r.notes, fmt.Sprintf(format, a...))
	r.mu.Unlock()
}

// CapHit records that a cap (time, depth, count) stopped an enumeration early.
func (r *Run) CapHit(format string, a ...any) {
	r.mu.Lock()
	r.capsHit = append(r.capsHit, fmt.Sprintf(format, a...))
	r.inexhaust = true
	r.mu.Unlock()
}

// Violation records a violation. cost orders counterexamples of one signature.
func (r *Run) Violation(sig string, cost int, detail any) {
	r.mu.Lock()
	defer r.mu.Unlock()
	r.violCount[sig]++
	if old, ok := r.viol[sig]; ok && old.Cost <= cost {
		return
	}
	r.viol[sig] = &Violation{Sig: sig, Detail: detail, Cost: cost}
}

// Elapsed since start.
func (r *Run) Elapsed() time.Duration { return time.Since(r.start) }

// Fault aborts with exit 2: a harness fault, never a violation.
func (r *Run) Fault(format string, a ...any) {
	fmt.Fprintf(os.Stderr, "HARNESS-FAULT property=%s: %s\n", r.ID, fmt.Sprintf(format, a...))
	os.Exit(2)
}

// WorkerDone writes the worker's partial result and exits.
func (r *Run) WorkerDone() {
	p := partial{Counts: r.counts, Samples: r.samples, Viol: r.viol, ViolCount: r.violCount,
		Notes: r.notes, CapsHit: r.capsHit, Inexhaust: r.inexhaust, DistOver: r.distOver}
	p.DistFile = r.workerOut + ".dist"
	f, err := os.Create(p.DistFile)
	if err != nil {
		r.Fault("worker: %v", err)
	}
	bw := bufio.NewWriter(f)
	var b [8]byte
	for h := range r.distinct {
		binary.LittleEndian.PutUint64(b[:], h)
		bw.Write(b[:])
	}
	bw.Flush()
	f.Close()
	data, err := json.Marshal(p)
	if err != nil {
		r.Fault("worker marshal: %v", err)
	}
	if err := os.WriteFile(r.workerOut, data, 0o644); err != nil {
		r.Fault("worker: %v", err)
	}
	os.Exit(0)
}

// Spawn runs n worker subprocesses of this binary (shards 0..n-1) for phase
// arg and merges what they report. A worker that dies is a harness fault.
// perWorkerTimeout==0 means 45 minutes in the quick tier and 6 hours in the thorough tier (a last resort: a case
// that hangs is caught by the worker's own watchdog long before; the thorough tiers take 10-20 minutes per worker on 16
// idle cores, and several times that when the machine is shared - a limit near that figure turned load into
// HARNESS-FAULT).
func (r *Run) Spawn(n int, arg string, perWorkerTimeout time.Duration) {
	if perWorkerTimeout == 0 {
		perWorkerTimeout = 45 * time.Minute
		if r.Thorough() {
			perWorkerTimeout = 6 * time.Hour
		}
	}
	self, err := os.Executable()
	if err != nil {
		r.Fault("%v", err)
	}
	dir, err := os.MkdirTemp("", "verif-w-")
	if err != nil {
		r.Fault("%v", err)
	}
	defer os.RemoveAll(dir)
	var wg sync.WaitGroup
	errs := make([]error, n)
	outs := make([]string, n)
	for i := 0; i < n; i++ {
		wg.Add(1)
		go func(i int) {
			defer wg.Done()
			out := filepath.Join(dir, fmt.Sprintf("w%d.json", i))
			outs[i] = out
			cmd := exec.Command(self, "-tier", r.Tier)
			cmd.Env = append(os.Environ(),
				fmt.Sprintf("VERIF_WORKER=%d/%d", i, n),
				"VERIF_WORKER_OUT="+out,
				"VERIF_WORKER_ARG="+arg,
				"GOMAXPROCS=1",
			)
			cmd.Stderr = os.Stderr
			cmd.Stdout = os.Stderr
			if err := cmd.Start(); err != nil {
				errs[i] = err
				return
			}
			done := make(chan error, 1)
			go func() { done <- cmd.Wait() }()
			select {
			case err := <-done:
				errs[i] = err
			case <-time.After(perWorkerTimeout):
				cmd.Process.Kill()
				errs[i] = fmt.Errorf("worker %d (%s) exceeded %v", i, arg, perWorkerTimeout)
			}
		}(i)
	}
	wg.Wait()
	for i, e := range errs {
		if e != nil {
			r.Fault("worker %d/%d phase %q failed: %v", i, n, arg, e)
		}
	}
	for _, out := range outs {
		data, err := os.ReadFile(out)
		if err != nil {
			r.Fault("worker result: %v", err)
		}
		var p partial
		if err := json.Unmarshal(data, &p); err != nil {
			r.Fault("worker result: %v", err)
		}
		r.merge(&p)
	}
}

func (r *Run) merge(p *partial) {
	r.mu.Lock()
	defer r.mu.Unlock()
	for k, v := range p.Counts {
		r.counts[k] += v
	}
	for _, s := range p.Samples {
		if len(r.samples) < r.sampleCap {
			r.samples = append(r.samples, s)
		}
	}
	for k, v := range p.Viol {
		if old, ok := r.viol[k]; !ok || v.Cost < old.Cost {
			r.viol[k] = v
		}
	}
	for k, v := range p.ViolCount {
		r.violCount[k] += v
	}
	r.notes = append(r.notes, p.Notes...)
	r.capsHit = append(r.capsHit, p.CapsHit...)
	r.inexhaust = r.inexhaust || p.Inexhaust
	r.distOver = r.distOver || p.DistOver
	if p.DistFile != "" {
		data, err := os.ReadFile(p.DistFile)
		if err == nil {
			for i := 0; i+8 <= len(data); i += 8 {
				if len(r.distinct) >= 8*r.distCap {
					r.distOver = true
					break
				}
				r.distinct[binary.LittleEndian.Uint64(data[i:])] = struct{}{}
			}
		}
	}
}

// ---- known findings ---------------------------------------------------------

type finding struct {
	Property    string `json:"property"`
	Signature   string `json:"signature"`
	Description string `json:"description"`
}

type findingsFile struct {
	Findings []finding `json:"findings"`
	Fixed    []string  `json:"fixed"`
}

func (r *Run) loadFindings() map[string]finding {
	m := map[string]finding{}
	data, err := os.ReadFile(filepath.Join(r.Root, "known_findings.json"))
	if err != nil {
		return m
	}
	var ff findingsFile
	if err := json.Unmarshal(data, &ff); err != nil {
		r.Fault("known_findings.json: %v", err)
	}
	for _, f := range ff.Findings {
		if f.Property == r.ID {
			m[f.Signature] = f
		}
	}
	return m
}

// IsKnown reports whether a violation signature is covered by an entry of known_findings.json
// (exactly, or through a "prefix*" entry).
func (r *Run) IsKnown(sig string) bool {
	if r.knownCache == nil {
		r.knownCache = r.loadFindings()
	}
	if _, ok := r.knownCache[sig]; ok {
		return true
	}
	for k := range r.knownCache {
		if strings.HasSuffix(k, "*") && strings.HasPrefix(sig, strings.TrimSuffix(k, "*")) {
			return true
		}
	}
	return false
}

// Coverage is what Finish needs beyond the counters.
type Coverage struct {
	States      int64 // distinct states (explicit-state) or distinct outcomes
	Transitions int64
	Traces      int64 // executions of the real implementation
	Evaluations int64
	Rule        string
	Exhaustive  bool // the stated bounded space was enumerated completely
	Bounds      map[string]any
	Assumptions []string
	Extra       map[string]any
}

// Finish writes the evidence, prints KNOWN-FINDING / VIOLATION lines and exits.
func (r *Run) Finish(c Coverage) {
	if r.replaySig != "" {
		if v, ok := r.viol[r.replaySig]; ok {
			d, _ := json.MarshalIndent(v.Detail, "  ", " ")
			fmt.Printf("VIOLATION property=%s replay=%s\n  signature: %s  (occurrences in this run: %d)\n  %s\n", r.ID, r.replayFile, r.replaySig, r.violCount[r.replaySig], d)
			os.Exit(1)
		}
		fmt.Printf("replay: signature %s did not occur in this %s exploration (%d executions)\n", r.replaySig, r.Tier, c.Traces)
		os.Exit(0)
	}
	known := r.loadFindings()
	sigs := make([]string, 0, len(r.viol))
	for s := range r.viol {
		sigs = append(sigs, s)
	}
	sort.Strings(sigs)
	newV := []string{}
	knownMet := []string{}
	for _, s := range sigs {
		f, ok := known[s]
		if !ok {
			// a finding may name a call site shared by several signatures: "prefix*"
			for k, kf := range known {
				if strings.HasSuffix(k, "*") && strings.HasPrefix(s, strings.TrimSuffix(k, "*")) {
					f, ok = kf, true
					break
				}
			}
		}
		if ok {
			fmt.Printf("KNOWN-FINDING: property=%s %s -- %s\n", r.ID, s, f.Description)
			knownMet = append(knownMet, s)
			continue
		}
		newV = append(newV, s)
	}
	if old, _ := filepath.Glob(filepath.Join(r.Out, "replays", r.ID+"-*.json")); r.Replay == "" && os.Getenv("VERIF_PART") != "2" {
		for _, f := range old {
			os.Remove(f)
		}
	}
	for _, s := range newV {
		v := r.viol[s]
		path := r.writeReplay(v)
		fmt.Printf("VIOLATION property=%s replay=%s\n", r.ID, path)
		fmt.Printf("  signature: %s  (occurrences: %d)\n", s, r.violCount[s])
	}
	exhaustive := c.Exhaustive && !r.inexhaust
	distinct := int64(len(r.distinct))
	if c.States < 0 { // states = distinct outcomes/states recorded through Distinct
		c.States = distinct
	}
	cov := map[string]any{
		"states":                        max64(c.States, 1),
		"transitions":                   max64(c.Transitions, 1),
		"traces_validated_against_impl": c.Traces,
		"evaluations":                   max64(c.Evaluations, 1),
		"distinct_nontrivial":           distinct,
		"rule":                          c.Rule,
		"exhaustive":                    exhaustive,
		"samples":                       r.samples,
		"counters":                      r.counts,
		"known_findings_met":            knownMet,
		"new_violation_signatures":      newV,
	}
	if r.distOver {
		cov["distinct_nontrivial_is_lower_bound"] = true
	}
	if len(r.capsHit) > 0 {
		cov["caps_hit"] = r.capsHit
	}
	if len(r.notes) > 0 {
		cov["notes"] = r.notes
	}
	if c.Bounds != nil {
		cov["bounds"] = c.Bounds
	}
	for k, v := range c.Extra {
		cov[k] = v
	}
	if len(r.samples) == 0 {
		cov["samples"] = []any{"(no sample recorded)"}
	}
	ev := map[string]any{
		"property_id": r.ID,
		"tier":        r.Tier,
		"seed":        r.Seed,
		"level":       "model_checking",
		"coverage":    cov,
		"assumptions": c.Assumptions,
		"wall_s":      time.Since(r.start).Seconds(),
		"violations":  len(newV),
	}
	if c.Assumptions == nil {
		ev["assumptions"] = []string{}
	}
	if os.Getenv("VERIF_PART") == "2" {
		ev = mergeEvidence(filepath.Join(r.Out, "evidence", r.ID+".json"), ev)
	}
	data, _ := json.MarshalIndent(ev, "", " ")
	os.MkdirAll(filepath.Join(r.Out, "evidence"), 0o755)
	if err := os.WriteFile(filepath.Join(r.Out, "evidence", r.ID+".json"), append(data, '\n'), 0o644); err != nil {
		r.Fault("evidence: %v", err)
	}
	fmt.Printf("%s tier=%s states=%d transitions=%d executions=%d distinct=%d exhaustive=%v known=%d new=%d wall=%.1fs\n",
		r.ID, r.Tier, c.States, c.Transitions, c.Traces, distinct, exhaustive, len(knownMet), len(newV), time.Since(r.start).Seconds())
	if len(newV) > 0 {
		os.Exit(1)
	}
	os.Exit(0)
}

// mergeEvidence folds the evidence of a property's second harness (run by ./check right after
// the first, with VERIF_PART=2) into the file the first one wrote: counts add up, rules, bounds,
// assumptions and samples are kept side by side.
func mergeEvidence(path string, ev map[string]any) map[string]any {
	data, err := os.ReadFile(path)
	if err != nil {
		return ev
	}
	var old map[string]any
	if json.Unmarshal(data, &old) != nil || old["tier"] != ev["tier"] {
		return ev
	}
	oc, _ := old["coverage"].(map[string]any)
	nc, _ := ev["coverage"].(map[string]any)
	if oc == nil || nc == nil {
		return ev
	}
	num := func(v any) float64 {
		switch x := v.(type) {
		case float64:
			return x
		case int64:
			return float64(x)
		case int:
			return float64(x)
		}
		return 0
	}
	list := func(v any) []any {
		switch x := v.(type) {
		case []any:
			return x
		case []string:
			out := make([]any, len(x))
			for i := range x {
				out[i] = x[i]
			}
			return out
		}
		return nil
	}
	for _, k := range []string{"states", "transitions", "traces_validated_against_impl", "evaluations", "distinct_nontrivial"} {
		nc[k] = int64(num(oc[k]) + num(nc[k]))
	}
	nc["rule"] = fmt.Sprintf("PART 1: %v || PART 2 (controlled scheduler): %v", oc["rule"], nc["rule"])
	nc["exhaustive"] = oc["exhaustive"] == true && nc["exhaustive"] == true
	nc["bounds"] = map[string]any{"part1": oc["bounds"], "part2": nc["bounds"]}
	nc["counters"] = map[string]any{"part1": oc["counters"], "part2": nc["counters"]}
	nc["samples"] = append(list(oc["samples"]), list(nc["samples"])...)
	for _, k := range []string{"known_findings_met", "new_violation_signatures", "caps_hit", "notes"} {
		if l := append(list(oc[k]), list(nc[k])...); len(l) > 0 || k == "known_findings_met" || k == "new_violation_signatures" {
			if l == nil {
				l = []any{}
			}
			nc[k] = l
		}
	}
	ev["assumptions"] = append(list(old["assumptions"]), list(ev["assumptions"])...)
	ev["wall_s"] = num(old["wall_s"]) + num(ev["wall_s"])
	ev["violations"] = int(num(old["violations"]) + num(ev["violations"]))
	return ev
}

func (r *Run) writeReplay(v *Violation) string {
	sum := sha256.Sum256([]byte(v.Sig))
	name := fmt.Sprintf("%s-%s.json", r.ID, hex.EncodeToString(sum[:5]))
	dir := filepath.Join(r.Out, "replays")
	os.MkdirAll(dir, 0o755)
	path := filepath.Join(dir, name)
	data, _ := json.MarshalIndent(map[string]any{
		"property_id": r.ID,
		"signature":   v.Sig,
		"detail":      v.Detail,
		"replay_cmd":  fmt.Sprintf("/verif/check %s --replay %s", r.ID, path),
		"part":        os.Getenv("VERIF_PART"),
	}, "", " ")
	os.WriteFile(path, append(data, '\n'), 0o644)
	return path
}

// ReplayBySearch is the replay of harnesses without a dedicated replayer: the
// normal exploration of the tier runs again and only the signature recorded in
// the replay file is looked for (exit 1 with a VIOLATION line if it occurs again,
// exit 0 otherwise). No evidence is written and no replay file is touched.
func (r *Run) ReplayBySearch() {
	data, err := os.ReadFile(r.Replay)
	if err != nil {
		r.Fault("replay: %v", err)
	}
	var f struct {
		Sig string `json:"signature"`
	}
	if err := json.Unmarshal(data, &f); err != nil || f.Sig == "" {
		r.Fault("replay: no signature in %s", r.Replay)
	}
	r.replaySig = f.Sig
	r.replayFile = r.Replay
	r.Replay = ""
}

// LoadReplay reads the detail of a replay file into v.
func (r *Run) LoadReplay(v any) string {
	data, err := os.ReadFile(r.Replay)
	if err != nil {
		r.Fault("replay: %v", err)
	}
	var f struct {
		Sig    string          `json:"signature"`
		Detail json.RawMessage `json:"detail"`
	}
	if err := json.Unmarshal(data, &f); err != nil {
		r.Fault("replay: %v", err)
	}
	if err := json.Unmarshal(f.Detail, v); err != nil {
		r.Fault("replay detail: %v", err)
	}
	return f.Sig
}

func max64(a, b int64) int64 {
	if a > b {
		return a
	}
	return b
}

// Guard runs f and converts a panic into (site, message). site is the first
// frame inside the vaxis module.
func Guard(f func()) (panicked bool, site string, msg string) {
	defer func() {
		if e := recover(); e != nil {
			panicked = true
			msg = fmt.Sprint(e)
			site = PanicSite()
		}
	}()
	f()
	return
}

// ---- hang watchdog -----------------------------------------------------------

var beat struct {
	mu  sync.Mutex
	n   int64
	cur func() (string, any)
}

// Beat marks progress (call once per case). cur describes the case that is
// about to run, for the hang report.
func (r *Run) Beat(cur func() (sig string, detail any)) {
	beat.mu.Lock()
	beat.n++
	beat.cur = cur
	beat.mu.Unlock()
}

// Watchdog turns "no Beat for d" into a hang violation of the current case; the
// worker then reports what it has and stops (its remaining shard is recorded as
// not covered). d is generous (>= 20 s): a case normally takes microseconds.
func (r *Run) Watchdog(d time.Duration) {
	go func() {
		last := int64(-1)
		lastChange := time.Now()
		for {
			time.Sleep(500 * time.Millisecond)
			beat.mu.Lock()
			n, cur := beat.n, beat.cur
			beat.mu.Unlock()
			if n != last {
				last, lastChange = n, time.Now()
				continue
			}
			if time.Since(lastChange) < d || cur == nil {
				continue
			}
			sig, detail := cur()
			r.Violation(sig, 0, detail)
			r.CapHit("worker %d stopped after a non-terminating case (%s); rest of its shard not covered", r.workerIdx, sig)
			if r.isWorker {
				r.WorkerDone()
			}
			return
		}
	}()
}

// ---- crash-tolerant workers ------------------------------------------------------------------
//
// Some violations kill the process (a panic in a goroutine started by the library
// re-panics by design). SpawnTolerant runs the shards like Spawn, but a worker
// records the case it is about to run (Progress); when a worker dies the parent
// turns the recorded case into a violation through onCrash and restarts the shard
// after that case.

// Progress records the case about to run (index within the shard, description).
func (r *Run) Progress(i int, desc string) {
	if progressFile == nil {
		p := os.Getenv("VERIF_PROGRESS")
		if p == "" {
			return
		}
		f, err := os.OpenFile(p, os.O_CREATE|os.O_WRONLY|os.O_TRUNC, 0o644)
		if err != nil {
			return
		}
		progressFile = f
	}
	// one fixed-size record rewritten in place: a single write per case
	rec := fmt.Sprintf("%d\n%s", i, desc)
	if len(rec) > 4000 {
		rec = rec[:4000]
	}
	buf := make([]byte, 4096)
	copy(buf, rec)
	for j := len(rec); j < len(buf); j++ {
		buf[j] = ' '
	}
	progressFile.WriteAt(buf, 0)
}

var progressFile *os.File

// Skip is the case index the shard must resume at (0 on the first run).
func (r *Run) Skip() int {
	n, _ := strconv.Atoi(os.Getenv("VERIF_SKIP"))
	return n
}

func (r *Run) SpawnTolerant(n int, arg string, onCrash func(desc string, stderrTail string)) {
	self, err := os.Executable()
	if err != nil {
		r.Fault("%v", err)
	}
	dir, err := os.MkdirTemp("", "verif-w-")
	if err != nil {
		r.Fault("%v", err)
	}
	defer os.RemoveAll(dir)
	var wg sync.WaitGroup
	var mu sync.Mutex
	for i := 0; i < n; i++ {
		wg.Add(1)
		go func(i int) {
			defer wg.Done()
			skip := 0
			for attempt := 0; attempt < 40; attempt++ {
				out := filepath.Join(dir, fmt.Sprintf("w%d-%d.json", i, attempt))
				prog := filepath.Join(dir, fmt.Sprintf("p%d", i))
				os.Remove(prog)
				errPath := filepath.Join(dir, fmt.Sprintf("e%d", i))
				ef, _ := os.Create(errPath)
				cmd := exec.Command(self, "-tier", r.Tier)
				cmd.Env = append(os.Environ(), fmt.Sprintf("VERIF_WORKER=%d/%d", i, n), "VERIF_WORKER_OUT="+out,
					"VERIF_WORKER_ARG="+arg, "GOMAXPROCS=1", "VERIF_PROGRESS="+prog, fmt.Sprintf("VERIF_SKIP=%d", skip))
				cmd.Stderr, cmd.Stdout = ef, ef
				err := cmd.Run()
				ef.Close()
				if data, rerr := os.ReadFile(out); rerr == nil && err == nil {
					var p partial
					if json.Unmarshal(data, &p) == nil {
						mu.Lock()
						r.merge(&p)
						mu.Unlock()
					}
					return
				}
				// the worker died: which case?
				pd, _ := os.ReadFile(prog)
				idx, desc, _ := strings.Cut(strings.TrimRight(string(pd), " "), "\n")
				k, _ := strconv.Atoi(idx)
				tail, _ := os.ReadFile(errPath)
				if len(tail) > 1500 {
					tail = tail[:1500]
				}
				mu.Lock()
				if len(pd) == 0 {
					mu.Unlock()
					r.Fault("worker %d (%s) died before its first case: %s", i, arg, tail)
				}
				onCrash(desc, string(tail))
				r.inexhaust = true
				r.capsHit = append(r.capsHit, fmt.Sprintf("worker %d restarted after a crash at case %d; the counters of the crashed run are lost", i, k))
				mu.Unlock()
				skip = k + 1
			}
			// every crash has been reported as a violation through onCrash: give this shard up
			// rather than restarting for ever (the run is marked non-exhaustive)
			mu.Lock()
			r.inexhaust = true
			r.capsHit = append(r.capsHit, fmt.Sprintf("worker %d (%s) crashed 40 times: the rest of its shard was not explored", i, arg))
			mu.Unlock()
		}(i)
	}
	wg.Wait()
}
