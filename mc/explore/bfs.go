package explore

import (
	"bufio"
	"encoding/binary"
	"fmt"
	"os"
	"path/filepath"
	"strconv"
	"strings"
	"time"
)

// Status of running one path.
type Status int

const (
	StOK      Status = iota // state reached, invariants hold: expand it
	StInvalid               // last operation not applicable in that state: not a state
	StStop                  // reached, but do not expand (violation reported, or diverged)
)

// BFS is a level-synchronous explicit-state search over operation paths. A
// successor is obtained by replaying the path on a fresh real instance plus one
// operation (live objects with goroutines cannot be cloned). States are
// deduplicated in the parent on the 64-bit hash of a canonical key; workers
// expand the frontier in parallel.
type BFS struct {
	R        *Run
	Name     string
	NumOps   int
	MaxDepth int
	Workers  int
	// RunPath executes path on a fresh instance, checks the oracle on the last
	// transition (reporting through R), and returns the canonical key hash.
	RunPath func(path []uint16) (key uint64, st Status)
	// Budget stops the search between levels / inside a level (0 = none).
	Budget time.Duration

	States      int64
	Transitions int64
	DepthDone   int
	Frontier    int
	Exhausted   bool // frontier became empty before MaxDepth
}

func pathString(p []uint16) string {
	s := make([]string, len(p))
	for i, v := range p {
		s[i] = strconv.Itoa(int(v))
	}
	return strings.Join(s, ",")
}

func parsePath(s string) []uint16 {
	if s == "" {
		return nil
	}
	parts := strings.Split(s, ",")
	p := make([]uint16, len(parts))
	for i, x := range parts {
		v, _ := strconv.Atoi(x)
		p[i] = uint16(v)
	}
	return p
}

// WorkerMain must be called by the harness when it runs as a worker with an
// arg starting with "bfs:". It expands its share of the frontier file.
func (b *BFS) WorkerMain(arg string) {
	// arg = bfs:<name>:<frontier file>:<result prefix>
	parts := strings.SplitN(arg, ":", 4)
	front, resPrefix := parts[2], parts[3]
	idx, n, _, _ := b.R.Worker()
	ff, err := os.Open(front)
	if err != nil {
		b.R.Fault("bfs worker: %v", err)
	}
	defer ff.Close()
	// the frontier is streamed: every worker holds one line at a time, not the whole level
	sc := bufio.NewScanner(ff)
	sc.Buffer(make([]byte, 1<<16), 1<<22)
	out, err := os.Create(fmt.Sprintf("%s.%d", resPrefix, idx))
	if err != nil {
		b.R.Fault("bfs worker: %v", err)
	}
	bw := bufio.NewWriter(out)
	deadline := time.Time{}
	if b.Budget > 0 {
		deadline = time.Now().Add(b.Budget)
	}
	skipped := 0
	for li := 0; sc.Scan(); li++ {
		if li%n != idx {
			continue
		}
		line := sc.Text()
		if !deadline.IsZero() && time.Now().After(deadline) {
			skipped++
			continue
		}
		parent := parsePath(line)
		if line == "-" {
			parent = nil
		}
		for op := 0; op < b.NumOps; op++ {
			child := append(append(make([]uint16, 0, len(parent)+1), parent...), uint16(op))
			b.R.Beat(func() (string, any) {
				return b.R.ID + "|hang|" + b.Name, map[string]any{"search": b.Name, "path": pathString(child)}
			})
			key, st := b.RunPath(child)
			if st == StInvalid {
				continue
			}
			b.R.Count(b.Name+"_transitions", 1)
			if st == StStop {
				b.R.Count(b.Name+"_stopped", 1)
				continue
			}
			var kb [8]byte
			binary.LittleEndian.PutUint64(kb[:], key)
			bw.Write(kb[:])
			bw.WriteByte(byte(op >> 8))
			bw.WriteByte(byte(op))
			binary.LittleEndian.PutUint32(kb[:4], uint32(li))
			bw.Write(kb[:4])
		}
	}
	if skipped > 0 {
		b.R.CapHit("%s: worker %d ran out of its time budget with %d frontier states unexpanded", b.Name, idx, skipped)
	}
	bw.Flush()
	out.Close()
	b.R.WorkerDone()
}

// Search runs the BFS from the parent process.
func (b *BFS) Search() {
	dir, err := os.MkdirTemp("", "verif-bfs-")
	if err != nil {
		b.R.Fault("%v", err)
	}
	defer os.RemoveAll(dir)
	if b.Workers == 0 {
		b.Workers = 16
	}
	seen := map[uint64]struct{}{}
	// root
	rootKey, st := b.RunPath(nil)
	if st != StOK {
		b.R.Note("%s: root state not expandable", b.Name)
		return
	}
	seen[rootKey] = struct{}{}
	b.States = 1
	frontier := [][]uint16{nil}
	start := time.Now()
	for depth := 1; depth <= b.MaxDepth; depth++ {
		if b.Budget > 0 && time.Since(start) > b.Budget {
			b.R.CapHit("%s: time budget reached before depth %d (frontier %d states)", b.Name, depth, len(frontier))
			break
		}
		ff := filepath.Join(dir, fmt.Sprintf("front%d", depth))
		var sb strings.Builder
		for _, p := range frontier {
			if len(p) == 0 {
				sb.WriteString("-\n")
			} else {
				sb.WriteString(pathString(p) + "\n")
			}
		}
		os.WriteFile(ff, []byte(sb.String()), 0o644)
		resPrefix := filepath.Join(dir, fmt.Sprintf("res%d", depth))
		nw := b.Workers
		if len(frontier) < nw {
			nw = len(frontier)
		}
		before := b.R.Get(b.Name + "_transitions")
		capsBefore := len(b.R.capsHit)
		b.R.Spawn(nw, fmt.Sprintf("bfs:%s:%s:%s", b.Name, ff, resPrefix), 0)
		b.Transitions += b.R.Get(b.Name+"_transitions") - before
		var next [][]uint16
		for w := 0; w < nw; w++ {
			data, err := os.ReadFile(fmt.Sprintf("%s.%d", resPrefix, w))
			if err != nil {
				b.R.Fault("bfs result: %v", err)
			}
			for i := 0; i+14 <= len(data); i += 14 {
				key := binary.LittleEndian.Uint64(data[i:])
				op := uint16(data[i+8])<<8 | uint16(data[i+9])
				li := binary.LittleEndian.Uint32(data[i+10:])
				if _, ok := seen[key]; ok {
					continue
				}
				seen[key] = struct{}{}
				parent := frontier[li]
				next = append(next, append(append(make([]uint16, 0, len(parent)+1), parent...), op))
			}
		}
		b.States = int64(len(seen))
		frontier = next
		b.Frontier = len(frontier)
		if len(b.R.capsHit) > capsBefore {
			break
		}
		b.DepthDone = depth
		if len(frontier) > 6_000_000 && depth < b.MaxDepth {
			// the sandbox has no memory limit: stop before the next level's frontier exhausts it
			b.R.CapHit("%s: frontier of %d states after depth %d: deeper levels not explored (memory)", b.Name, len(frontier), depth)
			break
		}
		if len(frontier) == 0 {
			b.Exhausted = true
			break
		}
	}
	for k := range seen {
		b.R.Distinct(k)
	}
	if len(frontier) > 0 && len(frontier) <= 3 {
		for _, p := range frontier {
			b.R.Sample(map[string]any{"search": b.Name, "path": pathString(p)})
		}
	} else if len(frontier) > 0 {
		b.R.Sample(map[string]any{"search": b.Name, "path": pathString(frontier[0])})
		b.R.Sample(map[string]any{"search": b.Name, "path": pathString(frontier[len(frontier)/2])})
	}
}

// EnumeratePaths runs every operation path of length 1..maxDepth in-process,
// shortest first per prefix (depth-first over prefixes that are themselves OK):
// a path is extended only if run reported StOK for it. No states are merged.
// Returns the number of paths run.
func EnumeratePaths(numOps, maxDepth int, run func(path []uint16) Status) int64 {
	var n int64
	var rec func(prefix []uint16)
	rec = func(prefix []uint16) {
		if len(prefix) == maxDepth {
			return
		}
		for op := 0; op < numOps; op++ {
			p := append(append(make([]uint16, 0, len(prefix)+1), prefix...), uint16(op))
			st := run(p)
			if st == StInvalid {
				continue
			}
			n++
			if st == StOK {
				rec(p)
			}
		}
	}
	rec(nil)
	return n
}
