package explore

import (
	"fmt"
	"runtime"
	"strings"
)

// PanicSite returns "pkg.Func" of the innermost frame on the current
// (panicking) stack that belongs to the vaxis module. Must be called from a
// deferred function while recovering. Line numbers are deliberately left out so
// that signatures survive unrelated edits.
func PanicSite() string {
	pcs := make([]uintptr, 64)
	n := runtime.Callers(2, pcs)
	frames := runtime.CallersFrames(pcs[:n])
	for {
		fr, more := frames.Next()
		if strings.Contains(fr.Function, "rockorager/vaxis") && !strings.Contains(fr.Function, "verifshim") {
			fn := fr.Function
			if i := strings.LastIndex(fn, "/"); i >= 0 {
				fn = fn[i+1:]
			}
			return fn
		}
		if !more {
			break
		}
	}
	return "unknown"
}

// PanicClass reduces a panic message to a class that is stable across inputs
// (index values removed).
func PanicClass(msg string) string {
	switch {
	case strings.Contains(msg, "index out of range"):
		return "index-out-of-range"
	case strings.Contains(msg, "slice bounds out of range"):
		return "slice-bounds"
	case strings.Contains(msg, "nil pointer"):
		return "nil-deref"
	case strings.Contains(msg, "makeslice"):
		return "makeslice"
	case strings.Contains(msg, "closed channel"):
		return "closed-channel"
	case strings.Contains(msg, "divide by zero"):
		return "div-zero"
	}
	if len(msg) > 40 {
		msg = msg[:40]
	}
	return fmt.Sprintf("other(%s)", msg)
}
