package explore

import (
	"encoding/binary"
	"hash/fnv"
	"math"
	"reflect"
	"sort"
)

// DeepHash hashes everything reachable from v, unexported fields included (reflection may read them), so that a
// state key built from it cannot merge two objects that differ in something no accessor shows: nil and empty
// maps and slices hash differently; functions and channels count by nil-ness only. Struct fields named in skip
// are left out (locks, file handles, back pointers, timers).
func DeepHash(v any, skip ...string) uint64 {
	sk := map[string]bool{}
	for _, s := range skip {
		sk[s] = true
	}
	h := fnv.New64a()
	var b [8]byte
	num := func(x uint64) {
		binary.LittleEndian.PutUint64(b[:], x)
		h.Write(b[:])
	}
	var walk func(v reflect.Value, depth int)
	sub := func(v reflect.Value) uint64 { return DeepHashValue(v, sk) }
	walk = func(v reflect.Value, depth int) {
		if depth > 16 || !v.IsValid() {
			num(0xdead)
			return
		}
		num(uint64(v.Kind()))
		switch v.Kind() {
		case reflect.Bool:
			if v.Bool() {
				num(1)
			} else {
				num(0)
			}
		case reflect.Int, reflect.Int8, reflect.Int16, reflect.Int32, reflect.Int64:
			num(uint64(v.Int()))
		case reflect.Uint, reflect.Uint8, reflect.Uint16, reflect.Uint32, reflect.Uint64, reflect.Uintptr:
			num(v.Uint())
		case reflect.Float32, reflect.Float64:
			num(math.Float64bits(v.Float()))
		case reflect.String:
			num(uint64(v.Len()))
			h.Write([]byte(v.String()))
		case reflect.Slice:
			if v.IsNil() {
				num(0x9999)
				return
			}
			num(uint64(v.Len()))
			for i := 0; i < v.Len(); i++ {
				walk(v.Index(i), depth+1)
			}
		case reflect.Array:
			for i := 0; i < v.Len(); i++ {
				walk(v.Index(i), depth+1)
			}
		case reflect.Map:
			if v.IsNil() {
				num(0x9998)
				return
			}
			num(uint64(v.Len()))
			type kv struct{ k, v uint64 }
			var kvs []kv
			it := v.MapRange()
			for it.Next() {
				kvs = append(kvs, kv{sub(it.Key()), sub(it.Value())})
			}
			sort.Slice(kvs, func(i, j int) bool { return kvs[i].k < kvs[j].k || kvs[i].k == kvs[j].k && kvs[i].v < kvs[j].v })
			for _, e := range kvs {
				num(e.k)
				num(e.v)
			}
		case reflect.Struct:
			t := v.Type()
			for i := 0; i < v.NumField(); i++ {
				if sk[t.Field(i).Name] {
					continue
				}
				walk(v.Field(i), depth+1)
			}
		case reflect.Ptr, reflect.Interface:
			if v.IsNil() {
				num(0)
				return
			}
			num(1)
			walk(v.Elem(), depth+1)
		case reflect.Func, reflect.Chan, reflect.UnsafePointer:
			if v.IsNil() {
				num(0)
			} else {
				num(1)
			}
		}
	}
	rv, ok := v.(reflect.Value)
	if !ok {
		rv = reflect.ValueOf(v)
	}
	walk(rv, 0)
	return h.Sum64()
}

// DeepHashValue is DeepHash for a reflect.Value with a prepared skip set.
func DeepHashValue(v reflect.Value, sk map[string]bool) uint64 {
	names := make([]string, 0, len(sk))
	for k := range sk {
		names = append(names, k)
	}
	return DeepHash(v, names...)
}
