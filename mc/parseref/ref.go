// Package parseref is the reference VT500 automaton (plus the documented vaxis
// extensions) used by the parser properties: it is fed scalar values and produces
// a list of rendered items. The same rendering is available for the sequences the
// real parser delivers, so that the two can be compared item by item.
package parseref

import (
	"fmt"
	"strings"
	"unicode/utf8"

	"git.sr.ht/~rockorager/vaxis/ansi"
)

type rstate int

const (
	ground rstate = iota
	escape
	escInter
	csiEntry
	csiParam
	csiInter
	csiIgnore
	dcsEntry
	dcsParam
	dcsInter
	dcsPass
	dcsIgnore
	oscStr
	sosPm
	apcStr
	ss3
	numStates
)

var stateNames = []string{"ground", "escape", "escape-intermediate", "csi-entry", "csi-param", "csi-intermediate", "csi-ignore",
	"dcs-entry", "dcs-param", "dcs-intermediate", "dcs-passthrough", "dcs-ignore", "osc-string", "sos/pm-string", "apc-string", "ss3"}

// shortest prefixes entering each state
var statePrefix = []string{"", "\x1b", "\x1b ", "\x1b[", "\x1b[1", "\x1b[ ", "\x1b[1<", "\x1bP", "\x1bP1", "\x1bP ", "\x1bPq", "\x1bP:", "\x1b]", "\x1bX", "\x1b_", "\x1bO"}

const maxParam = 1<<31 - 1

type Ref struct {
	st       rstate
	inter    []rune
	params   []rune
	osc      []rune
	dcsData  []rune
	dcsFinal rune
	dcsInter []rune
	dcsPar   []rune
	apc      []rune
	strChars int // characters consumed by the string state we are in / just left
	stSupp   bool
	text     []rune
	Out      []string
	Outside  bool // a scalar >= 0x80 met outside ground / string states: not defined by the byte machine
}

func (m *Ref) flushText() {
	if len(m.text) > 0 {
		m.Out = append(m.Out, "P:"+string(m.text))
		m.text = nil
	}
}

func (m *Ref) emit(s string) { m.flushText(); m.Out = append(m.Out, s) }

func isC0exec(c rune) bool { return c <= 0x17 || c == 0x19 || (c >= 0x1C && c <= 0x1F) }

func decodeParams(ps []rune) string {
	if len(ps) == 0 {
		return ""
	}
	var groups []string
	cur := []string{}
	val := 0
	for _, c := range ps {
		switch c {
		case ';':
			cur = append(cur, fmt.Sprint(val))
			groups = append(groups, strings.Join(cur, ":"))
			cur, val = []string{}, 0
		case ':':
			cur = append(cur, fmt.Sprint(val))
			val = 0
		default:
			val = val*10 + int(c-'0')
			if val > maxParam {
				val = maxParam
			}
		}
	}
	cur = append(cur, fmt.Sprint(val))
	groups = append(groups, strings.Join(cur, ":"))
	return strings.Join(groups, ";")
}

func decodeDCSParams(ps []rune) string {
	if len(ps) == 0 {
		return ""
	}
	var out []string
	for _, p := range strings.Split(string(ps), ";") {
		v := 0
		for _, c := range p {
			v = v*10 + int(c-'0')
			if v > maxParam {
				v = maxParam
			}
		}
		out = append(out, fmt.Sprint(v))
	}
	return strings.Join(out, ";")
}

// exit action of the state being left
func (m *Ref) exitState() {
	switch m.st {
	case oscStr:
		m.emit("OSC:" + string(m.osc))
		m.osc = nil
	case dcsPass:
		m.emit(fmt.Sprintf("DCS:%s:%s:%c:%s", string(m.dcsInter), decodeDCSParams(m.dcsPar), m.dcsFinal, string(m.dcsData)))
		m.dcsData = nil
	case apcStr:
		m.emit("APC:" + string(m.apc))
		m.apc = nil
	}
}

func (m *Ref) clear() { m.inter, m.params = nil, nil }

func (m *Ref) Feed(c rune) {
	// anywhere
	switch {
	case c == 0x18 || c == 0x1A:
		m.exitState()
		m.emit(fmt.Sprintf("C0:%02X", c))
		m.st = ground
		return
	case c == 0x1B:
		wasString := m.st == oscStr || m.st == dcsPass || m.st == dcsIgnore || m.st == sosPm || m.st == apcStr
		m.exitState()
		m.stSupp = wasString && m.strChars > 0
		m.strChars = 0
		m.clear()
		m.st = escape
		return
	}
	if c >= 0x80 && m.st != ground && m.st != oscStr && m.st != dcsPass && m.st != dcsIgnore && m.st != sosPm && m.st != apcStr {
		m.Outside = true
	}
	switch m.st {
	case ground:
		if isC0exec(c) {
			m.emit(fmt.Sprintf("C0:%02X", c))
			return
		}
		m.text = append(m.text, c)
	case escape:
		supp := m.stSupp
		m.stSupp = false
		switch {
		case isC0exec(c):
			m.emit(fmt.Sprintf("C0:%02X", c))
			m.stSupp = false
		case c >= 0x20 && c <= 0x2F:
			m.inter = append(m.inter, c)
			m.st = escInter
		case c == 'O':
			m.st = ss3
		case c == 'P':
			m.clear()
			m.dcsInter, m.dcsPar = nil, nil
			m.st = dcsEntry
		case c == '[':
			m.clear()
			m.st = csiEntry
		case c == ']':
			m.osc = nil
			m.strChars = 0
			m.st = oscStr
		case c == 'X' || c == '^':
			m.strChars = 0
			m.st = sosPm
		case c == '_':
			m.apc = nil
			m.strChars = 0
			m.st = apcStr
		case c == '\\' && supp:
			m.st = ground
		case c >= 0x30 && c <= 0x7F: // 7F: Alt+Backspace (documented extension)
			m.emit(fmt.Sprintf("ESC::%c", c))
			m.st = ground
		default:
			m.st = ground
		}
	case escInter:
		switch {
		case isC0exec(c):
			m.emit(fmt.Sprintf("C0:%02X", c))
		case c >= 0x20 && c <= 0x2F:
			m.inter = append(m.inter, c)
		case c == 0x7F:
		case c >= 0x30 && c <= 0x7E:
			m.emit(fmt.Sprintf("ESC:%s:%c", string(m.inter), c))
			m.st = ground
		default:
			m.st = ground
		}
	case csiEntry, csiParam:
		switch {
		case isC0exec(c):
			m.emit(fmt.Sprintf("C0:%02X", c))
		case c == 0x7F:
		case (c >= '0' && c <= '9') || c == ';' || c == ':': // colon sub-parameters: documented extension
			m.params = append(m.params, c)
			m.st = csiParam
		case c >= 0x3C && c <= 0x3F:
			if m.st == csiEntry {
				m.inter = append(m.inter, c)
				m.st = csiParam
			} else {
				m.st = csiIgnore
			}
		case c >= 0x20 && c <= 0x2F:
			m.inter = append(m.inter, c)
			m.st = csiInter
		case c >= 0x40 && c <= 0x7E:
			m.emit(fmt.Sprintf("CSI:%s:%s:%c", string(m.inter), decodeParams(m.params), c))
			m.st = ground
		default:
			m.st = ground
		}
	case csiInter:
		switch {
		case isC0exec(c):
			m.emit(fmt.Sprintf("C0:%02X", c))
		case c >= 0x20 && c <= 0x2F:
			m.inter = append(m.inter, c)
		case c == 0x7F:
		case c >= 0x30 && c <= 0x3F:
			m.st = csiIgnore
		case c >= 0x40 && c <= 0x7E:
			m.emit(fmt.Sprintf("CSI:%s:%s:%c", string(m.inter), decodeParams(m.params), c))
			m.st = ground
		default:
			m.st = ground
		}
	case csiIgnore:
		switch {
		case isC0exec(c):
			m.emit(fmt.Sprintf("C0:%02X", c))
		case c >= 0x40 && c <= 0x7E:
			m.st = ground
		}
	case dcsEntry, dcsParam:
		switch {
		case isC0exec(c), c == 0x7F:
		case c >= 0x20 && c <= 0x2F:
			m.dcsInter = append(m.dcsInter, c)
			m.st = dcsInter
		case c == ':':
			m.strChars = 0
			m.st = dcsIgnore
		case (c >= '0' && c <= '9') || c == ';':
			m.dcsPar = append(m.dcsPar, c)
			m.st = dcsParam
		case c >= 0x3C && c <= 0x3F:
			if m.st == dcsEntry {
				m.dcsInter = append(m.dcsInter, c)
				m.st = dcsParam
			} else {
				m.strChars = 0
				m.st = dcsIgnore
			}
		case c >= 0x40 && c <= 0x7E:
			m.dcsFinal, m.dcsData, m.strChars = c, nil, 0
			m.st = dcsPass
		default:
			m.Outside = true
		}
	case dcsInter:
		switch {
		case isC0exec(c), c == 0x7F:
		case c >= 0x20 && c <= 0x2F:
			m.dcsInter = append(m.dcsInter, c)
		case c >= 0x30 && c <= 0x3F:
			m.strChars = 0
			m.st = dcsIgnore
		case c >= 0x40 && c <= 0x7E:
			m.dcsFinal, m.dcsData, m.strChars = c, nil, 0
			m.st = dcsPass
		default:
			m.Outside = true
		}
	case dcsPass:
		m.strChars++
		if c != 0x7F {
			m.dcsData = append(m.dcsData, c)
		}
	case dcsIgnore, sosPm:
		m.strChars++
	case oscStr:
		if c == 0x07 { // BEL-terminated OSC: documented extension
			m.exitState()
			m.st = ground
			return
		}
		m.strChars++
		if c >= 0x20 {
			m.osc = append(m.osc, c)
		}
	case apcStr:
		m.strChars++
		if !isC0exec(c) {
			m.apc = append(m.apc, c)
		}
	case ss3:
		switch {
		case isC0exec(c):
			m.emit(fmt.Sprintf("C0:%02X", c))
		case c == 0x7F:
		default:
			m.emit(fmt.Sprintf("SS3:%c", c))
			m.st = ground
		}
	}
}

func (m *Ref) EOF() {
	m.exitState()
	m.flushText()
}

// runes of a byte string as the parser reads them: valid UTF-8 scalars, invalid bytes as the rune of the same value
func RunesOf(b []byte) []rune {
	var out []rune
	for len(b) > 0 {
		c, n := utf8.DecodeRune(b)
		if c == utf8.RuneError && n == 1 {
			out = append(out, rune(b[0]))
		} else {
			out = append(out, c)
		}
		b = b[n:]
	}
	return out
}

func Reference(b []byte) ([]string, bool) {
	m := &Ref{}
	for _, c := range RunesOf(b) {
		m.Feed(c)
	}
	m.EOF()
	return m.Out, m.Outside
}


// Timeout is the Escape-key decision: if the last scalar was an ESC that nothing
// followed, it is reported as the Escape key and parsing resumes in ground.
func (m *Ref) Timeout() bool {
	if m.st != escape {
		return false
	}
	m.emit("C0:1B")
	m.st = ground
	m.stSupp = false
	return true
}

// AwaitingEscape reports whether the automaton has just consumed a lone ESC.
func (m *Ref) AwaitingEscape() bool { return m.st == escape }

// Flush returns the items so far including pending text.
func (m *Ref) Items() []string {
	out := append([]string(nil), m.Out...)
	if len(m.text) > 0 {
		out = append(out, "P:"+string(m.text))
	}
	return out
}

// Render gives the item string of a delivered sequence ("" for Print, EOF and errors, which the caller handles).
func Render(seq ansi.Sequence) string {
	switch s := seq.(type) {
	case ansi.C0:
		return fmt.Sprintf("C0:%02X", rune(s))
	case ansi.ESC:
		return fmt.Sprintf("ESC:%s:%c", string(s.Intermediate), s.Final)
	case ansi.SS3:
		return fmt.Sprintf("SS3:%c", rune(s))
	case ansi.CSI:
		var groups []string
		for _, g := range s.Parameters {
			var sub []string
			for _, v := range g {
				sub = append(sub, fmt.Sprint(v))
			}
			groups = append(groups, strings.Join(sub, ":"))
		}
		return fmt.Sprintf("CSI:%s:%s:%c", string(s.Intermediate), strings.Join(groups, ";"), s.Final)
	case ansi.OSC:
		return "OSC:" + string(s.Payload)
	case ansi.DCS:
		var ps []string
		for _, v := range s.Parameters {
			ps = append(ps, fmt.Sprint(v))
		}
		return fmt.Sprintf("DCS:%s:%s:%c:%s", string(s.Intermediate), strings.Join(ps, ";"), s.Final, string(s.Data))
	case ansi.APC:
		return "APC:" + s.Data
	}
	return ""
}
