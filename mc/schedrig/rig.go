// Package schedrig runs scenarios on a real Vaxis under the controlled scheduler:
// New under the canonical schedule, then every schedule of the scenario's threads
// within the deviation bounds, with the generic oracle (panic, deadlock, livelock,
// data race, goroutines left behind, terminal restored) plus the scenario's own.
// Used by the C10 harness and by the scheduler parts of C03 and C04.
package schedrig

import (
	"fmt"
	"os"
	"runtime/pprof"
	"sort"
	"strings"
	"time"

	"git.sr.ht/~rockorager/vaxis"
	"git.sr.ht/~rockorager/vaxis/verifshim/vsched"
	"git.sr.ht/~rockorager/vaxis/verifshim/vfail"
	vpty "git.sr.ht/~rockorager/vaxis/verifshim/vpty"
	vsignal "git.sr.ht/~rockorager/vaxis/verifshim/vsignal"
	vtime "git.sr.ht/~rockorager/vaxis/verifshim/vtime"
	"verif.local/mc/explore"
	"verif.local/mc/refterm"
	"verif.local/mc/schedcon"
)

var r *explore.Run

// QuickFairOnly: in the quick tier explore under the least-recently-run order only (both in thorough).
var QuickFairOnly bool

// ID is the property the run reports under.
var ID string

type UserEv struct {
	Src string
	N   int
}

// World is the per-execution state a Scenario works with.
type World struct {
	Vx   *vaxis.Vaxis
	Con  *schedcon.Console
	T    *refterm.Terminal
	Got  []string // events seen by the main thread, rendered
	Note []string // scenario observations
	fail string   // scenario-specific verdict: "clause: text"

	Prof      refterm.Profile
	Released  bool // the held terminal replies have been delivered
	atTimeout struct{ seen, released, handled bool }
	// ExpectPanic is the value of a panic the scenario provokes on purpose (failpoint): it is
	// expected exactly once and is not a violation.
	ExpectPanic string
	// TimedOut: some query of the scenario ran into its time-out (a late report may then legitimately be decoded as a key).
	TimedOut bool
	// NoClose: the scenario does not end with Close (the terminal-restored oracle is skipped).
	NoClose bool
}

func (w *World) Failf(clause, format string, a ...any) {
	if w.fail == "" {
		w.fail = clause + "\x00" + fmt.Sprintf(format, a...)
	}
}

func render(ev vaxis.Event) string {
	switch e := ev.(type) {
	case UserEv:
		return fmt.Sprintf("%s%d", e.Src, e.N)
	case vaxis.Key:
		return "key:" + e.String()
	case vaxis.SyncFunc:
		return "syncfunc"
	case vaxis.Redraw:
		return "redraw"
	case vaxis.Resize:
		return fmt.Sprintf("resize:%dx%d", e.Cols, e.Rows)
	case vaxis.QuitEvent:
		return "quit"
	case vaxis.FocusIn:
		return "focus-in"
	case vaxis.FocusOut:
		return "focus-out"
	case vaxis.PasteStartEvent:
		return "paste-start"
	case vaxis.PasteEndEvent:
		return "paste-end"
	case vaxis.Mouse:
		return fmt.Sprintf("mouse:%d,%d,b%d,e%d", e.Col, e.Row, e.Button, e.EventType)
	case vaxis.ColorThemeUpdate:
		return fmt.Sprintf("color-theme:%d", e.Mode)
	}
	return fmt.Sprintf("%T", ev)
}

// next receives one event in the main thread and gives it the standard treatment.
func (w *World) Next() (vaxis.Event, bool) {
	ev, ok := <-vsched.Pre(w.Vx.Events(), vsched.Recv)
	vsched.Post()
	if !ok {
		return nil, false
	}
	w.Got = append(w.Got, render(ev))
	switch e := ev.(type) {
	case vaxis.SyncFunc:
		e()
	case vaxis.Redraw, vaxis.Resize:
		w.Draw()
	}
	return ev, true
}

func (w *World) Draw() {
	win := w.Vx.Window()
	win.Clear()
	win.Print(vaxis.Segment{Text: fmt.Sprintf("n=%d", len(w.Got))})
	w.Vx.Render()
}

// until consumes events until pred holds for the rendered history (max events guards against a runaway).
func (w *World) Until(pred func() bool) {
	for i := 0; i < 60 && !pred(); i++ {
		if _, ok := w.Next(); !ok {
			w.Failf("queue-closed", "the event channel was closed while the application still waited for events")
			return
		}
	}
	if !pred() {
		w.Failf("lost-event", "an expected event never arrived; seen: %v", w.Got)
	}
}

// Close calls Vaxis.Close the way an application does and checks, the moment it returns, that the shutdown is
// over (the console has been closed: the last step of it) - also when another goroutine's Close was already
// under way.
func (w *World) Close() {
	w.Vx.Close()
	if w.Con.Closes == 0 {
		w.Failf("close-returned-early", "Close returned while the shutdown was still going on (the console has not been closed yet)")
	}
}

func (w *World) CheckCursor(row, col int) {
	tr, tc, _ := w.T.Cursor()
	if row == -1 && col == -1 && w.atTimeout.seen && w.atTimeout.released && w.atTimeout.handled {
		w.Failf("query-timeout-despite-reply", "CursorPosition timed out although the terminal's report had arrived and been handled before the time-out (events seen: %v)", w.Got)
	}
	w.atTimeout.seen = false
	if row == -1 && col == -1 {
		w.TimedOut = true
	}
	if !(row == -1 && col == -1) && !(row == tr && col == tc) {
		w.Failf("cursor-position", "CursorPosition returned %d,%d (the terminal's cursor is at %d,%d)", row, col, tr, tc)
	}
}

func (w *World) Seen(s string) bool {
	for _, g := range w.Got {
		if g == s {
			return true
		}
	}
	return false
}

// order checks that the events of one source were delivered in posting order.
func (w *World) Order(src string, n int) {
	want := 1
	for _, g := range w.Got {
		if strings.HasPrefix(g, src) {
			var k int
			fmt.Sscanf(g[len(src):], "%d", &k)
			if k != want {
				w.Failf("post-order", "events of goroutine %s delivered as %v", src, w.Got)
				return
			}
			want++
		}
	}
	if want != n+1 {
		w.Failf("lost-event", "blocking posts of goroutine %s: %d of %d delivered (%v)", src, want-1, n, w.Got)
	}
}

type Scenario struct {
	Name  string
	Queue int
	Caps  refterm.Cap
	Hold  bool // terminal replies are held until released by an environment event
	Body  func(w *World)
	// Profile, if set, adjusts the terminal profile (after Caps have been applied).
	Profile func(p *refterm.Profile)
	// Options, if set, adjusts the Vaxis options.
	Options func(o *vaxis.Options)
}

func Poster(w *World, src string, n int) {
	vsched.GoNamed("poster-"+src, func() {
		for i := 1; i <= n; i++ {
			w.Vx.PostEventBlocking(UserEv{src, i})
		}
	})
}

func TypeBytes(w *World, name, b string) {
	vsched.AddEnv("input:"+name, true, func() bool { return true }, func() { w.Con.Inject([]byte(b)) })
}

func diffTables(a, b map[string]string) map[string]string {
	d := map[string]string{}
	for k, v := range a {
		if b[k] != v {
			d[k] = fmt.Sprintf("%s -> %s", v, b[k])
		}
	}
	return d
}

func IndexOf(l []string, s string) int {
	for i, x := range l {
		if x == s {
			return i
		}
	}
	return 1 << 30
}

// ---- one execution ----------------------------------------------------------------------------------------------------

func execute(sc *Scenario, prefix []int) (*vsched.Result, *World) {
	vsignal.ResetAll()
	vfail.Hook = nil
	vpty.Reset()
	caps := sc.Caps
	if caps == 0 {
		caps = refterm.CapRGB | refterm.CapSync | refterm.CapKittyKB
	}
	prof := refterm.DefaultProfile(caps, refterm.VersionOther)
	prof.ClipboardReply = "aGVsbG8="
	if sc.Profile != nil {
		sc.Profile(&prof)
	}
	t := refterm.New(20, 6, prof)
	w := &World{T: t, Con: schedcon.New(t), Prof: prof}
	res := vsched.Run(prefix, 6000, func(s *vsched.Sched) {
		s.Closed = true
		s.Races = true
		s.OnEnv = func(e *vsched.Env) {
			if tm := e.Timer(); tm != nil && tm.D == 50*time.Millisecond {
				// what had happened by the time the query's time-out struck
				w.atTimeout.seen = true
				w.atTimeout.released = w.Released
				w.atTimeout.handled = w.Con.Idle() && vsched.OthersBlocked("") // everybody, the asking goroutine included, was waiting: the time-out struck in real silence
			}
		}
		s.TimerGate = func(tm *vtime.Timer) bool {
			if tm.D == 10*time.Millisecond && tm.IsFunc() && tm.Tag != "context" {
				// the Escape timer can fire only while the parsers wait for input
				return w.Con.Idle() && !vpty.Busy()
			}
			return true
		}
	}, func() {
		opts := vaxis.Options{WithConsole: w.Con, EventQueueSize: sc.Queue}
		if sc.Options != nil {
			sc.Options(&opts)
		}
		vx, err := vaxis.New(opts)
		if err != nil {
			w.Failf("new", "New failed: %v", err)
			return
		}
		w.Vx = vx
		// let the input goroutine handle the start-up replies that follow DA1
		w.Con.Inject([]byte("\x1b[I"))
		w.Until(func() bool { return w.Seen("focus-in") })
		w.Got = nil
		w.Con.Hold = sc.Hold
		vsched.Window(true)
		sc.Body(w)
	})
	return res, w
}

type detail struct {
	Scenario string   `json:"scenario"`
	Fair     bool     `json:"fair_order"`
	Schedule []int    `json:"schedule"`
	Trace    []string `json:"trace,omitempty"`
	Events   []string `json:"events_seen,omitempty"`
	What     string   `json:"what"`
}

func check(sc *Scenario, res *vsched.Result, w *World) (sig, what string) {
	switch {
	case res.Diverged != "":
		r.Fault("schedule diverged: %s (%s)", res.Diverged, sc.Name)
	case len(res.Panics) > 0 && !(w.ExpectPanic != "" && len(res.Panics) == 1 && strings.Contains(res.Panics[0].Value, w.ExpectPanic)):
		p := res.Panics[0]
		if w.ExpectPanic != "" && strings.Contains(p.Value, w.ExpectPanic) && len(res.Panics) > 1 {
			p = res.Panics[1]
		}
		return fmt.Sprintf(ID+"|panic|%s|%s", p.Site, explore.PanicClass(p.Value)), fmt.Sprintf("thread %s panicked: %s", p.Thread, p.Value)
	case res.Exceeded:
		return ID + "|runaway|" + sc.Name, "the execution did not finish within the step limit"
	case res.Deadlock != "":
		return ID + "|deadlock|" + sc.Name + "|" + blockedKinds(res.Deadlock), "no thread can run: " + res.Deadlock
	case w.fail != "":
		p := strings.SplitN(w.fail, "\x00", 2)
		return ID + "|" + p[0] + "|" + sc.Name, p[1]
	case len(res.Blocked) > 0:
		return ID + "|goroutine-outlives-close|" + sc.Name + "|" + blockedKinds(strings.Join(res.Blocked, "; ")), "still blocked after Close returned: " + strings.Join(res.Blocked, "; ")
	case w.ExpectPanic != "" && len(res.Panics) == 0:
		return ID + "|panic-swallowed|" + sc.Name, "the panic provoked inside the input goroutine was not raised again"
	case w.NoClose:
		return "", ""
	case w.Con.Closes != 1:
		return ID + "|console-close|" + sc.Name, fmt.Sprintf("console closed %d times", w.Con.Closes)
	case w.Con.Resets < w.Con.SetRaws:
		return ID + "|still-raw|" + sc.Name, fmt.Sprintf("console made raw %d times, reset %d times", w.Con.SetRaws, w.Con.Resets)
	}
	// whatever the interleaving, Close leaves the terminal as it was before New
	if d := diffTables(refterm.New(w.T.Cols, w.T.Rows, w.Prof).ModeTable(), w.T.ModeTable()); len(d) > 0 {
		var keys []string
		for k := range d {
			keys = append(keys, k)
		}
		sort.Strings(keys)
		for _, rc := range res.Races {
			if rc.RootA == "Vaxis.Close@library-goroutine" || rc.RootB == "Vaxis.Close@library-goroutine" {
				// a consequence of the race reported for this very execution: Close on the input
				// goroutine and Render on the main goroutine write into the same writer buffer,
				// and one Flush drops what the other had appended
				return ID + "|race|close-on-input-goroutine|consequence:not-restored|" + sc.Name,
					fmt.Sprintf("Close ran on the input goroutine concurrently with the main goroutine (data race on %s) and the terminal was not restored: %v", rc.Field, d)
			}
		}
		return ID + "|not-restored|" + sc.Name + "|" + strings.Join(keys, ","), fmt.Sprintf("terminal state after Close differs from the state before New: %v", d)
	}
	return "", ""
}

// blockedKinds abstracts a list of blocked threads to thread names (without ids).
func blockedKinds(s string) string {
	var out []string
	for _, p := range strings.Split(s, "; ") {
		n := strings.SplitN(p, ":", 2)[0]
		if strings.HasPrefix(n, "t") && len(n) > 1 && n[1] >= '0' && n[1] <= '9' {
			n = "library-goroutine"
		}
		dup := false
		for _, o := range out {
			if o == n {
				dup = true
			}
		}
		if !dup {
			out = append(out, n)
		}
	}
	return strings.Join(out, "+")
}

var lastWorld *World

// after this many executions with a violation that is not a known finding, the exploration of the
// scenario stops: the run fails anyway, and a change that makes every execution fail (and longer) must
// not make the check run for hours
const stopAfterNewViolations = 300

func exploreScenario(sc *Scenario, bound int, budget int64, shard, nshards int) {
	outcomes := map[string]bool{}
	newViolations := 0
	noteViolation := func(sig string) {
		if !r.IsKnown(sig) {
			newViolations++
			if newViolations == stopAfterNewViolations {
				vsched.Abort = true
				r.Count("scenarios_stopped_after_violations", 1)
			}
		}
	}
	n, capped := vsched.Explore(bound, budget, shard, nshards, func(prefix []int) *vsched.Result {
		res, w := execute(sc, prefix)
		if os.Getenv("VERIF_DOUBLE") != "" {
			// determinism self-test: the same schedule twice must give the same observations
			vsched.Describe = true
			res1, w1 := execute(sc, prefix)
			res2, w2 := execute(sc, prefix)
			vsched.Describe = false
			a, _ := check(sc, res1, w1)
			b, _ := check(sc, res2, w2)
			if a != b || strings.Join(w1.Got, ",") != strings.Join(w2.Got, ",") || len(res1.Trace) != len(res2.Trace) {
				var t1, t2 []string
				for _, p := range res1.Trace {
					if !p.Fixed {
						t1 = append(t1, p.Desc)
					}
				}
				for _, p := range res2.Trace {
					if !p.Fixed {
						t2 = append(t2, p.Desc)
					}
				}
				r.Fault("scenario %s is not deterministic under schedule %v:\n run 1: %q %v\n  %s\n run 2: %q %v\n  %s", sc.Name, prefix, a, w1.Got, strings.Join(t1, " / "), b, w2.Got, strings.Join(t2, " / "))
			}
		}
		lastWorld = w
		return res
	}, func(prefix []int, res *vsched.Result) {
		w := lastWorld
		r.Count("points", int64(len(res.Trace)))
		outcomes[strings.Join(w.Got, ",")+"|"+strings.Join(w.Note, ",")] = true
		for _, rc := range res.Races {
			var sched []int
			for _, p := range res.Trace {
				sched = append(sched, p.Chosen)
			}
			sig := fmt.Sprintf(ID+"|race|%s|%s~%s|%s|%s", rc.Field, rc.RootA, rc.RootB, rc.A, rc.B)
			// one call site, many fields: Close running on the input goroutine (kill signal, panic)
			for _, side := range [][2]string{{rc.RootA, rc.RootB}, {rc.RootB, rc.RootA}} {
				if side[0] == "Vaxis.Close@library-goroutine" {
					sig = fmt.Sprintf(ID+"|race|close-on-input-goroutine|%s|%s", side[1], rc.Field)
				}
			}
			noteViolation(sig)
			r.Violation(sig, len(sched), detail{Scenario: sc.Name, Fair: vsched.FairOrder, Schedule: sched, Events: w.Got,
				What: fmt.Sprintf("data race on %s: [%s] (inside %s) and [%s] (inside %s) are not ordered by any synchronisation (r = read, w = write)", rc.Field, rc.A, rc.RootA, rc.B, rc.RootB)})
		}
		if sig, what := check(sc, res, w); sig != "" {
			noteViolation(sig)
			var sched []int
			for _, p := range res.Trace {
				sched = append(sched, p.Chosen)
			}
			// run the schedule again with descriptions for the report
			vsched.Describe = true
			res2, w2 := execute(sc, sched)
			vsched.Describe = false
			if sig2, _ := check(sc, res2, w2); sig2 != sig {
				var t2 []string
				for _, p := range res2.Trace {
					if !p.Fixed {
						t2 = append(t2, p.Desc)
					}
				}
				var t1 []string
				for _, p := range res.Trace {
					if !p.Fixed {
						t1 = append(t1, p.Desc)
					}
				}
				r.Fault("replaying a violating schedule gave %q instead of %q (scenario %s)\n first run:  %d points, events %v, %s\n  %s\n second run: %d points, events %v\n  %s", sig2, sig, sc.Name,
					len(res.Trace), w.Got, what, strings.Join(t1, " / "), len(res2.Trace), w2.Got, strings.Join(t2, " / "))
			}
			var tr []string
			open := false
			for _, p := range res2.Trace {
				if !p.Fixed && !open {
					open = true
					tr = append(tr, "... (start-up under the canonical schedule)")
				}
				if open {
					tr = append(tr, p.Desc)
				}
			}
			r.Violation(sig, len(tr), detail{Scenario: sc.Name, Fair: vsched.FairOrder, Schedule: sched, Trace: tr, Events: w.Got, What: what})
		}
	})
	r.Count("executions", n)
	r.Count(fmt.Sprintf("exec:%s:%d", sc.Name, bound), n)
	r.Count(fmt.Sprintf("outcomes:%s", sc.Name), int64(len(outcomes)))
	if capped {
		r.Count(fmt.Sprintf("capped:%s:%d", sc.Name, bound), 1)
	}
}

// Main is the whole harness: worker/parent protocol, replay, exploration of every scenario under both
// canonical orders, evidence. what describes the scenarios for the evidence rule.
func Main(id string, scenarios []Scenario, what string) {
	ID = id
	if os.Getenv("VERIF_DESCRIBE") != "" {
		vsched.AlwaysDescribe = true
	}
	if os.Getenv("VERIF_BENCH") != "" {
		f, _ := os.Create(os.Getenv("VERIF_BENCH"))
		pprof.StartCPUProfile(f)
		t0 := time.Now()
		pts := 0
		for i := 0; i < 300; i++ {
			res, _ := execute(&scenarios[0], nil)
			pts = len(res.Trace)
		}
		pprof.StopCPUProfile()
		fmt.Println("per execution:", time.Since(t0)/300, "points:", pts)
		return
	}
	r = explore.Start(id)
	vsched.DeviationCost = true
	if r.Replay != "" {
		var d detail
		r.LoadReplay(&d)
		for i := range scenarios {
			if scenarios[i].Name == d.Scenario {
				vsched.Describe = true
				vsched.FairOrder = d.Fair
				res, w := execute(&scenarios[i], d.Schedule)
				for i, p := range res.Trace {
					if !p.Fixed {
						fmt.Printf("%4d  %-44s enabled=%v\n", i, p.Desc, p.Enabled)
					}
				}
				fmt.Println("events:", w.Got, w.Note)
				for _, rc := range res.Races {
					fmt.Printf("VIOLATION property=%s replay=%s\n  data race on %s: [%s] / [%s]\n", ID, r.Replay, rc.Field, rc.A, rc.B)
				}
				if len(res.Races) > 0 {
					os.Exit(1)
				}
				if sig, what := check(&scenarios[i], res, w); sig != "" {
					fmt.Printf("VIOLATION property=%s replay=%s\n  %s: %s\n", ID, r.Replay, sig, what)
					os.Exit(1)
				}
				fmt.Println("replay: property holds on this schedule")
				os.Exit(0)
			}
		}
		r.Fault("unknown Scenario %q", d.Scenario)
	}
	// bounds explored completely / with an execution budget
	full := r.Pick(2, 2)
	top := r.Pick(2, 3)
	budget := int64(r.Pick(0, 400000)) // per scenario and canonical order
	if v := os.Getenv("VERIF_FULL"); v != "" {
		fmt.Sscan(v, &full)
	}
	if v := os.Getenv("VERIF_TOP"); v != "" {
		fmt.Sscan(v, &top)
	}
	if v := os.Getenv("VERIF_BUDGET"); v != "" {
		fmt.Sscan(v, &budget)
	}
	if idx, n, _, ok := r.Worker(); ok {
		r.Watchdog(300 * time.Second)
		for i := range scenarios {
			if only := os.Getenv("VERIF_ONLY"); only != "" && !strings.Contains(","+only+",", ","+scenarios[i].Name+",") {
				continue
			}
			// two canonical orders (lowest thread id first / least recently run first):
			// the set of schedules within k deviations differs, both are explored
			orders := []bool{false, true}
			if QuickFairOnly && !r.Thorough() {
				orders = []bool{true}
			}
			for _, fair := range orders {
				vsched.FairOrder = fair
				exploreScenario(&scenarios[i], full, 0, idx, n)
				if top > full {
					exploreScenario(&scenarios[i], top, budget/int64(n), idx, n)
				}
			}
		}
		r.WorkerDone()
	}
	r.Spawn(16, "scenarios", 0)
	ex := r.Get("executions")
	perScenario := map[string]any{}
	cappedN := 0
	for i := range scenarios {
		name := scenarios[i].Name
		m := map[string]any{
			fmt.Sprintf("executions_bound_%d_complete", full): r.Get(fmt.Sprintf("exec:%s:%d", name, full)),
			"distinct_outcomes_summed_over_shards":            r.Get("outcomes:" + name),
		}
		if top > full {
			m[fmt.Sprintf("executions_bound_%d", top)] = r.Get(fmt.Sprintf("exec:%s:%d", name, top))
			c := r.Get(fmt.Sprintf("capped:%s:%d", name, top)) > 0
			m[fmt.Sprintf("bound_%d_complete", top)] = !c
			if c {
				cappedN++
			}
		}
		perScenario[name] = m
		r.Distinct(explore.Hash(name))
	}
	if cappedN > 0 {
		r.CapHit("%d of %d scenarios reached the execution budget (%d) at deviation bound %d; deviation bound %d was explored completely for every Scenario", cappedN, len(scenarios), budget, top, full)
	}
	stopped := r.Get("scenarios_stopped_after_violations")
	if stopped > 0 {
		r.CapHit("%d scenario explorations were stopped after %d executions with a new violation each", stopped, stopAfterNewViolations)
	}
	r.Finish(explore.Coverage{
		States: -1, Transitions: r.Get("points"), Traces: ex, Evaluations: ex,
		Rule:       fmt.Sprintf("stateless exploration of thread schedules of a real Vaxis on a scheduler-aware console backed by the reference terminal: %d scenarios (%s); New runs under the canonical schedule, then every schedule with <=%d deviations completely, under the canonical orders %s, and with <=%d deviations up to an execution budget (a deviation is any choice other than the canonical one: running thread, else first thread in the order, else first environment event - typed input, terminal reply, signal, timer). Oracle per execution: no panic (other than one the scenario provokes, which must be raised again), no deadlock, no step-limit overrun, no happens-before data race on the tracked fields, no library goroutine left blocked after Close, console closed exactly once and not left raw, terminal state after Close equal to the state before New, plus the scenario's own conditions (posting order, no lost event, query results). distinct = scenarios", len(scenarios), what, full, ordersText(), top),
		Exhaustive: cappedN == 0 && stopped == 0,
		Bounds: map[string]any{"deviation_bound_complete": full, "deviation_bound_budgeted": top, "execution_budget_per_scenario": budget, "scenarios": len(scenarios),
			"scenarios_capped_at_top_bound": cappedN, "step_limit": 6000, "per_scenario": perScenario},
		Assumptions: []string{
			"scheduling points are the synchronisation operations (channels, select, close, mutexes, atomics, go, timers, console calls); plain memory accesses between them are atomic here - unsynchronised accesses are the subject of the free-running race-detector pass",
			"timers may fire at any scheduling point once armed, except the 10 ms Escape timer, which fires only while the parser waits for input",
		},
	})
}

func ordersText() string {
	if QuickFairOnly && !r.Thorough() {
		return "{least recently run first}"
	}
	return "{lowest thread id first, least recently run first}"
}
