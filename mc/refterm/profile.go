package refterm

import (
	"fmt"
	"strings"

	"github.com/rivo/uniseg"
)

// Cap is one optional feature of the reference terminal.
type Cap uint32

const (
	CapRGB           Cap = 1 << iota // direct colour; answers XTGETTCAP RGB
	CapSmulx                         // answers XTGETTCAP Smulx (styled + coloured underlines)
	CapVTE                           // VTE-style tertiary DA reply (the other route to styled underlines)
	CapSync                          // mode 2026
	CapUnicodeCore                   // mode 2027
	CapColorScheme                   // mode 2031 + DSR 996
	CapInBandResize                  // mode 2048
	CapKittyKB                       // kitty keyboard protocol
	CapSixelDA1                      // sixel, advertised through DA1 ";4"
	CapSixelXTSM                     // sixel, advertised through XTSMGRAPHICS
	CapOSC176                        // application id
	CapExplicitWidth                 // OSC 66 text sizing
	// reporting-only features
	CapOSC4
	CapOSC10
	CapOSC11
	CapKittyGraphics
	CapDECRQSS
	CapSizeReports
	// derived
	CapStyledUL
	CapSixelAny
)

const (
	NumGatingCaps    = 12
	NumReportingCaps = 6
)

var capNames = map[Cap]string{
	CapRGB: "rgb", CapSmulx: "smulx", CapVTE: "vte", CapSync: "sync", CapUnicodeCore: "unicodeCore",
	CapColorScheme: "colorScheme", CapInBandResize: "inBandResize", CapKittyKB: "kittyKeyboard",
	CapSixelDA1: "sixelDA1", CapSixelXTSM: "sixelXTSM", CapOSC176: "osc176", CapExplicitWidth: "explicitWidth",
	CapOSC4: "osc4", CapOSC10: "osc10", CapOSC11: "osc11", CapKittyGraphics: "kittyGraphics",
	CapDECRQSS: "decrqss", CapSizeReports: "sizeReports", CapStyledUL: "styledUnderlines", CapSixelAny: "sixel",
}

func CapName(c Cap) string { return capNames[c] }

type Version int

const (
	VersionNone Version = iota
	VersionKitty
	VersionTmux34
	VersionOther
)

// Profile is what this terminal implements, plus its initial state.
type Profile struct {
	Caps    Cap
	Version Version

	InitRow, InitCol int
	UserCursorStyle  int
	AppID            string
	CellW, CellH     int // pixel size of a cell (for size reports)

	// AbsentModeReply is the DECRPM status sent for one of the optional modes (2026, 2027,
	// 2031, 2048) that this terminal does not implement: 0 "not recognised" (default) or
	// 4 "permanently reset" - recognised, can never be set; both mean: do not use it.
	AbsentModeReply int
	NoCPR           bool   // never answers DSR 6
	NoDECRQM        bool   // silent on DECRQM instead of answering 0
	NoXTGETTCAP     bool   // silent on unknown XTGETTCAP instead of answering 0+r
	TcapNameOnly    bool   // a boolean capability it has is answered 1+r<name> without "=value" (as kitty does)
	ClipboardReply  string // base64 answer to OSC 52 ? ("" = no answer)
	ProbeOSC66      bool   // classify the start-up OSC 66 probe as a query
}

func (p Profile) Has(c Cap) bool {
	switch c {
	case CapStyledUL:
		return p.Caps&(CapSmulx|CapVTE) != 0
	case CapSixelAny:
		return p.Caps&(CapSixelDA1|CapSixelXTSM) != 0
	}
	return p.Caps&c != 0
}

func (p Profile) VersionString() string {
	switch p.Version {
	case VersionKitty:
		return "kitty(0.35.2)"
	case VersionTmux34:
		return "tmux 3.4"
	case VersionOther:
		return "refterm(1.0)"
	}
	return ""
}

func (p Profile) String() string {
	s := ""
	for i := 0; i < NumGatingCaps+NumReportingCaps; i++ {
		c := Cap(1 << i)
		if p.Caps&c != 0 {
			if s != "" {
				s += "+"
			}
			s += capNames[c]
		}
	}
	if s == "" {
		s = "none"
	}
	if p.AbsentModeReply != 0 {
		s += fmt.Sprintf("/absent-modes-answer-%d", p.AbsentModeReply)
	}
	if p.TcapNameOnly {
		s += "/xtgettcap-name-only"
	}
	if p.CellW == 0 || p.CellH == 0 {
		s += "/no-pixel-sizes"
	}
	if p.AppID == "" {
		s += "/empty-app-id"
	}
	return fmt.Sprintf("%s/v%d/cur%d,%d/cs%d", s, p.Version, p.InitRow, p.InitCol, p.UserCursorStyle)
}

// DefaultProfile fills the non-capability fields.
func DefaultProfile(caps Cap, v Version) Profile {
	return Profile{Caps: caps, Version: v, CellW: 8, CellH: 16, AppID: "host-app", ProbeOSC66: true}
}

// PaletteRGB is the xterm 256-colour palette: 16 system colours (xterm
// defaults), the 6x6x6 cube with levels 0,95,135,175,215,255 and 24 greys 8+10i.
func PaletteRGB(n int) (r, g, b int) {
	sys := [16][3]int{{0, 0, 0}, {205, 0, 0}, {0, 205, 0}, {205, 205, 0}, {0, 0, 238}, {205, 0, 205}, {0, 205, 205}, {229, 229, 229},
		{127, 127, 127}, {255, 0, 0}, {0, 255, 0}, {255, 255, 0}, {92, 92, 255}, {255, 0, 255}, {0, 255, 255}, {255, 255, 255}}
	lv := [6]int{0, 95, 135, 175, 215, 255}
	switch {
	case n < 0 || n > 255:
		return 0, 0, 0
	case n < 16:
		return sys[n][0], sys[n][1], sys[n][2]
	case n < 232:
		k := n - 16
		return lv[k/36], lv[(k/6)%6], lv[k%6]
	}
	v := 8 + 10*(n-232)
	return v, v, v
}

// NaturalWidth is the number of columns this terminal gives a grapheme cluster
// written as plain text, under the given width mode.
func NaturalWidth(g string, mode WidthMode) int {
	switch mode {
	case WidthCluster:
		return uniseg.StringWidth(g)
	case WidthKitty:
		return uniseg.StringWidth(strings.ReplaceAll(g, "‍", ""))
	}
	w := 0
	for _, r := range g {
		w += runeW(r)
	}
	return w
}

// ModeFor is the width mode this terminal is in once an application that
// understands its advertisements has started (2027 set iff implemented and
// explicit width is not).
func (p Profile) ModeFor() WidthMode {
	if p.Version == VersionTmux34 {
		return WidthCluster
	}
	if p.Has(CapUnicodeCore) && !p.Has(CapExplicitWidth) {
		return WidthCluster
	}
	if p.Version == VersionKitty {
		return WidthKitty
	}
	return WidthLegacy
}
