// Package refterm is an independent reference terminal: a VT/xterm model
// written from the xterm control-sequence documentation (ctlseqs), the DEC
// STD 070 / vt100.net parser description and the kitty/contour protocol
// documents. It shares no code with the library under test.
package refterm

import "unicode/utf8"

// byte-level Williams automaton ------------------------------------------------

type pstate int

const (
	sGround pstate = iota
	sEscape
	sEscInter
	sCSIEntry
	sCSIParam
	sCSIInter
	sCSIIgnore
	sDCSEntry
	sDCSParam
	sDCSInter
	sDCSPass
	sDCSIgnore
	sOSC
	sSOSPMAPC
)

// Seq is one parsed control function.
type Seq struct {
	Kind   byte    // 'P' print, 'C' C0, 'E' ESC, '[' CSI, ']' OSC, 'D' DCS, '_' APC
	R      rune    // print / C0
	Marker byte    // CSI/DCS private marker (< = > ?) or 0
	Inter  string  // intermediates
	Final  byte    // final byte
	Params [][]int // parameters with colon sub-parameters; -1 = omitted
	Data   string  // OSC / DCS / APC payload
	Raw    string  // exact bytes of the control function
}

type parser struct {
	st      pstate
	marker  byte
	inter   []byte
	params  [][]int
	cur     int
	hasCur  bool
	sub     bool
	data    []byte
	raw     []byte
	strKind byte // which string we are in: ']' 'D' '_' 'X'(sos/pm)
	final   byte
	utf     []byte // pending UTF-8 bytes in ground
	out     func(Seq)
	escFromString bool
}

func (p *parser) clear() {
	p.marker = 0
	p.inter = p.inter[:0]
	p.params = nil
	p.cur, p.hasCur, p.sub = 0, false, false
}

func (p *parser) paramByte(b byte) {
	switch {
	case b >= '0' && b <= '9':
		if !p.hasCur {
			p.cur, p.hasCur = 0, true
		}
		if p.cur < 1<<24 {
			p.cur = p.cur*10 + int(b-'0')
		}
	case b == ';':
		p.pushParam(false)
	case b == ':':
		p.pushParam(true)
	}
}

func (p *parser) pushParam(nextIsSub bool) {
	v := -1
	if p.hasCur {
		v = p.cur
	}
	if p.sub && len(p.params) > 0 {
		p.params[len(p.params)-1] = append(p.params[len(p.params)-1], v)
	} else {
		p.params = append(p.params, []int{v})
	}
	p.sub = nextIsSub
	p.cur, p.hasCur = 0, false
}

func (p *parser) finishParams() [][]int {
	if p.hasCur || len(p.params) > 0 || p.sub {
		p.pushParam(false)
	}
	return p.params
}

func (p *parser) emitString() {
	switch p.strKind {
	case ']':
		p.out(Seq{Kind: ']', Data: string(p.data), Raw: string(p.raw)})
	case 'D':
		p.out(Seq{Kind: 'D', Marker: p.marker, Inter: string(p.inter), Final: p.final, Params: p.params, Data: string(p.data), Raw: string(p.raw)})
	case '_':
		p.out(Seq{Kind: '_', Data: string(p.data), Raw: string(p.raw)})
	}
	p.strKind = 0
	p.data = nil
}

func (p *parser) flushUTF() {
	for len(p.utf) > 0 {
		r, n := utf8.DecodeRune(p.utf)
		p.out(Seq{Kind: 'P', R: r, Raw: string(p.utf[:n])})
		p.utf = p.utf[n:]
	}
}

func (p *parser) feed(b byte) {
	// anywhere transitions
	switch {
	case b == 0x18 || b == 0x1A:
		p.flushUTF()
		if p.st == sOSC || p.st == sDCSPass || (p.st == sSOSPMAPC && p.strKind == '_') {
			// cancelled string: no effect
		}
		p.strKind = 0
		p.data = nil
		p.st = sGround
		return
	case b == 0x1B:
		p.flushUTF()
		p.escFromString = false
		if p.st == sOSC || p.st == sDCSPass || p.st == sSOSPMAPC {
			// string terminated (ST arrives as ESC \); dispatch now
			p.raw = append(p.raw, b)
			p.emitString()
			p.escFromString = true
		}
		p.clear()
		p.raw = append(p.raw[:0], b)
		p.st = sEscape
		return
	}
	if p.st != sGround {
		p.raw = append(p.raw, b)
	}
	switch p.st {
	case sGround:
		if b < 0x20 {
			p.flushUTF()
			p.out(Seq{Kind: 'C', R: rune(b), Raw: string([]byte{b})})
			return
		}
		if b == 0x7F {
			p.flushUTF()
			return
		}
		if b < 0x80 {
			p.flushUTF()
			p.out(Seq{Kind: 'P', R: rune(b), Raw: string([]byte{b})})
			return
		}
		p.utf = append(p.utf, b)
		if utf8.FullRune(p.utf) {
			p.flushUTF()
		}
	case sEscape:
		switch {
		case b < 0x20:
			p.out(Seq{Kind: 'C', R: rune(b)})
			p.raw = p.raw[:len(p.raw)-1]
		case b <= 0x2F:
			p.inter = append(p.inter, b)
			p.st = sEscInter
		case b == 'P':
			p.clear()
			p.strKind = 'D'
			p.st = sDCSEntry
		case b == '[':
			p.clear()
			p.st = sCSIEntry
		case b == ']':
			p.strKind = ']'
			p.data = nil
			p.st = sOSC
		case b == 'X' || b == '^':
			p.strKind = 'X'
			p.st = sSOSPMAPC
		case b == '_':
			p.strKind = '_'
			p.data = nil
			p.st = sSOSPMAPC
		case b == 0x7F:
		default:
			if b == '\\' && p.escFromString {
				// ST of the string we just dispatched
				p.st = sGround
				return
			}
			p.out(Seq{Kind: 'E', Final: b, Raw: string(p.raw)})
			p.st = sGround
		}
	case sEscInter:
		switch {
		case b < 0x20:
			p.out(Seq{Kind: 'C', R: rune(b)})
		case b <= 0x2F:
			p.inter = append(p.inter, b)
		case b == 0x7F:
		default:
			p.out(Seq{Kind: 'E', Inter: string(p.inter), Final: b, Raw: string(p.raw)})
			p.st = sGround
		}
	case sCSIEntry, sCSIParam:
		switch {
		case b < 0x20:
			p.out(Seq{Kind: 'C', R: rune(b)})
		case b <= 0x2F:
			p.inter = append(p.inter, b)
			p.st = sCSIInter
		case b <= 0x3B:
			p.paramByte(b)
			p.st = sCSIParam
		case b <= 0x3F:
			if p.st == sCSIEntry {
				p.marker = b
				p.st = sCSIParam
			} else {
				p.st = sCSIIgnore
			}
		case b == 0x7F:
		default:
			p.out(Seq{Kind: '[', Marker: p.marker, Inter: string(p.inter), Final: b, Params: p.finishParams(), Raw: string(p.raw)})
			p.st = sGround
		}
	case sCSIInter:
		switch {
		case b < 0x20:
			p.out(Seq{Kind: 'C', R: rune(b)})
		case b <= 0x2F:
			p.inter = append(p.inter, b)
		case b <= 0x3F:
			p.st = sCSIIgnore
		case b == 0x7F:
		default:
			p.out(Seq{Kind: '[', Marker: p.marker, Inter: string(p.inter), Final: b, Params: p.finishParams(), Raw: string(p.raw)})
			p.st = sGround
		}
	case sCSIIgnore:
		switch {
		case b < 0x20:
			p.out(Seq{Kind: 'C', R: rune(b)})
		case b >= 0x40 && b <= 0x7E:
			p.st = sGround
		}
	case sDCSEntry, sDCSParam:
		switch {
		case b < 0x20:
		case b <= 0x2F:
			p.inter = append(p.inter, b)
			p.st = sDCSInter
		case b == ':':
			p.st = sDCSIgnore
		case b <= 0x3B:
			p.paramByte(b)
			p.st = sDCSParam
		case b <= 0x3F:
			if p.st == sDCSEntry {
				p.marker = b
				p.st = sDCSParam
			} else {
				p.st = sDCSIgnore
			}
		case b == 0x7F:
		default:
			p.final = b
			p.params = p.finishParams()
			p.data = nil
			p.st = sDCSPass
		}
	case sDCSInter:
		switch {
		case b < 0x20:
		case b <= 0x2F:
			p.inter = append(p.inter, b)
		case b <= 0x3F:
			p.st = sDCSIgnore
		case b == 0x7F:
		default:
			p.final = b
			p.params = p.finishParams()
			p.data = nil
			p.st = sDCSPass
		}
	case sDCSPass:
		if b != 0x7F {
			p.data = append(p.data, b)
		}
	case sDCSIgnore:
		p.strKind = 'X'
	case sOSC:
		if b == 0x07 {
			p.emitString()
			p.st = sGround
			return
		}
		if b >= 0x20 {
			p.data = append(p.data, b)
		}
	case sSOSPMAPC:
		if p.strKind == '_' && b >= 0x20 {
			p.data = append(p.data, b)
		}
	}
}
