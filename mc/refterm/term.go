package refterm

import (
	"fmt"
	"sort"
	"strconv"
	"strings"

	"github.com/mattn/go-runewidth"
	"github.com/rivo/uniseg"
)

// Color: Kind 0 default, 1 indexed (V = 0..255), 2 direct (V = 0xRRGGBB).
type Color struct {
	Kind uint8
	V    uint32
}

func (c Color) String() string {
	switch c.Kind {
	case 1:
		return fmt.Sprintf("i%d", c.V)
	case 2:
		return fmt.Sprintf("#%06x", c.V)
	}
	return "def"
}

// Attribute bits (SGR 1,2,3,5,7,8,9)
const (
	ABold = 1 << iota
	ADim
	AItalic
	ABlink
	AReverse
	AInvisible
	AStrike
)

type Style struct {
	Fg, Bg, Ul Color
	UlStyle    uint8 // 0 off, 1 single, 2 double, 3 curly, 4 dotted, 5 dashed
	Attr       uint8
	Link       string // hyperlink URI ("" = none)
	LinkParams string
}

func (s Style) String() string {
	return fmt.Sprintf("fg=%s bg=%s ul=%s/%d attr=%07b link=%q/%q", s.Fg, s.Bg, s.Ul, s.UlStyle, s.Attr, s.Link, s.LinkParams)
}

// Cell widths: 1 normal, n>1 leading cell of a wide glyph, 0 continuation.
type Cell struct {
	Text   string // "" = blank
	Width  int
	Style  Style
	Poison bool // content undefined (other half of an overwritten wide glyph, scrambled, ...)
}

type savedCursor struct {
	row, col int
	pen      Style
	pending  bool
	origin   bool
	wrap     bool
	valid    bool
}

type screenBuf struct {
	grid  [][]Cell
	saved savedCursor
}

// WidthMode of the reference terminal.
type WidthMode int

const (
	WidthLegacy  WidthMode = iota // every code point measured on its own (wcwidth)
	WidthCluster                  // grapheme clusters, UAX #29 + UAX #11 (mode 2027 set, or always for some terminals)
	WidthKitty                    // clusters, but a ZWJ does not join
)

// LogEntry classifies one received control function.
type LogEntry struct {
	Raw   string
	Class string // "baseline", "query", "gated:<capability>", "unknown"
}

// GraphicsOp is one graphics protocol action seen.
type GraphicsOp struct {
	Proto  string // "kitty" / "sixel"
	Action string // transmit, place, transmit+place, delete, query
	ID     int
	Row    int
	Col    int
	Cols   int
	Rows   int
	Raw    string
}

type Terminal struct {
	Cols, Rows int
	Prof       Profile

	primary, alt screenBuf
	onAlt        bool

	row, col int
	pending  bool // deferred wrap
	pen      Style
	top, bot int // scroll margins (0-based, inclusive)
	tabs     map[int]bool

	Modes        map[int]bool // DEC private modes
	AnsiModes    map[int]bool
	KeypadApp    bool
	KittyKB      []int // kitty keyboard flag stack (entries pushed by CSI > u)
	CursorVis    bool
	CursorShape  int
	PointerShape string
	AppID        string
	Title        string

	// clustering state for WidthCluster/WidthKitty: where the last printed cluster is
	lastRow, lastCol int
	lastValid        bool

	Log           []LogEntry
	Graphics      []GraphicsOp
	UB            []string // unspecified-behaviour events
	keepLog       bool
	Bells         int
	Clipboard     []string
	Notifications []string

	out     []byte // replies
	p       parser
	inOSC66 bool

	ScrollCount      int
	KittyKBUnderflow int

	// per-write tracking
	SyncSetInWrite   int
	SyncResetInWrite int
}

func New(cols, rows int, prof Profile) *Terminal {
	t := &Terminal{Cols: cols, Rows: rows, Prof: prof, keepLog: KeepLog}
	t.p.out = t.dispatch
	t.HardReset()
	return t
}

func newGrid(cols, rows int) [][]Cell {
	g := make([][]Cell, rows)
	for r := range g {
		g[r] = make([]Cell, cols)
		for c := range g[r] {
			g[r][c].Width = 1
		}
	}
	return g
}

// HardReset puts the terminal in its power-on state (xterm defaults + profile).
func (t *Terminal) HardReset() {
	t.primary = screenBuf{grid: newGrid(t.Cols, t.Rows)}
	t.alt = screenBuf{grid: newGrid(t.Cols, t.Rows)}
	t.onAlt = false
	t.row, t.col, t.pending = t.Prof.InitRow, t.Prof.InitCol, false
	if t.row >= t.Rows {
		t.row = t.Rows - 1
	}
	if t.col >= t.Cols {
		t.col = t.Cols - 1
	}
	t.pen = Style{}
	t.top, t.bot = 0, t.Rows-1
	t.tabs = map[int]bool{}
	for c := 8; c < t.Cols; c += 8 {
		t.tabs[c] = true
	}
	t.Modes = map[int]bool{7: true, 25: true}
	t.AnsiModes = map[int]bool{}
	t.KeypadApp = false
	t.KittyKB = nil
	t.CursorVis = true
	t.CursorShape = t.Prof.UserCursorStyle
	t.PointerShape = "text"
	t.AppID = t.Prof.AppID
	t.Title = ""
	t.lastValid = false
}

func (t *Terminal) screen() *screenBuf {
	if t.onAlt {
		return &t.alt
	}
	return &t.primary
}

// Grid returns the active grid (not a copy).
func (t *Terminal) Grid() [][]Cell                       { return t.screen().grid }
func (t *Terminal) OnAlt() bool                          { return t.onAlt }
func (t *Terminal) Cursor() (row, col int, pending bool) { return t.row, t.col, t.pending }
func (t *Terminal) Pen() Style                           { return t.pen }
func (t *Terminal) CursorVisible() bool                  { return t.CursorVis }
func (t *Terminal) CursorStyle() int                     { return t.CursorShape }
func (t *Terminal) Margins() (top, bot int)              { return t.top, t.bot }

// Write feeds bytes; replies are queued for TakeOutput.
func (t *Terminal) Write(b []byte) {
	t.SyncSetInWrite, t.SyncResetInWrite = 0, 0
	for _, c := range b {
		t.p.feed(c)
	}
}

// TakeOutput returns and clears the queued replies.
func (t *Terminal) TakeOutput() []byte {
	o := t.out
	t.out = nil
	return o
}

func (t *Terminal) reply(s string) { t.out = append(t.out, s...) }

func (t *Terminal) ub(format string, a ...any) {
	if len(t.UB) < 16 {
		t.UB = append(t.UB, fmt.Sprintf(format, a...))
	}
}

// Scramble overwrites grid, pen and cursor position with undefined content:
// "whatever the terminal displayed before".
func (t *Terminal) Scramble() {
	g := t.Grid()
	for r := range g {
		for c := range g[r] {
			g[r][c] = Cell{Text: "?", Width: 1, Poison: true}
		}
	}
	t.lastValid = false
}

// KeepLog: new terminals record every sequence they receive in Log. Only the harness that
// reads the log (C07) turns it on: a long-lived helper session would otherwise grow without
// bound (the thorough tier of C17 ran out of memory on it).
var KeepLog bool

func (t *Terminal) logSeq(raw, class string) {
	if !t.keepLog {
		return
	}
	t.Log = append(t.Log, LogEntry{Raw: raw, Class: class})
}

// ---- dispatch -------------------------------------------------------------------

func (t *Terminal) dispatch(s Seq) {
	switch s.Kind {
	case 'P':
		t.print(s.R)
	case 'C':
		t.c0(s.R)
	case 'E':
		t.esc(s)
	case '[':
		t.csi(s)
	case ']':
		t.osc(s)
	case 'D':
		t.dcs(s)
	case '_':
		t.apc(s)
	}
}

func param(s Seq, i, def int) int {
	if i < len(s.Params) && len(s.Params[i]) > 0 && s.Params[i][0] > 0 {
		return s.Params[i][0]
	}
	return def
}

func rawParam(s Seq, i int) int {
	if i < len(s.Params) && len(s.Params[i]) > 0 && s.Params[i][0] >= 0 {
		return s.Params[i][0]
	}
	return 0
}

func clamp(v, lo, hi int) int {
	if v < lo {
		return lo
	}
	if v > hi {
		return hi
	}
	return v
}

// ---- printing ---------------------------------------------------------------------

func runeW(r rune) int {
	if r >= 0xFE00 && r <= 0xFE0F || r >= 0xE0100 && r <= 0xE01EF {
		return 0
	}
	return runewidth.RuneWidth(r)
}

func (t *Terminal) widthMode() WidthMode {
	if t.Prof.Version == VersionTmux34 {
		return WidthCluster // clusters without advertising mode 2027
	}
	if t.Modes[2027] && t.Prof.Has(CapUnicodeCore) {
		return WidthCluster
	}
	if t.Prof.Version == VersionKitty {
		return WidthKitty
	}
	return WidthLegacy
}

// poisonAt marks the partner cells of a wide glyph that is about to be partly
// overwritten at (r,c) as undefined.
func (t *Terminal) breakWide(r, c int) {
	g := t.Grid()
	if c < 0 || c >= t.Cols {
		return
	}
	cell := g[r][c]
	if cell.Width == 0 {
		// continuation: find the leader
		l := c - 1
		for l >= 0 && g[r][l].Width == 0 {
			l--
		}
		if l >= 0 {
			for k := l; k < l+g[r][l].Width && k < t.Cols; k++ {
				if k != c {
					g[r][k] = Cell{Text: "?", Width: 1, Poison: true, Style: g[r][k].Style}
				}
			}
		}
		return
	}
	if cell.Width > 1 {
		for k := c + 1; k < c+cell.Width && k < t.Cols; k++ {
			g[r][k] = Cell{Text: "?", Width: 1, Poison: true, Style: g[r][k].Style}
		}
	}
}

func (t *Terminal) print(r rune) {
	if t.inOSC66 {
		return
	}
	mode := t.widthMode()
	g := t.Grid()
	// can this code point join the previously printed cell?
	if t.lastValid && t.lastRow < t.Rows && t.lastCol < t.Cols {
		prev := &g[t.lastRow][t.lastCol]
		join := false
		switch mode {
		case WidthLegacy:
			join = runeW(r) == 0
		case WidthCluster, WidthKitty:
			txt := prev.Text + string(r)
			if uniseg.GraphemeClusterCount(txt) == 1 {
				join = true
				if mode == WidthKitty && strings.HasSuffix(prev.Text, "‍") {
					join = false
				}
			}
		}
		if join && prev.Text != "" && !prev.Poison {
			prev.Text += string(r)
			if mode != WidthLegacy {
				nw := uniseg.StringWidth(prev.Text)
				if mode == WidthKitty {
					nw = uniseg.StringWidth(strings.ReplaceAll(prev.Text, "‍", ""))
				}
				if nw > prev.Width && nw >= 1 {
					// cluster became wider (e.g. VS16): it now covers more columns
					t.widen(t.lastRow, t.lastCol, nw)
				}
			}
			return
		}
	}
	w := runeW(r)
	if mode != WidthLegacy {
		w = uniseg.StringWidth(string(r))
	}
	if w == 0 {
		// nothing to attach to: ignored
		return
	}
	t.place(string(r), w)
}

func (t *Terminal) widen(r, c, nw int) {
	g := t.Grid()
	old := g[r][c].Width
	if c+nw > t.Cols {
		t.ub("cluster widened past the right edge")
		return
	}
	for k := c + old; k < c+nw; k++ {
		t.breakWide(r, k)
		g[r][k] = Cell{Width: 0, Style: g[r][c].Style}
	}
	g[r][c].Width = nw
	if t.row == r && !t.pending {
		t.col += nw - old
		if t.col >= t.Cols {
			t.col = t.Cols - 1
			t.pending = true
		}
	}
}

// place puts a glyph of width w at the cursor with deferred wrap.
func (t *Terminal) place(text string, w int) {
	if t.pending && t.Modes[7] {
		t.wrapNow()
	}
	if w > t.Cols {
		t.ub("glyph wider than the screen")
		return
	}
	if t.col+w > t.Cols {
		if t.Modes[7] {
			// a wide glyph that does not fit in the last column: terminals differ
			t.ub("wide glyph printed in the last column")
			g := t.Grid()
			g[t.row][t.col] = Cell{Text: "?", Width: 1, Poison: true, Style: t.pen}
			t.wrapNow()
		} else {
			t.ub("wide glyph printed in the last column (no autowrap)")
			return
		}
	}
	g := t.Grid()
	if t.AnsiModes[4] {
		// insert mode: shift right
		line := g[t.row]
		for k := t.Cols - 1; k >= t.col+w; k-- {
			line[k] = line[k-w]
		}
	}
	for k := t.col; k < t.col+w; k++ {
		t.breakWide(t.row, k)
	}
	g[t.row][t.col] = Cell{Text: text, Width: w, Style: t.pen}
	for k := t.col + 1; k < t.col+w; k++ {
		g[t.row][k] = Cell{Width: 0, Style: t.pen}
	}
	t.lastRow, t.lastCol, t.lastValid = t.row, t.col, true
	t.col += w
	if t.col >= t.Cols {
		t.col = t.Cols - 1
		if t.Modes[7] {
			t.pending = true
		}
	}
}

func (t *Terminal) wrapNow() {
	t.pending = false
	t.col = 0
	t.index()
}

// index: move down, scrolling at the bottom margin.
func (t *Terminal) index() {
	if t.row == t.bot {
		t.scrollUp(1)
		return
	}
	if t.row < t.Rows-1 {
		t.row++
	}
}

func (t *Terminal) reverseIndex() {
	if t.row == t.top {
		t.scrollDown(1)
		return
	}
	if t.row > 0 {
		t.row--
	}
}

func (t *Terminal) blankLine() []Cell {
	l := make([]Cell, t.Cols)
	for i := range l {
		l[i] = Cell{Width: 1, Style: Style{Bg: t.pen.Bg}}
	}
	return l
}

func (t *Terminal) scrollUp(n int) {
	t.ScrollCount++
	g := t.Grid()
	for i := 0; i < n; i++ {
		copy(g[t.top:t.bot], g[t.top+1:t.bot+1])
		g[t.bot] = t.blankLine()
	}
	t.lastValid = false
}

func (t *Terminal) scrollDown(n int) {
	t.ScrollCount++
	g := t.Grid()
	for i := 0; i < n; i++ {
		copy(g[t.top+1:t.bot+1], g[t.top:t.bot])
		g[t.top] = t.blankLine()
	}
	t.lastValid = false
}

func (t *Terminal) eraseCell(r, c int) {
	g := t.Grid()
	t.breakWide(r, c)
	g[r][c] = Cell{Width: 1, Style: Style{Bg: t.pen.Bg}}
}

func (t *Terminal) eraseRange(r, c0, c1 int) { // inclusive
	for c := c0; c <= c1 && c < t.Cols; c++ {
		if c >= 0 {
			t.eraseCell(r, c)
		}
	}
}

// ---- C0 ---------------------------------------------------------------------------

func (t *Terminal) c0(r rune) {
	t.lastValid = false
	switch r {
	case 0x07:
		t.Bells++
	case 0x08:
		t.pending = false
		if t.col > 0 {
			t.col--
		}
	case 0x09:
		t.pending = false
		c := t.col + 1
		for c < t.Cols-1 && !t.tabs[c] {
			c++
		}
		t.col = clamp(c, 0, t.Cols-1)
	case 0x0A, 0x0B, 0x0C:
		t.pending = false
		t.index()
		if t.AnsiModes[20] {
			t.col = 0
		}
	case 0x0D:
		t.pending = false
		t.col = 0
	}
}

// ---- ESC --------------------------------------------------------------------------

func (t *Terminal) esc(s Seq) {
	t.lastValid = false
	key := s.Inter + string(s.Final)
	switch key {
	case "7":
		t.saveCursor()
		t.logSeq(s.Raw, "baseline")
	case "8":
		t.restoreCursor()
		t.logSeq(s.Raw, "baseline")
	case "D":
		t.pending = false
		t.index()
		t.logSeq(s.Raw, "baseline")
	case "E":
		t.pending = false
		t.index()
		t.col = 0
		t.logSeq(s.Raw, "baseline")
	case "M":
		t.pending = false
		t.reverseIndex()
		t.logSeq(s.Raw, "baseline")
	case "H":
		t.tabs[t.col] = true
		t.logSeq(s.Raw, "baseline")
	case "=":
		t.KeypadApp = true
		t.logSeq(s.Raw, "baseline")
	case ">":
		t.KeypadApp = false
		t.logSeq(s.Raw, "baseline")
	case "c":
		t.HardReset()
	case "\\":
		// stray ST
	default:
		t.logSeq(s.Raw, "unknown")
	}
}

func (t *Terminal) saveCursor() {
	t.screen().saved = savedCursor{row: t.row, col: t.col, pen: t.pen, pending: t.pending, origin: t.Modes[6], wrap: t.Modes[7], valid: true}
}

func (t *Terminal) restoreCursor() {
	s := t.screen().saved
	if !s.valid {
		t.row, t.col, t.pending = 0, 0, false
		t.pen = Style{}
		return
	}
	t.row, t.col, t.pen, t.pending = clamp(s.row, 0, t.Rows-1), clamp(s.col, 0, t.Cols-1), s.pen, s.pending
	t.Modes[6] = s.origin
	t.Modes[7] = s.wrap
}

// ---- CSI --------------------------------------------------------------------------

func (t *Terminal) csi(s Seq) {
	t.lastValid = false
	key := string(s.Final)
	if s.Marker != 0 {
		key = string(s.Marker) + key
	}
	if s.Inter != "" {
		key = key[:len(key)-1] + s.Inter + string(s.Final)
	}
	class := "baseline"
	switch key {
	case "A":
		t.pending = false
		lo := 0
		if t.row >= t.top {
			lo = t.top
		}
		t.row = clamp(t.row-param(s, 0, 1), lo, t.Rows-1)
	case "B", "e":
		t.pending = false
		hi := t.Rows - 1
		if t.row <= t.bot {
			hi = t.bot
		}
		t.row = clamp(t.row+param(s, 0, 1), 0, hi)
	case "C", "a":
		t.pending = false
		t.col = clamp(t.col+param(s, 0, 1), 0, t.Cols-1)
	case "D":
		t.pending = false
		t.col = clamp(t.col-param(s, 0, 1), 0, t.Cols-1)
	case "E":
		t.pending = false
		hi := t.Rows - 1
		if t.row <= t.bot {
			hi = t.bot
		}
		t.row = clamp(t.row+param(s, 0, 1), 0, hi)
		t.col = 0
	case "F":
		t.pending = false
		lo := 0
		if t.row >= t.top {
			lo = t.top
		}
		t.row = clamp(t.row-param(s, 0, 1), lo, t.Rows-1)
		t.col = 0
	case "G", "`":
		t.pending = false
		t.col = clamp(param(s, 0, 1)-1, 0, t.Cols-1)
	case "d":
		t.pending = false
		t.row = t.absRow(param(s, 0, 1))
	case "H", "f":
		t.pending = false
		t.row = t.absRow(param(s, 0, 1))
		t.col = clamp(param(s, 1, 1)-1, 0, t.Cols-1)
	case "J":
		t.pending = false
		switch rawParam(s, 0) {
		case 0:
			t.eraseRange(t.row, t.col, t.Cols-1)
			for r := t.row + 1; r < t.Rows; r++ {
				t.eraseRange(r, 0, t.Cols-1)
			}
		case 1:
			for r := 0; r < t.row; r++ {
				t.eraseRange(r, 0, t.Cols-1)
			}
			t.eraseRange(t.row, 0, t.col)
		case 2, 3:
			for r := 0; r < t.Rows; r++ {
				t.eraseRange(r, 0, t.Cols-1)
			}
		}
	case "K":
		t.pending = false
		switch rawParam(s, 0) {
		case 0:
			t.eraseRange(t.row, t.col, t.Cols-1)
		case 1:
			t.eraseRange(t.row, 0, t.col)
		case 2:
			t.eraseRange(t.row, 0, t.Cols-1)
		}
	case "X":
		t.pending = false
		n := param(s, 0, 1)
		t.eraseRange(t.row, t.col, min(t.col+n-1, t.Cols-1))
	case "@":
		t.pending = false
		n := min(param(s, 0, 1), t.Cols-t.col)
		line := t.Grid()[t.row]
		t.breakWide(t.row, t.col)
		for k := t.Cols - 1; k >= t.col+n; k-- {
			line[k] = line[k-n]
		}
		for k := t.col; k < t.col+n; k++ {
			line[k] = Cell{Width: 1, Style: Style{Bg: t.pen.Bg}}
		}
		t.fixWideTail(t.row)
	case "P":
		t.pending = false
		n := min(param(s, 0, 1), t.Cols-t.col)
		line := t.Grid()[t.row]
		t.breakWide(t.row, t.col)
		copy(line[t.col:], line[t.col+n:])
		for k := t.Cols - n; k < t.Cols; k++ {
			line[k] = Cell{Width: 1, Style: Style{Bg: t.pen.Bg}}
		}
		t.fixWideTail(t.row)
	case "L":
		if t.row >= t.top && t.row <= t.bot {
			t.pending = false
			n := min(param(s, 0, 1), t.bot-t.row+1)
			g := t.Grid()
			for i := 0; i < n; i++ {
				copy(g[t.row+1:t.bot+1], g[t.row:t.bot])
				g[t.row] = t.blankLine()
			}
			t.col = 0
		}
	case "M":
		if t.row >= t.top && t.row <= t.bot {
			t.pending = false
			n := min(param(s, 0, 1), t.bot-t.row+1)
			g := t.Grid()
			for i := 0; i < n; i++ {
				copy(g[t.row:t.bot], g[t.row+1:t.bot+1])
				g[t.bot] = t.blankLine()
			}
			t.col = 0
		}
	case "S":
		n := min(param(s, 0, 1), t.bot-t.top+1)
		t.scrollUp(n)
	case "T":
		n := min(param(s, 0, 1), t.bot-t.top+1)
		t.scrollDown(n)
	case "r":
		top := param(s, 0, 1)
		bot := param(s, 1, t.Rows)
		if bot > t.Rows {
			bot = t.Rows
		}
		if top < bot {
			t.top, t.bot = top-1, bot-1
			t.pending = false
			t.row, t.col = t.absRow(1), 0
		}
	case "s":
		t.saveCursor()
	case "u":
		t.restoreCursor()
	case "m":
		t.sgr(s)
		return
	case "h", "l":
		for i := range s.Params {
			t.AnsiModes[rawParam(s, i)] = key == "h"
		}
	case "?h", "?l":
		for i := range s.Params {
			t.decMode(rawParam(s, i), key == "?h", s.Raw)
		}
		return
	case "g":
		switch rawParam(s, 0) {
		case 0:
			delete(t.tabs, t.col)
		case 3:
			t.tabs = map[int]bool{}
		}
	case " q":
		t.CursorShape = rawParam(s, 0)
	case "c":
		class = "query"
		da := "\x1b[?62"
		if t.Prof.Has(CapSixelDA1) {
			da += ";4"
		}
		t.reply(da + ";22c")
	case "=c":
		class = "query"
		if t.Prof.Has(CapVTE) {
			t.reply("\x1bP!|7E565445\x1b\\")
		}
	case ">c":
		class = "query"
		t.reply("\x1b[>1;10;0c")
	case ">q":
		class = "query"
		if v := t.Prof.VersionString(); v != "" {
			t.reply("\x1bP>|" + v + "\x1b\\")
		}
	case "n":
		class = "query"
		switch rawParam(s, 0) {
		case 5:
			t.reply("\x1b[0n")
		case 6:
			if !t.Prof.NoCPR {
				t.reply(fmt.Sprintf("\x1b[%d;%dR", t.row+1, t.col+1))
			}
		}
	case "?n":
		class = "query"
		if rawParam(s, 0) == 996 {
			if t.Prof.Has(CapColorScheme) {
				t.reply("\x1b[?997;1n")
			} else {
				class = "gated:colorScheme"
			}
		}
	case "?$p":
		class = "query"
		m := rawParam(s, 0)
		st := 0
		known := map[int]Cap{2026: CapSync, 2027: CapUnicodeCore, 2031: CapColorScheme, 2048: CapInBandResize}
		if c, ok := known[m]; ok {
			if t.Prof.Has(c) {
				st = 2
				if t.Modes[m] {
					st = 1
				}
			} else {
				st = t.Prof.AbsentModeReply
			}
		} else if _, ok := baselineModes[m]; ok {
			st = 2
			if t.Modes[m] {
				st = 1
			}
		}
		if !t.Prof.NoDECRQM {
			t.reply(fmt.Sprintf("\x1b[?%d;%d$y", m, st))
		}
	case "?u":
		class = "query"
		if t.Prof.Has(CapKittyKB) {
			f := 0
			if len(t.KittyKB) > 0 {
				f = t.KittyKB[len(t.KittyKB)-1]
			}
			t.reply(fmt.Sprintf("\x1b[?%du", f))
		}
	case ">u":
		class = "gated:kittyKeyboard"
		if t.Prof.Has(CapKittyKB) {
			t.KittyKB = append(t.KittyKB, rawParam(s, 0))
		}
	case "<u":
		class = "gated:kittyKeyboard"
		if t.Prof.Has(CapKittyKB) {
			n := param(s, 0, 1)
			if n > len(t.KittyKB) {
				n = len(t.KittyKB)
				t.KittyKBUnderflow++
			}
			t.KittyKB = t.KittyKB[:len(t.KittyKB)-n]
		}
	case "?S":
		class = "query"
		if rawParam(s, 0) == 2 && t.Prof.Has(CapSixelXTSM) {
			t.reply(fmt.Sprintf("\x1b[?2;0;%d;%dS", t.Cols*t.Prof.CellW, t.Rows*t.Prof.CellH))
		}
	case "t":
		class = "query"
		switch rawParam(s, 0) {
		case 14:
			if t.Prof.Has(CapSizeReports) {
				t.reply(fmt.Sprintf("\x1b[4;%d;%dt", t.Rows*t.Prof.CellH, t.Cols*t.Prof.CellW))
			}
		case 18:
			if t.Prof.Has(CapSizeReports) {
				t.reply(fmt.Sprintf("\x1b[8;%d;%dt", t.Rows, t.Cols))
			}
		default:
			class = "unknown"
		}
	case "b":
		// REP: not used by the code under test as a producer; implemented for the VT reference
		t.ub("REP")
	default:
		class = "unknown"
	}
	t.logSeq(s.Raw, class)
}

func (t *Terminal) absRow(p int) int {
	if t.Modes[6] {
		return clamp(t.top+p-1, t.top, t.bot)
	}
	return clamp(p-1, 0, t.Rows-1)
}

// after shifting cells, a wide glyph may have been cut at the right edge
func (t *Terminal) fixWideTail(r int) {
	line := t.Grid()[r]
	for c := 0; c < t.Cols; c++ {
		if line[c].Width > 1 && c+line[c].Width > t.Cols {
			for k := c; k < t.Cols; k++ {
				line[k] = Cell{Text: "?", Width: 1, Poison: true, Style: line[k].Style}
			}
		}
		if line[c].Width == 0 && (c == 0 || (line[c-1].Width <= 1 && line[c-1].Width != 0)) {
			line[c] = Cell{Text: "?", Width: 1, Poison: true, Style: line[c].Style}
		}
	}
}

// modes every xterm-compatible terminal implements
var baselineModes = map[int]string{
	1: "DECCKM", 6: "DECOM", 7: "DECAWM", 25: "DECTCEM", 1000: "mouse", 1002: "mouse", 1003: "mouse",
	1004: "focus", 1006: "mouse-sgr", 1007: "altscroll", 1049: "altscreen", 2004: "paste", 12: "blink", 3: "DECCOLM", 5: "DECSCNM",
}

var gatedModes = map[int]Cap{
	2026: CapSync, 2027: CapUnicodeCore, 2031: CapColorScheme, 2048: CapInBandResize, 8452: CapSixelAny,
}

func (t *Terminal) decMode(m int, set bool, raw string) {
	if c, ok := gatedModes[m]; ok {
		name := capNames[c]
		t.logSeq(raw, "gated:"+name)
		if !t.Prof.Has(c) {
			return
		}
	} else if _, ok := baselineModes[m]; ok {
		t.logSeq(raw, "baseline")
	} else {
		t.logSeq(raw, "unknown")
		return
	}
	switch m {
	case 1049:
		if set && !t.onAlt {
			t.saveCursor()
			t.onAlt = true
			t.alt.grid = newGrid(t.Cols, t.Rows)
			for r := range t.alt.grid {
				t.alt.grid[r] = t.blankLine() // ClearScreen: current background
			}
		} else if !set {
			// xterm: FromAlternate; CursorRestore - the cursor is restored
			// even when the alternate screen was not active
			t.onAlt = false
			t.restoreCursor()
		} else {
			// already on the alternate screen: xterm saves the cursor and clears again
			t.saveCursor()
			t.alt.grid = newGrid(t.Cols, t.Rows)
		}
		t.Modes[m] = set
		return
	case 25:
		t.CursorVis = set
	case 2026:
		if set {
			t.SyncSetInWrite++
		} else {
			t.SyncResetInWrite++
		}
	case 6:
		t.Modes[m] = set
		t.pending = false
		t.row, t.col = t.absRow(1), 0
		return
	case 2048:
		t.Modes[m] = set
		if set {
			t.reply(t.InBandSizeReport())
		}
		return
	}
	t.Modes[m] = set
}

// InBandSizeReport is what a mode-2048 terminal sends on enable and on resize.
func (t *Terminal) InBandSizeReport() string {
	return fmt.Sprintf("\x1b[48;%d;%d;%d;%dt", t.Rows, t.Cols, t.Rows*t.Prof.CellH, t.Cols*t.Prof.CellW)
}

// Resize changes the terminal size (content is kept where it fits).
func (t *Terminal) Resize(cols, rows int) {
	for _, sb := range []*screenBuf{&t.primary, &t.alt} {
		ng := newGrid(cols, rows)
		for r := 0; r < rows && r < len(sb.grid); r++ {
			copy(ng[r], sb.grid[r])
		}
		sb.grid = ng
	}
	t.Cols, t.Rows = cols, rows
	t.row = clamp(t.row, 0, rows-1)
	t.col = clamp(t.col, 0, cols-1)
	t.top, t.bot = 0, rows-1
	t.pending = false
	t.lastValid = false
	for r := 0; r < rows; r++ {
		t.fixWideTailOn(&t.primary, r)
		t.fixWideTailOn(&t.alt, r)
	}
	if t.Modes[2048] && t.Prof.Has(CapInBandResize) {
		t.reply(t.InBandSizeReport())
	}
}

func (t *Terminal) fixWideTailOn(sb *screenBuf, r int) {
	line := sb.grid[r]
	for c := 0; c < len(line); c++ {
		if line[c].Width > 1 && c+line[c].Width > len(line) {
			for k := c; k < len(line); k++ {
				line[k] = Cell{Text: "?", Width: 1, Poison: true}
			}
		}
	}
}

// ---- SGR --------------------------------------------------------------------------

func (t *Terminal) sgr(s Seq) {
	ps := s.Params
	if len(ps) == 0 {
		ps = [][]int{{0}}
	}
	gated := ""
	for i := 0; i < len(ps); i++ {
		p := ps[i]
		v := p[0]
		if v < 0 {
			v = 0
		}
		switch {
		case v == 0:
			link, lp := t.pen.Link, t.pen.LinkParams
			t.pen = Style{Link: link, LinkParams: lp}
		case v == 1:
			t.pen.Attr |= ABold
		case v == 2:
			t.pen.Attr |= ADim
		case v == 3:
			t.pen.Attr |= AItalic
		case v == 4:
			if len(p) > 1 {
				gated = "styledUnderlines"
				if t.Prof.Has(CapStyledUL) {
					u := p[1]
					if u < 0 {
						u = 0
					}
					if u <= 5 {
						t.pen.UlStyle = uint8(u)
					}
				} else {
					// a terminal without styled underlines sees an unknown sub-parameter form
					t.ub("4:%d sent to a terminal without styled underlines", p[1])
				}
			} else {
				t.pen.UlStyle = 1
			}
		case v == 5 || v == 6:
			t.pen.Attr |= ABlink
		case v == 7:
			t.pen.Attr |= AReverse
		case v == 8:
			t.pen.Attr |= AInvisible
		case v == 9:
			t.pen.Attr |= AStrike
		case v == 21:
			t.pen.UlStyle = 2
		case v == 22:
			t.pen.Attr &^= ABold | ADim
		case v == 23:
			t.pen.Attr &^= AItalic
		case v == 24:
			t.pen.UlStyle = 0
		case v == 25:
			t.pen.Attr &^= ABlink
		case v == 27:
			t.pen.Attr &^= AReverse
		case v == 28:
			t.pen.Attr &^= AInvisible
		case v == 29:
			t.pen.Attr &^= AStrike
		case v >= 30 && v <= 37:
			t.pen.Fg = Color{1, uint32(v - 30)}
		case v == 39:
			t.pen.Fg = Color{}
		case v >= 40 && v <= 47:
			t.pen.Bg = Color{1, uint32(v - 40)}
		case v == 49:
			t.pen.Bg = Color{}
		case v >= 90 && v <= 97:
			t.pen.Fg = Color{1, uint32(v - 90 + 8)}
		case v >= 100 && v <= 107:
			t.pen.Bg = Color{1, uint32(v - 100 + 8)}
		case v == 59:
			gated = "styledUnderlines"
			if t.Prof.Has(CapStyledUL) {
				t.pen.Ul = Color{}
			}
		case v == 38 || v == 48 || v == 58:
			c, used, direct, ok := extColor(ps, i)
			i += used
			if v == 58 {
				gated = "styledUnderlines"
			}
			if direct {
				if gated == "" {
					gated = "rgb"
				} else {
					gated += "+rgb"
				}
			}
			if !ok {
				continue
			}
			switch v {
			case 38:
				t.pen.Fg = c
			case 48:
				t.pen.Bg = c
			case 58:
				if t.Prof.Has(CapStyledUL) {
					t.pen.Ul = c
				}
			}
		}
	}
	if gated != "" {
		t.logSeq(s.Raw, "gated:"+gated)
	} else {
		t.logSeq(s.Raw, "baseline")
	}
}

// extColor decodes 38/48/58 in both the colon and the semicolon form.
func extColor(ps [][]int, i int) (c Color, used int, direct bool, ok bool) {
	p := ps[i]
	nz := func(v int) int {
		if v < 0 {
			return 0
		}
		return v
	}
	if len(p) > 1 {
		switch p[1] {
		case 5:
			if len(p) >= 3 {
				return Color{1, uint32(nz(p[2]) & 0xFF)}, 0, false, true
			}
		case 2:
			direct = true
			if len(p) == 5 {
				return Color{2, uint32(nz(p[2])&0xFF)<<16 | uint32(nz(p[3])&0xFF)<<8 | uint32(nz(p[4])&0xFF)}, 0, true, true
			}
			if len(p) >= 6 {
				return Color{2, uint32(nz(p[3])&0xFF)<<16 | uint32(nz(p[4])&0xFF)<<8 | uint32(nz(p[5])&0xFF)}, 0, true, true
			}
		}
		return Color{}, 0, direct, false
	}
	if i+1 < len(ps) {
		switch ps[i+1][0] {
		case 5:
			if i+2 < len(ps) {
				return Color{1, uint32(nz(ps[i+2][0]) & 0xFF)}, 2, false, true
			}
			return Color{}, len(ps) - i - 1, false, false
		case 2:
			if i+4 < len(ps) {
				return Color{2, uint32(nz(ps[i+2][0])&0xFF)<<16 | uint32(nz(ps[i+3][0])&0xFF)<<8 | uint32(nz(ps[i+4][0])&0xFF)}, 4, true, true
			}
			return Color{}, len(ps) - i - 1, true, false
		}
	}
	return Color{}, 0, false, false
}

// ---- OSC / DCS / APC ----------------------------------------------------------------

func (t *Terminal) osc(s Seq) {
	t.lastValid = false
	sel, rest, _ := strings.Cut(s.Data, ";")
	switch sel {
	case "0", "2":
		t.Title = rest
		t.logSeq(s.Raw, "baseline")
	case "8":
		params, uri, ok := strings.Cut(rest, ";")
		if !ok {
			t.logSeq(s.Raw, "unknown")
			return
		}
		t.pen.Link, t.pen.LinkParams = uri, params
		if uri == "" {
			t.pen.LinkParams = ""
		}
		t.logSeq(s.Raw, "baseline")
	case "4":
		idx, q, _ := strings.Cut(rest, ";")
		if q == "?" {
			t.logSeq(s.Raw, "query")
			if t.Prof.Has(CapOSC4) {
				n, _ := strconv.Atoi(idx)
				r, g, b := PaletteRGB(n)
				t.reply(fmt.Sprintf("\x1b]4;%s;rgb:%02x%02x/%02x%02x/%02x%02x\x1b\\", idx, r, r, g, g, b, b))
			}
			return
		}
		t.logSeq(s.Raw, "baseline")
	case "10", "11":
		if rest == "?" {
			t.logSeq(s.Raw, "query")
			c := CapOSC10
			col := "rgb:ffff/ffff/ffff"
			if sel == "11" {
				c = CapOSC11
				col = "rgb:0000/0000/0000"
			}
			if t.Prof.Has(c) {
				t.reply("\x1b]" + sel + ";" + col + "\x1b\\")
			}
			return
		}
		t.logSeq(s.Raw, "baseline")
	case "22":
		t.PointerShape = rest
		t.logSeq(s.Raw, "baseline")
	case "52":
		_, data, _ := strings.Cut(rest, ";")
		if data == "?" {
			t.logSeq(s.Raw, "query")
			if t.Prof.ClipboardReply != "" {
				t.reply("\x1b]52;c;" + t.Prof.ClipboardReply + "\x1b\\")
			}
			return
		}
		t.Clipboard = append(t.Clipboard, data)
		t.logSeq(s.Raw, "baseline")
	case "9", "777":
		t.Notifications = append(t.Notifications, s.Data)
		t.logSeq(s.Raw, "baseline")
	case "66":
		// kitty text sizing protocol: w=N;text
		meta, text, _ := strings.Cut(rest, ";")
		if t.Prof.ProbeOSC66 && len(t.Log) > 0 && strings.HasSuffix(t.Log[len(t.Log)-1].Raw, "[H") && meta == "w=1" {
			// the start-up probe (CUP home, OSC 66 w=1 SP, DSR)
			t.logSeq(s.Raw, "query")
		} else {
			t.logSeq(s.Raw, "gated:explicitWidth")
		}
		if !t.Prof.Has(CapExplicitWidth) {
			return
		}
		w := 0
		for _, kv := range strings.Split(meta, ":") {
			k, v, _ := strings.Cut(kv, "=")
			if k == "w" {
				w, _ = strconv.Atoi(v)
			}
		}
		if w <= 0 {
			for _, r := range text {
				t.print(r)
			}
			return
		}
		t.place(text, w)
		t.lastValid = false
	case "176":
		if rest == "?" {
			t.logSeq(s.Raw, "query")
			if t.Prof.Has(CapOSC176) {
				t.reply("\x1b]176;" + t.AppID + "\x1b\\")
			}
			return
		}
		t.logSeq(s.Raw, "gated:osc176")
		if t.Prof.Has(CapOSC176) {
			t.AppID = rest
		}
	default:
		t.logSeq(s.Raw, "unknown")
	}
}

func (t *Terminal) dcs(s Seq) {
	t.lastValid = false
	key := s.Inter + string(s.Final)
	switch key {
	case "$q":
		t.logSeq(s.Raw, "query")
		if s.Data == " q" && t.Prof.Has(CapDECRQSS) {
			t.reply(fmt.Sprintf("\x1bP1$r%d q\x1b\\", t.CursorShape))
		}
	case "+q":
		t.logSeq(s.Raw, "query")
		switch strings.ToUpper(s.Data) {
		case "524742": // RGB
			if t.Prof.Has(CapRGB) {
				if t.Prof.TcapNameOnly {
					t.reply("\x1bP1+r524742\x1b\\")
				} else {
					t.reply("\x1bP1+r524742=382F382F38\x1b\\")
				}
			} else if !t.Prof.NoXTGETTCAP {
				t.reply("\x1bP0+r524742\x1b\\")
			}
		case "536D756C78": // Smulx
			if t.Prof.Has(CapSmulx) {
				if t.Prof.TcapNameOnly {
					t.reply("\x1bP1+r536D756C78\x1b\\")
				} else {
					t.reply("\x1bP1+r536D756C78=5C455B343A25703125646D\x1b\\")
				}
			} else if !t.Prof.NoXTGETTCAP {
				t.reply("\x1bP0+r536D756C78\x1b\\")
			}
		}
	case "q":
		t.Graphics = append(t.Graphics, GraphicsOp{Proto: "sixel", Action: "transmit+place", Row: t.row, Col: t.col, Raw: abbreviate(s.Raw)})
		t.logSeq(abbreviate(s.Raw), "gated:sixel")
	default:
		t.logSeq(s.Raw, "unknown")
	}
}

func abbreviate(s string) string {
	if len(s) > 64 {
		return s[:48] + fmt.Sprintf("…(%d bytes)", len(s))
	}
	return s
}

func (t *Terminal) apc(s Seq) {
	t.lastValid = false
	if !strings.HasPrefix(s.Data, "G") {
		t.logSeq(abbreviate(s.Raw), "unknown")
		return
	}
	ctrl, _, _ := strings.Cut(s.Data[1:], ";")
	kv := map[string]string{}
	for _, p := range strings.Split(ctrl, ",") {
		k, v, _ := strings.Cut(p, "=")
		kv[k] = v
	}
	id, _ := strconv.Atoi(kv["i"])
	a := kv["a"]
	op := GraphicsOp{Proto: "kitty", ID: id, Row: t.row, Col: t.col, Raw: abbreviate(s.Raw)}
	op.Cols, _ = strconv.Atoi(kv["c"])
	op.Rows, _ = strconv.Atoi(kv["r"])
	switch a {
	case "q":
		op.Action = "query"
		t.logSeq(abbreviate(s.Raw), "query")
		if t.Prof.Has(CapKittyGraphics) {
			t.reply(fmt.Sprintf("\x1b_Gi=%d;OK\x1b\\", id))
		}
		return
	case "T":
		op.Action = "transmit+place"
	case "t", "":
		op.Action = "transmit"
		if kv["m"] != "" && a == "" {
			op.Action = "chunk"
		}
	case "p":
		op.Action = "place"
	case "d":
		op.Action = "delete"
	default:
		op.Action = a
	}
	t.Graphics = append(t.Graphics, op)
	t.logSeq(abbreviate(s.Raw), "gated:kittyGraphics")
}

// ---- canonical dump -----------------------------------------------------------------

// Dump is a canonical description of everything an observer of the terminal can see.
func (t *Terminal) Dump() string {
	var b strings.Builder
	fmt.Fprintf(&b, "%dx%d alt=%v cur=%d,%d,%v vis=%v shape=%d pen={%s} m=%d-%d kp=%v kkb=%v ptr=%q app=%q\n",
		t.Cols, t.Rows, t.onAlt, t.row, t.col, t.pending, t.CursorVis, t.CursorShape, t.pen, t.top, t.bot, t.KeypadApp, t.KittyKB, t.PointerShape, t.AppID)
	ms := []int{}
	for m, v := range t.Modes {
		if v {
			ms = append(ms, m)
		}
	}
	sort.Ints(ms)
	fmt.Fprintf(&b, "modes=%v\n", ms)
	for _, sb := range []*screenBuf{&t.primary, &t.alt} {
		for _, row := range sb.grid {
			for _, c := range row {
				fmt.Fprintf(&b, "[%q %d %v {%s}]", c.Text, c.Width, c.Poison, c.Style)
			}
			b.WriteByte('\n')
		}
	}
	return b.String()
}

// ModeTable is the part of the state C04 compares before start-up and after shutdown.
func (t *Terminal) ModeTable() map[string]string {
	m := map[string]string{}
	for k := range baselineModes {
		m[fmt.Sprintf("?%d", k)] = fmt.Sprint(t.Modes[k])
	}
	for k := range gatedModes {
		m[fmt.Sprintf("?%d", k)] = fmt.Sprint(t.Modes[k])
	}
	m["?1049"] = fmt.Sprint(t.onAlt)
	m["cursorVisible"] = fmt.Sprint(t.CursorVis)
	m["cursorShape"] = fmt.Sprint(t.CursorShape)
	m["keypadApp"] = fmt.Sprint(t.KeypadApp)
	m["kittyKeyboardStack"] = fmt.Sprint(t.KittyKB)
	m["kittyKeyboardUnderflow"] = fmt.Sprint(t.KittyKBUnderflow)
	m["pointerShape"] = t.PointerShape
	m["appID"] = t.AppID
	m["pen"] = t.pen.String()
	m["insertMode"] = fmt.Sprint(t.AnsiModes[4])
	m["margins"] = fmt.Sprintf("%d-%d", t.top, t.bot)
	return m
}

func min(a, b int) int {
	if a < b {
		return a
	}
	return b
}
