// Package fakecon implements console.Console on top of the reference terminal:
// every byte the library writes is interpreted by refterm, whatever refterm
// answers is queued for Read. No file descriptor, no ioctl, no wall clock.
package fakecon

import (
	"io"
	"sync"

	"github.com/containerd/console"
	"verif.local/mc/refterm"
)

type Console struct {
	mu   sync.Mutex
	cond *sync.Cond
	T    *refterm.Terminal

	in      []byte
	eof     bool
	readErr error
	waiting bool
	closed  bool
	raw     bool

	// OnWrite is called (with the lock held) after each Write has been
	// interpreted; the harness checks the per-flush invariants there.
	OnWrite func(b []byte)
	// Record keeps every write.
	Record bool
	Writes [][]byte
	Bytes  int

	// Mute stops the terminal from answering (replies are dropped).
	Mute bool
	// Hold keeps replies queued until Release is called.
	Hold    bool
	held    []byte
	MaxRead int // max bytes per Read (0 = everything available)

	Resets, SetRaws, Closes int
}

func New(t *refterm.Terminal) *Console {
	c := &Console{T: t}
	c.cond = sync.NewCond(&c.mu)
	return c
}

func (c *Console) Write(b []byte) (int, error) {
	c.mu.Lock()
	defer c.mu.Unlock()
	c.Bytes += len(b)
	if c.Record {
		c.Writes = append(c.Writes, append([]byte(nil), b...))
	}
	c.T.Write(b)
	if out := c.T.TakeOutput(); len(out) > 0 && !c.Mute {
		if c.Hold {
			c.held = append(c.held, out...)
		} else {
			c.in = append(c.in, out...)
			c.cond.Broadcast()
		}
	}
	if c.OnWrite != nil {
		c.OnWrite(b)
	}
	return len(b), nil
}

// Release delivers replies held back by Hold.
func (c *Console) Release() {
	c.mu.Lock()
	c.in = append(c.in, c.held...)
	c.held = nil
	c.cond.Broadcast()
	c.mu.Unlock()
}

func (c *Console) Read(p []byte) (int, error) {
	c.mu.Lock()
	defer c.mu.Unlock()
	for len(c.in) == 0 && !c.eof && !c.closed && c.readErr == nil {
		c.waiting = true
		c.cond.Broadcast()
		c.cond.Wait()
	}
	c.waiting = false
	if len(c.in) == 0 {
		if c.readErr != nil {
			return 0, c.readErr
		}
		return 0, io.EOF
	}
	n := len(p)
	if n > len(c.in) {
		n = len(c.in)
	}
	if c.MaxRead > 0 && n > c.MaxRead {
		n = c.MaxRead
	}
	copy(p, c.in[:n])
	c.in = c.in[n:]
	return n, nil
}

// Inject queues bytes "typed by the user / sent by the terminal".
func (c *Console) Inject(b []byte) {
	c.mu.Lock()
	c.in = append(c.in, b...)
	c.cond.Broadcast()
	c.mu.Unlock()
}

// SetEOF makes Read return io.EOF once the queue is empty.
func (c *Console) SetEOF() {
	c.mu.Lock()
	c.eof = true
	c.cond.Broadcast()
	c.mu.Unlock()
}

// WaitIdle blocks until a reader is parked in Read with nothing left to read:
// the parser has consumed every byte delivered so far.
func (c *Console) WaitIdle() {
	c.mu.Lock()
	for !(c.waiting && len(c.in) == 0) && !c.closed {
		c.cond.Wait()
	}
	c.mu.Unlock()
}

// WaitClosed blocks until Close has been called on the console.
func (c *Console) WaitClosed() {
	c.mu.Lock()
	for c.Closes == 0 {
		c.cond.Wait()
	}
	c.mu.Unlock()
}

// Idle reports whether a reader is parked with nothing to read.
func (c *Console) Idle() bool {
	c.mu.Lock()
	defer c.mu.Unlock()
	return c.waiting && len(c.in) == 0
}

// With runs f with the console lock held (to inspect the terminal).
func (c *Console) With(f func(t *refterm.Terminal)) {
	c.mu.Lock()
	defer c.mu.Unlock()
	f(c.T)
}

// ResizeTerm changes the terminal size the way a window manager would.
func (c *Console) ResizeTerm(cols, rows int) {
	c.mu.Lock()
	c.T.Resize(cols, rows)
	if out := c.T.TakeOutput(); len(out) > 0 && !c.Mute {
		c.in = append(c.in, out...)
		c.cond.Broadcast()
	}
	c.mu.Unlock()
}

func (c *Console) Close() error {
	c.mu.Lock()
	c.Closes++
	c.closed = true
	c.cond.Broadcast()
	c.mu.Unlock()
	return nil
}

func (c *Console) Fd() uintptr  { return ^uintptr(0) }
func (c *Console) Name() string { return "fakecon" }

func (c *Console) Resize(console.WinSize) error     { return nil }
func (c *Console) ResizeFrom(console.Console) error { return nil }
func (c *Console) SetRaw() error {
	c.mu.Lock()
	c.SetRaws++
	c.raw = true
	c.closed = false
	c.mu.Unlock()
	return nil
}
func (c *Console) DisableEcho() error { return nil }
func (c *Console) Reset() error {
	c.mu.Lock()
	c.Resets++
	c.raw = false
	c.mu.Unlock()
	return nil
}
func (c *Console) Raw() bool {
	c.mu.Lock()
	defer c.mu.Unlock()
	return c.raw
}
func (c *Console) Size() (console.WinSize, error) {
	c.mu.Lock()
	defer c.mu.Unlock()
	return console.WinSize{Width: uint16(c.T.Cols), Height: uint16(c.T.Rows)}, nil
}
