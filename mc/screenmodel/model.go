// Package screenmodel is the application's own record of what it drew: the
// expected side of every "the terminal shows what the application set" oracle.
package screenmodel

import (
	"fmt"

	"git.sr.ht/~rockorager/vaxis"
	"verif.local/mc/refterm"
)

type Cursor struct {
	Visible  bool
	Row, Col int
	Shape    int
}

type Model struct {
	Cols, Rows int
	Cells      [][]vaxis.Cell
	Cursor     Cursor
}

func New(cols, rows int) *Model {
	m := &Model{Cols: cols, Rows: rows}
	m.Cells = make([][]vaxis.Cell, rows)
	for r := range m.Cells {
		m.Cells[r] = make([]vaxis.Cell, cols)
	}
	return m
}

func (m *Model) in(c, r int) bool { return c >= 0 && r >= 0 && c < m.Cols && r < m.Rows }

func (m *Model) SetCell(c, r int, cell vaxis.Cell) {
	if m.in(c, r) {
		m.Cells[r][c] = cell
	}
}

func (m *Model) SetStyle(c, r int, st vaxis.Style) {
	if m.in(c, r) {
		m.Cells[r][c].Style = st
	}
}

func (m *Model) Fill(cell vaxis.Cell) {
	for r := range m.Cells {
		for c := range m.Cells[r] {
			m.Cells[r][c] = cell
		}
	}
}

func (m *Model) Clear() {
	m.Fill(vaxis.Cell{Character: vaxis.Character{Grapheme: " ", Width: 1}})
}

func (m *Model) Dump() string {
	return fmt.Sprintf("%v|%+v", m.Cells, m.Cursor)
}

// Colour expectations ------------------------------------------------------------

// NearestSet returns every palette index in 16..255 at minimal weighted distance
// (0.30 dr)^2 + (0.59 dg)^2 + (0.11 db)^2 from the colour, in exact integer
// arithmetic (weights scaled by 100).
func NearestSet(r, g, b int) []int {
	best := int64(-1)
	var set []int
	for i := 16; i < 256; i++ {
		pr, pg, pb := refterm.PaletteRGB(i)
		dr, dg, db := int64(30*(pr-r)), int64(59*(pg-g)), int64(11*(pb-b))
		d := dr*dr + dg*dg + db*db
		switch {
		case best < 0 || d < best:
			best = d
			set = []int{i}
		case d == best:
			set = append(set, i)
		}
	}
	return set
}

// ColorOK: does the terminal's colour got faithfully represent the requested
// colour want, given whether the terminal advertised direct colour.
func ColorOK(want vaxis.Color, got refterm.Color, rgb bool) bool {
	ps := want.Params()
	switch len(ps) {
	case 0:
		return got.Kind == 0
	case 1:
		return got.Kind == 1 && got.V == uint32(ps[0])
	case 3:
		if rgb {
			return got.Kind == 2 && got.V == uint32(ps[0])<<16|uint32(ps[1])<<8|uint32(ps[2])
		}
		if got.Kind != 1 {
			return false
		}
		for _, i := range NearestSet(int(ps[0]), int(ps[1]), int(ps[2])) {
			if uint32(i) == got.V {
				return true
			}
		}
	}
	return false
}

// StyleDiff compares the style the application set with the style the terminal
// shows, under the advertised capabilities. "" = faithful.
func StyleDiff(want vaxis.Style, got refterm.Style, prof refterm.Profile) string {
	rgb := prof.Has(refterm.CapRGB)
	if !ColorOK(want.Foreground, got.Fg, rgb) {
		return fmt.Sprintf("fg want %v got %s", want.Foreground.Params(), got.Fg)
	}
	if !ColorOK(want.Background, got.Bg, rgb) {
		return fmt.Sprintf("bg want %v got %s", want.Background.Params(), got.Bg)
	}
	// vaxis attribute bits start at 1<<1 (AttrBold), the terminal's at 1<<0
	if uint8(want.Attribute) != got.Attr<<1 {
		return fmt.Sprintf("attr want %07b got %07b", want.Attribute>>1, got.Attr)
	}
	if prof.Has(refterm.CapStyledUL) {
		if uint8(want.UnderlineStyle) != got.UlStyle {
			return fmt.Sprintf("ulstyle want %d got %d", want.UnderlineStyle, got.UlStyle)
		}
		if !ColorOK(want.UnderlineColor, got.Ul, rgb) {
			return fmt.Sprintf("ulcolor want %v got %s", want.UnderlineColor.Params(), got.Ul)
		}
	} else {
		wantUL := uint8(0)
		if want.UnderlineStyle != vaxis.UnderlineOff {
			wantUL = 1
		}
		if wantUL != got.UlStyle {
			return fmt.Sprintf("ulstyle(collapsed) want %d got %d", wantUL, got.UlStyle)
		}
		if got.Ul.Kind != 0 {
			return fmt.Sprintf("ulcolor must be omitted, got %s", got.Ul)
		}
	}
	wl, wp := want.Hyperlink, want.HyperlinkParams
	if wl == "" {
		wp = ""
	}
	if wl != got.Link || wp != got.LinkParams {
		return fmt.Sprintf("link want %q/%q got %q/%q", wl, wp, got.Link, got.LinkParams)
	}
	return ""
}

// Mismatch describes the first cell that is not what the application set.
type Mismatch struct {
	Row, Col int
	Clause   string // text | width | style | poison | cursor-visible | cursor-pos | cursor-shape
	Detail   string
	WantKind string // never-written | blank | narrow | wide | zero-width
	GotKind  string
}

func kindOf(c vaxis.Cell, w int) string {
	switch {
	case c.Grapheme == "" && c.Style == (vaxis.Style{}):
		return "never-written"
	case c.Grapheme == "" || c.Grapheme == " ":
		return "blank"
	case w == 0:
		return "zero-width"
	case w > 1:
		return "wide"
	}
	return "narrow"
}

func gotKind(c refterm.Cell) string {
	switch {
	case c.Poison:
		return "poison"
	case c.Width == 0:
		return "continuation"
	case c.Text == "" || c.Text == " ":
		return "blank"
	case c.Width > 1:
		return "wide"
	}
	return "narrow"
}

// ExpectedWidth is the number of columns the grapheme of an application cell
// takes on this terminal: the explicit width the application gave, otherwise the
// terminal's own measure (forced by OSC 66 when explicit width is advertised).
func ExpectedWidth(c vaxis.Cell, prof refterm.Profile) int {
	if c.Width != 0 {
		return c.Width
	}
	if c.Grapheme == "" {
		return 1
	}
	if prof.Has(refterm.CapExplicitWidth) {
		return refterm.NaturalWidth(c.Grapheme, refterm.WidthCluster)
	}
	return refterm.NaturalWidth(c.Grapheme, prof.ModeFor())
}

// Compare checks every visible cell span of the application's screen against the
// terminal grid, and the hardware cursor. Visibility is as the renderer defines
// it: scanning a row left to right, a cell of width w hides the next w-1 cells.
func (m *Model) Compare(t View, prof refterm.Profile) *Mismatch {
	g := t.Grid()
	if len(g) != m.Rows || (m.Rows > 0 && len(g[0]) != m.Cols) {
		return &Mismatch{Clause: "size", Detail: fmt.Sprintf("terminal has %d rows, screen %dx%d", len(g), m.Cols, m.Rows)}
	}
	for r := 0; r < m.Rows; r++ {
		for c := 0; c < m.Cols; {
			want := m.Cells[r][c]
			w := ExpectedWidth(want, prof)
			wk := kindOf(want, w)
			span := w
			if span < 1 {
				span = 1
			}
			if c+span > m.Cols {
				span = m.Cols - c // caller keeps wide glyphs out of the last column; be safe
			}
			got := g[r][c]
			mk := func(clause, detail string) *Mismatch {
				return &Mismatch{Row: r, Col: c, Clause: clause, Detail: detail, WantKind: wk, GotKind: gotKind(got)}
			}
			for k := c; k < c+span; k++ {
				if g[r][k].Poison {
					return &Mismatch{Row: r, Col: k, Clause: "poison", Detail: fmt.Sprintf("cell shows undefined content (want %q)", want.Grapheme), WantKind: wk, GotKind: "poison"}
				}
			}
			blank := want.Grapheme == "" || want.Grapheme == " " || w == 0
			if blank {
				if !(got.Text == "" || got.Text == " ") || got.Width != 1 {
					return mk("text", fmt.Sprintf("want blank, terminal shows %q (width %d)", got.Text, got.Width))
				}
			} else {
				// the span must be tiled exactly by terminal cells whose text concatenates to the grapheme
				text := ""
				k := c
				for k < c+span {
					cell := g[r][k]
					if cell.Width == 0 {
						return mk("width", fmt.Sprintf("column %d is the tail of a glyph that starts outside the span", k))
					}
					text += cell.Text
					k += cell.Width
				}
				if k != c+span {
					return mk("width", fmt.Sprintf("want %q in %d columns, terminal glyphs end at column %d", want.Grapheme, span, k))
				}
				if text != want.Grapheme {
					return mk("text", fmt.Sprintf("want %q, terminal shows %q", want.Grapheme, text))
				}
			}
			for k := c; k < c+span; k++ {
				if d := StyleDiff(want.Style, g[r][k].Style, prof); d != "" {
					return &Mismatch{Row: r, Col: k, Clause: "style", Detail: d, WantKind: wk, GotKind: gotKind(g[r][k])}
				}
			}
			c += span
		}
	}
	return m.CompareCursor(t)
}

// View is anything that shows a grid of cells and a hardware cursor: the
// reference terminal, or the embedded emulator seen through an adapter.
type View interface {
	Grid() [][]refterm.Cell
	Cursor() (row, col int, pending bool)
	CursorVisible() bool
	CursorStyle() int
}

func (m *Model) CompareCursor(t View) *Mismatch {
	row, col, _ := t.Cursor()
	if m.Cursor.Visible != t.CursorVisible() {
		return &Mismatch{Clause: "cursor-visible", Detail: fmt.Sprintf("want visible=%v got %v", m.Cursor.Visible, t.CursorVisible())}
	}
	if m.Cursor.Visible {
		if row != m.Cursor.Row || col != m.Cursor.Col {
			return &Mismatch{Clause: "cursor-pos", Detail: fmt.Sprintf("want %d,%d got %d,%d", m.Cursor.Row, m.Cursor.Col, row, col)}
		}
		if t.CursorStyle() != m.Cursor.Shape {
			return &Mismatch{Clause: "cursor-shape", Detail: fmt.Sprintf("want %d got %d", m.Cursor.Shape, t.CursorStyle())}
		}
	}
	return nil
}
