// Package emucon is a console.Console whose terminal is the real embedded
// emulator (widgets/term.Model): bytes written by a guest Vaxis go through the
// real ansi.Parser into the Model; whatever the Model writes to its PTY stand-in
// (a pipe) is queued as the guest's input.
package emucon

import (
	"fmt"
	"io"
	"os"
	"strings"
	"sync"
	"syscall"

	"git.sr.ht/~rockorager/vaxis"
	"git.sr.ht/~rockorager/vaxis/ansi"
	"git.sr.ht/~rockorager/vaxis/widgets/term"
	"github.com/containerd/console"
	"verif.local/mc/refterm"
)

type Console struct {
	mu   sync.Mutex
	cond *sync.Cond
	M    *term.Model

	cols, rows int
	in         []byte // guest input
	closed     bool
	waiting    bool

	// child side: bytes for the emulator's parser
	feed    []byte
	feedEOF bool
	fcond   *sync.Cond
	parser  *ansi.Parser
	syncN   int
	syncCh  chan int

	rfd    int
	rd, wr *os.File
	buf    []byte
	Events []vaxis.Event
}

type feedReader struct{ c *Console }

func (f feedReader) Read(p []byte) (int, error) {
	c := f.c
	c.mu.Lock()
	defer c.mu.Unlock()
	for len(c.feed) == 0 && !c.feedEOF {
		c.fcond.Wait()
	}
	if len(c.feed) == 0 {
		return 0, io.EOF
	}
	n := copy(p, c.feed)
	c.feed = c.feed[n:]
	return n, nil
}

func New(cols, rows int) (*Console, error) {
	rd, wr, err := os.Pipe()
	if err != nil {
		return nil, err
	}
	fd := int(rd.Fd())
	if err := syscall.SetNonblock(fd, true); err != nil {
		return nil, err
	}
	c := &Console{cols: cols, rows: rows, rd: rd, wr: wr, rfd: fd, buf: make([]byte, 65536), syncCh: make(chan int)}
	c.cond = sync.NewCond(&c.mu)
	c.fcond = sync.NewCond(&c.mu)
	c.M = term.VerifNew(wr, cols, rows)
	c.parser = ansi.NewParser(feedReader{c})
	go func() {
		for seq := range c.parser.Next() {
			if apc, ok := seq.(ansi.APC); ok && strings.HasPrefix(apc.Data, "verif-sync-") {
				var n int
				fmt.Sscanf(apc.Data, "verif-sync-%d", &n)
				c.syncCh <- n
				continue
			}
			if _, ok := seq.(ansi.EOF); ok {
				return
			}
			evs := c.M.VerifFeed(seq)
			c.mu.Lock()
			c.Events = append(c.Events, evs...)
			c.mu.Unlock()
			c.parser.Finish(seq)
		}
	}()
	return c, nil
}

// Write hands the bytes to the emulator and returns once it has processed them
// and its replies are queued as guest input.
func (c *Console) Write(b []byte) (int, error) {
	c.mu.Lock()
	c.syncN++
	n := c.syncN
	c.feed = append(c.feed, b...)
	c.feed = append(c.feed, fmt.Sprintf("\x1b_verif-sync-%d\x1b\\", n)...)
	c.fcond.Broadcast()
	c.mu.Unlock()
	for got := range c.syncCh {
		if got == n {
			break
		}
	}
	// replies of the emulator
	var out []byte
	for {
		k, err := syscall.Read(c.rfd, c.buf)
		if err == syscall.EINTR {
			continue // the runtime's preemption signal
		}
		if k > 0 {
			out = append(out, c.buf[:k]...)
		}
		if k <= 0 || err != nil {
			break
		}
	}
	if len(out) > 0 {
		c.mu.Lock()
		c.in = append(c.in, out...)
		c.cond.Broadcast()
		c.mu.Unlock()
	}
	return len(b), nil
}

func (c *Console) Read(p []byte) (int, error) {
	c.mu.Lock()
	defer c.mu.Unlock()
	for len(c.in) == 0 && !c.closed {
		c.waiting = true
		c.cond.Broadcast()
		c.cond.Wait()
	}
	c.waiting = false
	if len(c.in) == 0 {
		return 0, io.EOF
	}
	n := copy(p, c.in)
	c.in = c.in[n:]
	return n, nil
}

// Inject queues guest input (as if typed).
func (c *Console) Inject(b []byte) {
	c.mu.Lock()
	c.in = append(c.in, b...)
	c.cond.Broadcast()
	c.mu.Unlock()
}

func (c *Console) Close() error {
	c.mu.Lock()
	c.closed = true
	c.cond.Broadcast()
	c.mu.Unlock()
	return nil
}

// Shutdown releases the parser goroutine and the pipe.
func (c *Console) Shutdown() {
	c.mu.Lock()
	c.feedEOF = true
	c.fcond.Broadcast()
	c.mu.Unlock()
	c.rd.Close()
	c.wr.Close()
}

func (c *Console) Fd() uintptr                      { return ^uintptr(0) }
func (c *Console) Name() string                     { return "emucon" }
func (c *Console) Resize(console.WinSize) error     { return nil }
func (c *Console) ResizeFrom(console.Console) error { return nil }
func (c *Console) SetRaw() error                    { c.mu.Lock(); c.closed = false; c.mu.Unlock(); return nil }
func (c *Console) DisableEcho() error               { return nil }
func (c *Console) Reset() error                     { return nil }
func (c *Console) Size() (console.WinSize, error) {
	return console.WinSize{Width: uint16(c.cols), Height: uint16(c.rows)}, nil
}

// ---- the emulator as a screenmodel.View -----------------------------------------------------

func convColor(v vaxis.Color) refterm.Color {
	ps := v.Params()
	switch len(ps) {
	case 1:
		return refterm.Color{Kind: 1, V: uint32(ps[0])}
	case 3:
		return refterm.Color{Kind: 2, V: uint32(ps[0])<<16 | uint32(ps[1])<<8 | uint32(ps[2])}
	}
	return refterm.Color{}
}

func ConvStyle(s vaxis.Style) refterm.Style {
	return refterm.Style{Fg: convColor(s.Foreground), Bg: convColor(s.Background), Ul: convColor(s.UnderlineColor),
		UlStyle: uint8(s.UnderlineStyle), Attr: uint8(s.Attribute >> 1), Link: s.Hyperlink, LinkParams: s.HyperlinkParams}
}

// View shows an emulator snapshot as grid + cursor.
type View struct{ S term.VerifSnap }

func (v View) Grid() [][]refterm.Cell {
	src := v.S.Primary
	if v.S.Modes.Smcup {
		src = v.S.Alt
	}
	out := make([][]refterm.Cell, len(src))
	for r, row := range src {
		out[r] = make([]refterm.Cell, len(row))
		for c := 0; c < len(row); c++ {
			cell := row[c]
			w := cell.Width
			if w < 1 {
				w = 1
			}
			out[r][c] = refterm.Cell{Text: cell.Grapheme, Width: w, Style: ConvStyle(cell.Style)}
			for k := 1; k < w && c+k < len(row); k++ {
				out[r][c+k] = refterm.Cell{Width: 0, Style: ConvStyle(row[c+k].Style)}
			}
			c += w - 1
		}
	}
	return out
}
func (v View) Cursor() (int, int, bool) { return v.S.Row, v.S.Col, v.S.LastCol }
func (v View) CursorVisible() bool      { return v.S.Modes.Dectcem }
func (v View) CursorStyle() int         { return int(v.S.CursorStyle) }
