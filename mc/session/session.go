// Package session opens a real Vaxis on a fake console backed by the reference
// terminal.
package session

import (
	"fmt"
	"runtime"

	"git.sr.ht/~rockorager/vaxis"
	vsignal "git.sr.ht/~rockorager/vaxis/verifshim/vsignal"
	vtime "git.sr.ht/~rockorager/vaxis/verifshim/vtime"
	"verif.local/mc/fakecon"
	"verif.local/mc/refterm"
)

type Session struct {
	T   *refterm.Terminal
	Con *fakecon.Console
	Vx  *vaxis.Vaxis
	// Startup holds the events delivered by New and the start-up replies.
	Startup []vaxis.Event
}

// Open starts a session. Virtual timers never fire here: every profile used in
// seq mode answers DA1 and DSR-CPR, so start-up needs no timeout.
func Open(prof refterm.Profile, cols, rows int, opts vaxis.Options) (*Session, error) {
	vtime.ResetClock()
	vsignal.ResetAll()
	t := refterm.New(cols, rows, prof)
	con := fakecon.New(t)
	opts.WithConsole = con
	// New normally needs no timer (every profile answers DA1 and DSR-CPR). With a tiny event
	// queue the input goroutine can block on the queue before the cursor-position report
	// is handled; the 50 ms time-out of that query is then the way forward, as in real time.
	type res struct {
		vx  *vaxis.Vaxis
		err error
	}
	done := make(chan res, 1)
	go func() {
		vx, err := vaxis.New(opts)
		done <- res{vx, err}
	}()
	var rr res
	spins := 0
wait:
	for {
		select {
		case rr = <-done:
			break wait
		default:
			spins++
			if spins > 50 && runtime.GOMAXPROCS(0) == 1 {
				// everything else is blocked (workers run with GOMAXPROCS=1): virtual time passes
				vtime.FireWhere(func(d vtime.Duration, isFunc bool) bool { return !isFunc && d == 50*vtime.Millisecond })
				spins = 0
			}
			runtime.Gosched()
		}
	}
	vx, err := rr.vx, rr.err
	if err != nil {
		return nil, fmt.Errorf("New: %w", err)
	}
	s := &Session{T: t, Con: con, Vx: vx}
	// start-up replies that arrive after DA1 (in-band size report, colour scheme
	// report) are handled asynchronously: wait until the input goroutine has
	// seen them, so that every session starts from the same state
	s.Startup = s.Barrier()
	return s, nil
}

// Barrier injects a focus-in report and waits for its event: the input
// goroutine handles sequences in order, so everything the terminal sent before
// has been handled when it arrives. Returns the events received meanwhile.
func (s *Session) Barrier() []vaxis.Event {
	s.Con.Inject([]byte("\x1b[I"))
	var evs []vaxis.Event
	for ev := range s.Vx.Events() {
		if _, ok := ev.(vaxis.FocusIn); ok {
			return evs
		}
		evs = append(evs, ev)
	}
	return evs
}

// Drain empties the event queue and returns what was in it.
func (s *Session) Drain() []vaxis.Event {
	var evs []vaxis.Event
	for {
		select {
		case ev := <-s.Vx.Events():
			evs = append(evs, ev)
		default:
			return evs
		}
	}
}

// WaitEvent blocks until an event satisfying pred arrives (condition-based, no clock).
func (s *Session) WaitEvent(pred func(vaxis.Event) bool) vaxis.Event {
	for ev := range s.Vx.Events() {
		if pred(ev) {
			return ev
		}
	}
	return nil
}
