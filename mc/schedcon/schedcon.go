// Package schedcon is a console.Console for executions under the controlled
// scheduler: Read parks in vsched.Wait until input is available, Write is a
// scheduling point after which the reference terminal interprets the bytes.
// Replies of the terminal are delivered at once, or held until the harness (an
// environment event) releases or drops them.
package schedcon

import (
	"io"

	"git.sr.ht/~rockorager/vaxis/verifshim/vsched"
	"github.com/containerd/console"
	"verif.local/mc/refterm"
)

type Console struct {
	T *refterm.Terminal

	in      []byte
	EOF     bool
	Waiting bool

	// Hold keeps replies back until Release.
	Hold bool
	Held []byte
	// Mute drops replies.
	Mute bool

	Bytes                   int
	Closes, Resets, SetRaws int
	WritesAfterClose        int
	Log                     []string
	MaxRead                 int
}

func New(t *refterm.Terminal) *Console { return &Console{T: t} }

func (c *Console) Write(b []byte) (int, error) {
	vsched.Yield("console.Write")
	c.Bytes += len(b)
	if c.Closes > 0 {
		c.WritesAfterClose++
	}
	c.T.Write(b)
	if out := c.T.TakeOutput(); len(out) > 0 && !c.Mute {
		if c.Hold {
			c.Held = append(c.Held, out...)
		} else {
			c.in = append(c.in, out...)
		}
	}
	return len(b), nil
}

// Release delivers the held replies (called from an environment event or a thread).
func (c *Console) Release() {
	c.in = append(c.in, c.Held...)
	c.Held = nil
}

// Drop forgets the held replies ("never answered").
func (c *Console) Drop() { c.Held = nil }

func (c *Console) Read(p []byte) (int, error) {
	c.Waiting = true
	vsched.Wait("console.Read", func() bool { return len(c.in) > 0 || c.EOF })
	c.Waiting = false
	if len(c.in) == 0 {
		return 0, io.EOF
	}
	n := len(p)
	if n > len(c.in) {
		n = len(c.in)
	}
	if c.MaxRead > 0 && n > c.MaxRead {
		n = c.MaxRead
	}
	copy(p, c.in[:n])
	c.in = c.in[n:]
	return n, nil
}

// Inject queues bytes sent by the terminal / typed by the user.
func (c *Console) Inject(b []byte) { c.in = append(c.in, b...) }

// Pending reports the number of unread input bytes.
func (c *Console) Pending() int { return len(c.in) }

// Idle reports whether the reader is parked with nothing to read.
func (c *Console) Idle() bool { return c.Waiting && len(c.in) == 0 }

func (c *Console) Close() error {
	vsched.Yield("console.Close")
	c.Closes++
	return nil
}

func (c *Console) Fd() uintptr  { return ^uintptr(0) }
func (c *Console) Name() string { return "schedcon" }

func (c *Console) Resize(console.WinSize) error     { return nil }
func (c *Console) ResizeFrom(console.Console) error { return nil }
func (c *Console) SetRaw() error                    { c.SetRaws++; return nil }
func (c *Console) DisableEcho() error               { return nil }
func (c *Console) Reset() error                     { vsched.Yield("console.Reset"); c.Resets++; return nil }
func (c *Console) Size() (console.WinSize, error) {
	return console.WinSize{Width: uint16(c.T.Cols), Height: uint16(c.T.Rows)}, nil
}

// ResizeTerm changes the terminal size the way a window manager would; an in-band
// size report, if the mode is on, becomes input.
func (c *Console) ResizeTerm(cols, rows int) {
	c.T.Resize(cols, rows)
	if out := c.T.TakeOutput(); len(out) > 0 && !c.Mute {
		c.in = append(c.in, out...)
	}
}
