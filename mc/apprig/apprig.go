// Package apprig runs a real vxfw.App on a fake console and steps it
// deterministically: the 8 ms frame tick is a virtual timer fired by the
// harness, and a sentinel event tells when the event loop has caught up.
package apprig

import (
	"fmt"

	"git.sr.ht/~rockorager/vaxis"
	vsignal "git.sr.ht/~rockorager/vaxis/verifshim/vsignal"
	vtime "git.sr.ht/~rockorager/vaxis/verifshim/vtime"
	"git.sr.ht/~rockorager/vaxis/vxfw"
	"verif.local/mc/fakecon"
	"verif.local/mc/refterm"
)

// Sentinel is delivered to the root widget through the normal routing; roots
// used with the rig must call Rig.Seen when they receive it (in any phase).
type Sentinel struct{ N int }

type Rig struct {
	T    *refterm.Terminal
	Con  *fakecon.Console
	App  *vxfw.App
	done chan error
	seen chan [2]int
	n    int
	tick int // id of the last frame timer seen
}

const frameTick = 8 * vtime.Millisecond

// Start creates the app and runs root. The first layout has happened when it returns.
func Start(prof refterm.Profile, cols, rows int, root vxfw.Widget, hook func(*Rig)) (*Rig, error) {
	vtime.ResetClock()
	vsignal.ResetAll()
	t := refterm.New(cols, rows, prof)
	con := fakecon.New(t)
	app, err := vxfw.NewApp(vaxis.Options{WithConsole: con})
	if err != nil {
		return nil, err
	}
	r := &Rig{T: t, Con: con, App: app, done: make(chan error, 1), seen: make(chan [2]int, 16)}
	if hook != nil {
		hook(r)
	}
	before := vtime.LastID()
	go func() { r.done <- app.Run(root) }()
	// the loop is parked once its first frame timer is armed
	tm := vtime.WaitArmed(before, frameTick)
	r.tick = tm.ID
	return r, nil
}

// Seen must be called by the root widget when it receives a Sentinel.
func (r *Rig) Seen(s Sentinel) { r.seen <- [2]int{s.N, vtime.LastID()} }

// Sync posts a sentinel and waits until the loop has handled everything posted
// before it and is parked again.
func (r *Rig) Sync() bool {
	r.n++
	r.App.PostEvent(Sentinel{N: r.n})
	for {
		select {
		case got := <-r.seen:
			if got[0] == r.n {
				// the iteration that handled the sentinel is past its select: the timer the
				// loop parks on next is armed after this point
				return r.waitParked(got[1])
			}
		case err := <-r.done:
			r.done <- err
			return false
		}
	}
}

// Post delivers an event to the app and waits until it has been handled.
func (r *Rig) Post(ev vaxis.Event) bool {
	r.App.PostEvent(ev)
	return r.Sync()
}

// Inject sends terminal input followed by an in-band sentinel (a kitty report of
// the Caps Lock key whose modifier field carries a tag) and waits until the app
// has handled it: terminal input reaches the app through the input goroutine, so
// an event posted directly could overtake it.
func (r *Rig) Inject(b string) bool {
	r.n++
	tag := r.n%200 + 1
	r.Con.Inject([]byte(b + fmt.Sprintf("\x1b[57358;%du", tag)))
	for {
		select {
		case got := <-r.seen:
			if got[0] == -tag {
				return r.waitParked(got[1])
			}
		case err := <-r.done:
			r.done <- err
			return false
		}
	}
}

// KeySentinel recognises the in-band sentinel; roots must call SeenKey for it.
func KeySentinel(ev vaxis.Event) (tag int, ok bool) {
	if k, isKey := ev.(vaxis.Key); isKey && k.Keycode == vaxis.KeyCapsLock {
		return int(k.Modifiers) + 1, true
	}
	return 0, false
}

// SeenKey must be called by the widget that receives the in-band sentinel.
func (r *Rig) SeenKey(tag int) { r.seen <- [2]int{-tag, vtime.LastID()} }

// Tick fires the frame timer the loop is waiting on and waits for the loop to
// park again (a frame has been drawn if one was due). Returns false if Run returned.
func (r *Rig) Tick() bool {
	for _, t := range vtime.Pending() {
		if t.ID == r.tick {
			vtime.Fire(t)
		}
	}
	return r.waitParked(r.tick)
}

// waitParked waits until the loop has armed a frame timer newer than after, or Run returned.
func (r *Rig) waitParked(after int) bool {
	got := make(chan *vtime.Timer, 1)
	go func() { got <- vtime.WaitArmed(after, frameTick) }()
	select {
	case tm := <-got:
		r.tick = tm.ID
		return true
	case err := <-r.done:
		r.done <- err
		return false
	}
}

// Finished reports whether Run has returned (non-blocking).
func (r *Rig) Finished() (bool, error) {
	select {
	case err := <-r.done:
		r.done <- err
		return true, err
	default:
		return false, nil
	}
}

// Quit makes Run return (through a QuitCmd-independent path: closing the console
// is not enough, so the root must cooperate) - used by harness roots that return
// vxfw.QuitCmd on a Quit sentinel.
type QuitNow struct{}

func (r *Rig) Stop() {
	r.App.PostEvent(QuitNow{})
	<-r.done
}
